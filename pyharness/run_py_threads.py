#!/usr/bin/env python3
"""Python threads, each with its own tokenizer created from ONE Dictionary, vs the sequential run.
usage: run_py_threads.py <config.json> <resource_dir> <streams.json> <out.json>"""
import json
import sys
import threading


def obs(ms):
    return [(m.surface(), m.begin(), m.end(), tuple(m.part_of_speech()), m.dictionary_form(), m.normalized_form(), m.reading_form(), m.word_id()) for m in ms]


def main():
    cfg, res, sp, op = sys.argv[1:5]
    import sudachipy as sdp
    dic = sdp.Dictionary(config_path=cfg, resource_dir=res)
    streams = json.load(open(sp, encoding="utf-8"))
    modes = [sdp.SplitMode.A, sdp.SplitMode.B, sdp.SplitMode.C]
    seq_tok = [dic.create(m) for m in modes]
    expected = [[obs(seq_tok[(i + k) % 3].tokenize(t)) for k, t in enumerate(s)] for i, s in enumerate(streams)]
    got = [None] * len(streams)
    barrier = threading.Barrier(len(streams))

    def work(i):
        toks = [dic.create(m) for m in modes]
        out = toks[0].tokenize("")
        barrier.wait()
        r = []
        for k, t in enumerate(streams[i]):
            tk = toks[(i + k) % 3]
            if k % 2:
                r.append(obs(tk.tokenize(t, out=out)))
            else:
                r.append(obs(tk.tokenize(t)))
        got[i] = r

    ths = [threading.Thread(target=work, args=(i,)) for i in range(len(streams))]
    for t in ths:
        t.start()
    for t in ths:
        t.join()
    mism = 0
    example = None
    for i in range(len(streams)):
        if got[i] is None:
            mism += len(streams[i])
            example = example or "thread %d died" % i
            continue
        for k in range(len(streams[i])):
            if got[i][k] != expected[i][k]:
                mism += 1
                example = example or "thread %d text %r" % (i, streams[i][k])
    # the dictionary still answers as before
    after = [[obs(seq_tok[(i + k) % 3].tokenize(t)) for k, t in enumerate(s)] for i, s in enumerate(streams)]
    if after != expected:
        mism += 1
        example = example or "sequential results changed after the threaded run"
    json.dump({"analyses": sum(len(s) for s in streams), "mismatches": mism, "example": example}, open(op, "w"), ensure_ascii=False)


if __name__ == "__main__":
    main()
