#!/usr/bin/env python3
"""Python threads, each with its own tokenizer created from ONE Dictionary, vs the sequential run.
usage: run_py_threads.py <config.json> <resource_dir> <streams.json> <out.json>"""
import json
import sys
import threading
import types

# sudachipy needs the `tokenizers` package only for PreTokenizer.custom(obj), which wraps the adapter; when the package is
# absent a stand-in returning the adapter itself is installed, so the adapter is driven exactly as tokenizers would:
# adapter(index, string) from whatever thread does the encoding
try:
    import tokenizers  # noqa: F401
    HAVE_TOKENIZERS = True
except Exception:
    HAVE_TOKENIZERS = False
    _m = types.ModuleType("tokenizers")
    _pm = types.ModuleType("tokenizers.pre_tokenizers")

    class PreTokenizer:
        @staticmethod
        def custom(obj):
            return obj

    _pm.PreTokenizer = PreTokenizer
    _m.pre_tokenizers = _pm
    sys.modules["tokenizers"] = _m
    sys.modules["tokenizers.pre_tokenizers"] = _pm


def pretok_handler(index, string, morphemes):
    # what a user-supplied handler does: walk the list it is handed
    return [(m.surface(), m.begin(), m.end(), m.reading_form(), tuple(m.part_of_speech())) for m in morphemes]


def pretok_phase(dic, streams):
    """ONE adapter (Dictionary.pre_tokenizer with a handler) called from all threads vs its single-threaded answers"""
    if HAVE_TOKENIZERS:
        return 0, 0, None
    try:
        adapter = dic.pre_tokenizer(handler=pretok_handler)
    except Exception as e:  # the binding may have been built without the adapter
        return 0, 0, "pre_tokenizer unavailable: %s" % e
    texts = sorted({t for s in streams for t in s if t})[:24]
    if not texts:
        return 0, 0, None
    expected = [adapter(i, t) for i, t in enumerate(texts)]
    old = sys.getswitchinterval()
    sys.setswitchinterval(1e-5)
    nthreads = max(2, min(8, len(streams)))
    problems = []
    lock = threading.Lock()
    start = threading.Barrier(nthreads)
    rounds = 40

    def work(tid):
        try:
            start.wait(timeout=60)
        except threading.BrokenBarrierError:
            pass
        for r in range(rounds):
            for k in range(len(texts)):
                i = (k + tid + r) % len(texts)
                try:
                    got = adapter(i, texts[i])
                except BaseException as e:
                    got = "raised %s: %s" % (type(e).__name__, str(e)[:100])
                if got != expected[i]:
                    with lock:
                        problems.append("pre-tokenizer adapter: thread %d text %r: %r instead of %r" % (tid, texts[i], str(got)[:120], str(expected[i])[:120]))
                    return

    ths = [threading.Thread(target=work, args=(t,)) for t in range(nthreads)]
    for t in ths:
        t.start()
    for t in ths:
        t.join()
    sys.setswitchinterval(old)
    return nthreads * rounds * len(texts), len(problems), (problems[0] if problems else None)


def obs(ms):
    return [(m.surface(), m.begin(), m.end(), tuple(m.part_of_speech()), m.dictionary_form(), m.normalized_form(), m.reading_form(), m.word_id()) for m in ms]


def main():
    cfg, res, sp, op = sys.argv[1:5]
    import sudachipy as sdp
    dic = sdp.Dictionary(config_path=cfg, resource_dir=res)
    streams = json.load(open(sp, encoding="utf-8"))
    modes = [sdp.SplitMode.A, sdp.SplitMode.B, sdp.SplitMode.C]
    seq_tok = [dic.create(m) for m in modes]
    expected = [[obs(seq_tok[(i + k) % 3].tokenize(t)) for k, t in enumerate(s)] for i, s in enumerate(streams)]
    got = [None] * len(streams)
    barrier = threading.Barrier(len(streams))

    errors = [None] * len(streams)

    def work(i):
        # a worker that raises must neither leave the others waiting at the barrier nor go unnoticed
        toks = out = None
        try:
            toks = [dic.create(m) for m in modes]
            out = toks[0].tokenize("")
        except BaseException as e:
            errors[i] = "setting up its tokenizers raised %s: %s" % (type(e).__name__, str(e)[:120])
        try:
            barrier.wait(timeout=60)
        except threading.BrokenBarrierError:
            pass
        if toks is None or out is None:
            return
        r = []
        for k, t in enumerate(streams[i]):
            tk = toks[(i + k) % 3]
            try:
                if k % 2:
                    r.append(obs(tk.tokenize(t, out=out)))
                else:
                    r.append(obs(tk.tokenize(t)))
            except BaseException as e:
                r.append("raised %s: %s" % (type(e).__name__, str(e)[:120]))
        got[i] = r

    ths = [threading.Thread(target=work, args=(i,)) for i in range(len(streams))]
    for t in ths:
        t.start()
    for t in ths:
        t.join()
    mism = 0
    example = None
    for i in range(len(streams)):
        if got[i] is None:
            mism += len(streams[i])
            example = example or "thread %d %s" % (i, errors[i] or "died")
            continue
        for k in range(len(streams[i])):
            if got[i][k] != expected[i][k]:
                mism += 1
                example = example or "thread %d text %r" % (i, streams[i][k])
    # the dictionary still answers as before
    after = [[obs(seq_tok[(i + k) % 3].tokenize(t)) for k, t in enumerate(s)] for i, s in enumerate(streams)]
    if after != expected:
        mism += 1
        example = example or "sequential results changed after the threaded run"
    # tokenizers prepared by the MAIN thread, one per worker (exclusively owned), used on the worker threads
    handed = [dic.create(modes[i % 3]) for i in range(len(streams))]
    exp3 = [[obs(seq_tok[i % 3].tokenize(t)) for t in s[:40]] for i, s in enumerate(streams)]
    got3 = [None] * len(streams)

    def work3(i):
        r = []
        for t in streams[i][:40]:
            try:
                r.append(obs(handed[i].tokenize(t)))
            except BaseException as e:
                r.append("raised %s: %s" % (type(e).__name__, str(e)[:120]))
        got3[i] = r

    ths = [threading.Thread(target=work3, args=(i,)) for i in range(len(streams))]
    for t in ths:
        t.start()
    for t in ths:
        t.join()
    for i in range(len(streams)):
        for k in range(len(exp3[i])):
            if got3[i] is None or got3[i][k] != exp3[i][k]:
                mism += 1
                example = example or "tokenizer created on the main thread, used on thread %d, text %r: %r" % (i, streams[i][k], (got3[i][k] if got3[i] else "thread died") if not isinstance(got3[i][k] if got3[i] else None, list) else "different morphemes")
    n2, m2, ex2 = pretok_phase(dic, streams)
    mism += m2
    example = example or (ex2 if m2 else None)
    json.dump({"analyses": sum(len(s) for s in streams) + n2, "mismatches": mism, "example": example, "pretokenizer_calls": n2,
               "pretokenizer_note": (ex2 if not m2 else None)}, open(op, "w"), ensure_ascii=False)


if __name__ == "__main__":
    main()
