#!/usr/bin/env python3
"""C01 through the Python API: the morphemes a Tokenizer returns partition the text it was given.

usage: run_c01.py <config.json> <resource_dir> <sessions.json> <out.json>
sessions: list of {"mode", "ops": [{"text", "mode" (or null), "out" (bool)}]}: one Tokenizer and one reused output list per
session.  For every op the predicate is evaluated here, on what the interpreter sees:
  begin of the first morpheme is 0, each begins where the previous ended, the last ends at len(text) (code points),
  text[begin:end] == raw_surface(), the raw surfaces concatenate to the text, and a non-blank text yields morphemes.
Writes {"results": [[null | "what failed", ...], ...], "exceptions": n}.
"""
import json
import sys


def check(text, ms):
    try:
        n = len(ms)
        pos = 0
        parts = []
        for i in range(n):
            m = ms[i]
            b, e = m.begin(), m.end()
            if b != pos:
                return "morpheme %d of %d begins at %d, the previous one ended at %d" % (i, n, b, pos)
            if e < b or e > len(text):
                return "morpheme %d of %d has the range %d..%d in a text of %d code points" % (i, n, b, e, len(text))
            rs = m.raw_surface()
            if text[b:e] != rs:
                return "morpheme %d of %d: raw_surface %r is not text[%d:%d] = %r" % (i, n, rs, b, e, text[b:e])
            parts.append(rs)
            pos = e
        if pos != len(text):
            return "the %d morphemes end at %d, the text has %d code points" % (n, pos, len(text))
        if "".join(parts) != text:
            return "raw surfaces do not concatenate to the text"
        return None
    except BaseException as ex:  # PanicException derives from BaseException
        return "exception while reading the morphemes: %s: %s" % (type(ex).__name__, str(ex)[:200])


def main():
    cfg, res, sess_path, out_path = sys.argv[1:5]
    import sudachipy as sp
    modes = {"A": sp.SplitMode.A, "B": sp.SplitMode.B, "C": sp.SplitMode.C}
    dic = sp.Dictionary(config_path=cfg, resource_dir=res)
    sessions = json.load(open(sess_path, encoding="utf-8"))
    results = []
    exceptions = 0
    for s in sessions:
        tok = dic.create(modes[s["mode"]])
        reuse = tok.tokenize("")
        obs = []
        for op in s["ops"]:
            text = op["text"]
            kw = {}
            if op.get("mode"):
                kw["mode"] = modes[op["mode"]]
            if op.get("out"):
                kw["out"] = reuse
            try:
                ms = tok.tokenize(text, **kw)
            except BaseException as ex:
                exceptions += 1
                if type(ex).__name__ == "PanicException":
                    obs.append("tokenize raised PanicException: %s" % str(ex)[:200])
                    tok = dic.create(modes[s["mode"]])
                    reuse = tok.tokenize("")
                else:
                    obs.append({"error": "%s: %s" % (type(ex).__name__, str(ex)[:200])})
                continue
            obs.append(check(text, ms))
        results.append(obs)
    json.dump({"results": results, "exceptions": exceptions}, open(out_path, "w", encoding="utf-8"), ensure_ascii=False)


if __name__ == "__main__":
    main()
