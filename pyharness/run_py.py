#!/usr/bin/env python3
"""Drives the sudachipy module built from the repository's working tree.

usage: run_py.py <config.json> <resource_dir> <sessions.json> <out.json>
sessions: list of {"mode", "fields" (list or null), "projection" (str or null), "ops": [...]}.
Writes, per session, the list of observations (one per op).
"""
import json
import sys


def mode_of(sp, name):
    return {"A": sp.SplitMode.A, "B": sp.SplitMode.B, "C": sp.SplitMode.C}[name]


def observe(ms, text=None):
    out = []
    for m in ms:
        d = {
            "surface": m.surface(),
            "raw_surface": m.raw_surface(),
            "begin": m.begin(),
            "end": m.end(),
            "pos": list(m.part_of_speech()),
            "pos_id": m.part_of_speech_id(),
            "dictionary_form": m.dictionary_form(),
            "normalized_form": m.normalized_form(),
            "reading_form": m.reading_form(),
            "is_oov": m.is_oov(),
            "word_id": m.word_id(),
            "dictionary_id": m.dictionary_id(),
            "synonym_group_ids": list(m.synonym_group_ids()),
        }
        if text is not None:
            d["slice_ok"] = (text[m.begin():m.end()] == m.raw_surface())
        out.append(d)
    return out


def main():
    cfg, res, sess_path, out_path = sys.argv[1:5]
    import sudachipy as sp
    dic = sp.Dictionary(config_path=cfg, resource_dir=res)
    sessions = json.load(open(sess_path, encoding="utf-8"))
    results = []
    panics = 0
    for s in sessions:
        kw = {}
        if s.get("projection"):
            kw["projection"] = s["projection"]
        fields = set(s["fields"]) if s.get("fields") is not None else None
        tok = dic.create(mode_of(sp, s["mode"]), fields=fields, **kw)
        # output lists are obtained the documented way: an empty analysis of the same tokenizer / an empty lookup
        reuse = tok.tokenize("")
        reuse2 = tok.tokenize("")
        reuse3 = dic.lookup("")
        last = None
        last_text = None
        obs = []
        for op in s["ops"]:
            try:
                if op["op"] == "tokenize":
                    kw2 = {}
                    if op.get("mode"):
                        kw2["mode"] = mode_of(sp, op["mode"])
                    if op.get("out"):
                        kw2["out"] = reuse
                    last = tok.tokenize(op["text"], **kw2)
                    last_text = op["text"]
                    obs.append({"ok": True, "morphemes": observe(last, last_text), "tok_mode": str(tok.mode).split(".")[-1]})
                elif op["op"] == "split":
                    if last is None or len(last) == 0:
                        obs.append({"ok": True, "morphemes": [], "skipped": True})
                        continue
                    idx = op["index"] % len(last)
                    kw2 = {"add_single": op.get("add_single", True)}
                    if op.get("out"):
                        kw2["out"] = reuse2
                    r = last[idx].split(mode_of(sp, op["mode"]), **kw2)
                    obs.append({"ok": True, "morphemes": observe(r, last_text)})
                elif op["op"] == "lookup":
                    kw2 = {}
                    if op.get("out"):
                        kw2["out"] = reuse3
                    r = dic.lookup(op["query"], **kw2)
                    obs.append({"ok": True, "morphemes": observe(r)})
            except BaseException as e:  # noqa: a Rust panic surfaces as pyo3_runtime.PanicException (BaseException)
                name = type(e).__name__
                if name == "PanicException":
                    panics += 1
                obs.append({"ok": False, "error": name})
        results.append(obs)
    json.dump({"results": results, "panic_exceptions": panics}, open(out_path, "w", encoding="utf-8"), ensure_ascii=False)


if __name__ == "__main__":
    main()
