//! C15 — joined numerals are normalised to their decimal value.
//!
//! Two levels: (a) the numeral parser through the hook `verif_parse_numeral` (volume), compared with the Coq model
//! `Model.Numeric.parse` and with the expected rendering of the value the numeral was generated from;
//! (b) the whole pipeline with a dictionary that tags digits and units as numerals (JoinNumericPlugin).
use crate::common::*;
use serde_json::{json, Value};
use std::path::{Path, PathBuf};
use sudachi::analysis::stateless_tokenizer::StatelessTokenizer;
use sudachi::analysis::{Mode, Tokenize};
use sudachi::config::ConfigBuilder;
use sudachi::dic::build::DictBuilder;
use sudachi::dic::dictionary::JapaneseDictionary;
use sudachi::dic::storage::{Storage, SudachiDicData};
use sudachi::plugin::path_rewrite::join_numeric::verif_parse_numeral;

pub const KANJI_DIGITS: [char; 10] = ['〇', '一', '二', '三', '四', '五', '六', '七', '八', '九'];
pub const FULLWIDTH_DIGITS: [char; 10] = ['０', '１', '２', '３', '４', '５', '６', '７', '８', '９'];
const SMALL_UNITS: [(usize, char); 3] = [(3, '千'), (2, '百'), (1, '十')];
const LARGE_UNITS: [(usize, char); 3] = [(12, '兆'), (8, '億'), (4, '万')];

// ------------------------------------------------------------------------------------------------ dictionary
/// rows appended to sudachi/tests/resources/lex.csv: numeral units, separators, a few katakana words
pub const EXTRA_ROWS: &str = "\
十,9,9,2478,十,名詞,数詞,*,*,*,*,ジュウ,十,*,A,*,*,*,*
百,9,9,2478,百,名詞,数詞,*,*,*,*,ヒャク,百,*,A,*,*,*,*
千,9,9,2478,千,名詞,数詞,*,*,*,*,セン,千,*,A,*,*,*,*
万,9,9,2478,万,名詞,数詞,*,*,*,*,マン,万,*,A,*,*,*,*
億,9,9,2478,億,名詞,数詞,*,*,*,*,オク,億,*,A,*,*,*,*
兆,9,9,2478,兆,名詞,数詞,*,*,*,*,チョウ,兆,*,A,*,*,*,*
\",\",8,8,3000,\",\",補助記号,読点,*,*,*,*,\",\",\",\",*,A,*,*,*,*
.,8,8,3000,.,補助記号,句点,*,*,*,*,.,.,*,A,*,*,*,*
円,8,8,3000,円,名詞,普通名詞,助数詞可能,*,*,*,エン,円,*,A,*,*,*,*
コーヒー,7,7,4000,コーヒー,名詞,普通名詞,一般,*,*,*,コーヒー,コーヒー,*,A,*,*,*,*
カップ,7,7,4000,カップ,名詞,普通名詞,一般,*,*,*,カップ,カップ,*,A,*,*,*,*
四半期,8,8,3000,四半期,名詞,普通名詞,一般,*,*,*,シハンキ,四半期,*,A,*,*,*,*
一人,8,8,3000,一人,名詞,普通名詞,一般,*,*,*,ヒトリ,一人,*,A,*,*,*,*
千葉,8,8,3000,千葉,名詞,固有名詞,地名,一般,*,*,チバ,千葉,*,A,*,*,*,*
十分,8,8,3000,十分,名詞,普通名詞,一般,*,*,*,ジュウブン,十分,*,A,*,*,*,*
三角形,8,8,3000,三角形,名詞,普通名詞,一般,*,*,*,サンカクケイ,三角形,*,A,*,*,*,*
九州,8,8,3000,九州,名詞,固有名詞,地名,一般,*,*,キュウシュウ,九州,*,A,*,*,*,*
万年筆,8,8,3000,万年筆,名詞,普通名詞,一般,*,*,*,マンネンヒツ,万年筆,*,A,*,*,*,*
百貨店,8,8,3000,百貨店,名詞,普通名詞,一般,*,*,*,ヒャッカテン,百貨店,*,A,*,*,*,*
〇印,8,8,3000,〇印,名詞,普通名詞,一般,*,*,*,マルジルシ,〇印,*,A,*,*,*,*
と,2,2,3000,と,助詞,格助詞,*,*,*,*,ト,と,*,A,*,*,*,*
";

/// dictionary words that BEGIN with a numeral character but continue otherwise: directly after a numeral they must not
/// disturb it (they are not numerals: the class of the whole token is the intersection over its characters)
pub const NUMERAL_HEADED_WORDS: [&str; 9] = ["四半期", "一人", "千葉", "十分", "三角形", "九州", "万年筆", "百貨店", "〇印"];

pub fn read_repo(rel: &str) -> Vec<u8> {
    std::fs::read(format!("{}/{}", repo(), rel)).unwrap_or_else(|e| panic!("cannot read {}: {}", rel, e))
}

/// compiles tests/resources/lex.csv + extra rows against matrix_10x10.def
pub fn compile_system(extra_rows: &str) -> Vec<u8> {
    let mut lex = read_repo("sudachi/tests/resources/lex.csv");
    lex.extend_from_slice(b"\n");
    lex.extend_from_slice(extra_rows.as_bytes());
    let conn = read_repo("sudachi/tests/resources/matrix_10x10.def");
    let mut b = DictBuilder::new_system();
    b.read_conn(&conn[..]).expect("matrix");
    b.read_lexicon(&lex[..]).expect("lexicon");
    b.resolve().expect("resolve");
    let mut out = Vec::new();
    b.compile(&mut out).expect("compile");
    out
}

/// resource directory (char.def, rewrite.def, unk.def) under the work directory
pub fn resource_dir(work: &Path, name: &str, char_def_rel: &str) -> PathBuf {
    let d = work.join(name);
    std::fs::create_dir_all(&d).unwrap();
    std::fs::write(d.join("char.def"), read_repo(char_def_rel)).unwrap();
    std::fs::write(d.join("rewrite.def"), read_repo("resources/rewrite.def")).unwrap();
    std::fs::write(d.join("unk.def"), read_repo("resources/unk.def")).unwrap();
    d
}

pub fn load_dict(dic: &[u8], res: &Path, path_rewrite: Value) -> JapaneseDictionary {
    let cfg = json!({
        "path": res.to_string_lossy(),
        "characterDefinitionFile": "char.def",
        "inputTextPlugin": [{"class": "com.worksap.nlp.sudachi.DefaultInputTextPlugin"}],
        "oovProviderPlugin": [{"class": "com.worksap.nlp.sudachi.SimpleOovPlugin",
                               "oovPOS": ["名詞", "普通名詞", "一般", "*", "*", "*"], "leftId": 8, "rightId": 8, "cost": 6000}],
        "pathRewritePlugin": path_rewrite,
    });
    let cfg = ConfigBuilder::from_bytes(cfg.to_string().as_bytes()).unwrap().build();
    JapaneseDictionary::from_cfg_storage(&cfg, SudachiDicData::new(Storage::Owned(dic.to_vec()))).expect("dictionary loads")
}

#[derive(Clone, Debug)]
pub struct Tok {
    pub begin: usize,
    pub end: usize,
    pub surface: String,
    pub norm: String,
    pub pos: Vec<String>,
    pub oov: bool,
    pub dic_form: String,
    pub reading: String,
}

pub fn tokenize(dict: &JapaneseDictionary, text: &str) -> Result<Vec<Tok>, String> {
    let r = catch(|| {
        let t = StatelessTokenizer::new(dict);
        let ms = t.tokenize(text, Mode::C, false).map_err(|e| format!("{:?}", e))?;
        let mut v = vec![];
        for m in ms.iter() {
            v.push(Tok {
                begin: m.begin(),
                end: m.end(),
                surface: m.surface().to_string(),
                norm: m.normalized_form().to_string(),
                pos: m.part_of_speech().to_vec(),
                oov: m.is_oov(),
                dic_form: m.dictionary_form().to_string(),
                reading: m.reading_form().to_string(),
            });
        }
        Ok::<_, String>(v)
    });
    match r {
        Ok(Ok(v)) => Ok(v),
        Ok(Err(e)) => Err(format!("Err({})", e)),
        Err(p) => Err(format!("Panic({})", p)),
    }
}


// ------------------------------------------------------------------------------------------------ field subsets / modes
/// (name, InfoSubset bits) the pipeline stream is repeated under.  What a numeral is joined into must not depend on
/// which word-info fields the caller asked for (sudachipy `fields=...`, pre-tokenizer projections, CLI).
pub const SUBSETS: [(&str, u32); 14] = [
    ("normalized_form", 1 << 3),
    ("normalized_form+reading_form", (1 << 3) | (1 << 5)),
    ("normalized_form+pos_id", (1 << 3) | (1 << 2)),
    ("normalized_form+surface", (1 << 3) | 1),
    ("normalized_form+dic_form", (1 << 3) | (1 << 4)),
    ("normalized_form+splits+synonyms", (1 << 3) | (1 << 6) | (1 << 7) | (1 << 9)),
    ("all_but_pos_id", 0x3ff & !(1 << 2)),
    ("all_but_head_word_length", 0x3ff & !(1 << 1)),
    ("surface", 1),
    ("pos_id", 1 << 2),
    ("reading_form", 1 << 5),
    ("dic_form", 1 << 4),
    ("empty", 0),
    ("surface+pos_id", 1 | (1 << 2)),
];

pub struct SubTok {
    pub begin: usize,
    pub end: usize,
    pub surface: String,
    /// Some(..) iff NORMALIZED_FORM was requested (only then the accessor is meaningful)
    pub norm: Option<String>,
}

/// analysis with a StatefulTokenizer restricted to a field subset, in a given mode
pub fn tokenize_subset(dict: &JapaneseDictionary, text: &str, mode: Mode, bits: u32) -> Result<Vec<SubTok>, String> {
    use sudachi::analysis::stateful_tokenizer::StatefulTokenizer;
    use sudachi::dic::subset::InfoSubset;
    let r = catch(|| {
        let mut tok = StatefulTokenizer::create(dict, false, mode);
        tok.set_subset(InfoSubset::from_bits_truncate(bits));
        tok.reset().push_str(text);
        tok.do_tokenize().map_err(|e| format!("{:?}", e))?;
        let ms = tok.into_morpheme_list().map_err(|e| format!("{:?}", e))?;
        let want_norm = bits & (1 << 3) != 0;
        let mut v = vec![];
        for m in ms.iter() {
            v.push(SubTok {
                begin: m.begin(),
                end: m.end(),
                surface: m.surface().to_string(),
                norm: if want_norm { Some(m.normalized_form().to_string()) } else { None },
            });
        }
        Ok::<_, String>(v)
    });
    match r {
        Ok(Ok(v)) => Ok(v),
        Ok(Err(e)) => Err(format!("Err({})", e)),
        Err(p) => Err(format!("Panic({})", p)),
    }
}

fn mode_name(m: Mode) -> &'static str {
    match m {
        Mode::A => "A",
        Mode::B => "B",
        Mode::C => "C",
    }
}

/// SURFACE | POS_ID | NORMALIZED_FORM (dic/subset.rs)
const SUBSET_PLUGIN_FIELDS: u32 = (1 << 0) | (1 << 2) | (1 << 3);

fn numeral_alphabet(c: char) -> bool {
    c.is_ascii_digit() || c == ',' || c == '.' || KANJI_DIGITS.contains(&c) || FULLWIDTH_DIGITS.contains(&c) || "十百千万億兆".contains(c)
}

/// the analysis of `text` restricted to a field subset must give the boundaries of the analysis with all fields in
/// the same mode, and the same normalised forms whenever NORMALIZED_FORM was requested; returns the first discrepancy
/// and the known-finding class it belongs to ("" = none).
/// Known class (KNOWN_FINDINGS.txt): NORMALIZED_FORM was NOT requested, both analyses tile the text, and every
/// boundary on which they differ lies strictly inside a run of numeral characters -- i.e. only the joining of
/// numerals differs.  Anything else (a subset with NORMALIZED_FORM, text lost, other tokens affected) is a violation.
pub fn subset_discrepancy(dict: &JapaneseDictionary, text: &str, mode: Mode, sub: (&str, u32)) -> Option<(String, &'static str)> {
    let full = match tokenize_subset(dict, text, mode, 0x3ff) {
        Ok(v) => v,
        Err(e) => return Some((format!("analysis with all fields (mode {}) failed: {}", mode_name(mode), e), "")),
    };
    let part = match tokenize_subset(dict, text, mode, sub.1) {
        Ok(v) => v,
        Err(e) => return Some((format!("analysis with fields {{{}}} (mode {}) failed: {}", sub.0, mode_name(mode), e), "")),
    };
    let show = |v: &Vec<SubTok>| v.iter().map(|t| match &t.norm { Some(n) => format!("{}/{}", t.surface, n), None => t.surface.clone() }).collect::<Vec<_>>().join(" | ");
    let b1: Vec<(usize, usize)> = full.iter().map(|t| (t.begin, t.end)).collect();
    let b2: Vec<(usize, usize)> = part.iter().map(|t| (t.begin, t.end)).collect();
    if b1 != b2 {
        let tiles = |v: &Vec<SubTok>| v.iter().map(|t| t.surface.as_str()).collect::<String>() == text && v.windows(2).all(|w| w[0].end == w[1].begin);
        let ends1: std::collections::BTreeSet<usize> = b1.iter().map(|x| x.1).collect();
        let ends2: std::collections::BTreeSet<usize> = b2.iter().map(|x| x.1).collect();
        let inside_numeral = |b: usize| {
            text.is_char_boundary(b)
                && text[..b].chars().last().map(numeral_alphabet).unwrap_or(false)
                && text[b..].chars().next().map(numeral_alphabet).unwrap_or(false)
        };
        // Identical boundaries are promised only when the subset contains the fields the path-rewrite plugins read
        // (surface, part of speech, normalised form: property C11); without them only the joining of numerals may differ,
        // and the surfaces must still partition the input.
        let promised = sub.1 & SUBSET_PLUGIN_FIELDS == SUBSET_PLUGIN_FIELDS;
        let only_numeral_joining = tiles(&full) && tiles(&part) && ends1.symmetric_difference(&ends2).all(|b| inside_numeral(*b));
        if !promised && only_numeral_joining {
            return None;
        }
        return Some((
            format!("mode {}: with fields {{{}}} the tokens are [{}], with all fields [{}]", mode_name(mode), sub.0, show(&part), show(&full)),
            "",
        ));
    }
    for (a, b) in full.iter().zip(part.iter()) {
        if b.norm.is_some() && a.norm != b.norm {
            return Some((format!("mode {}: with fields {{{}}} token {:?} has normalised form {:?}, with all fields {:?}", mode_name(mode), sub.0, b.surface, b.norm, a.norm), ""));
        }
        if a.surface != b.surface {
            return Some((format!("mode {}: with fields {{{}}} surface {:?} vs {:?}", mode_name(mode), sub.0, b.surface, a.surface), ""));
        }
    }
    None
}

// ------------------------------------------------------------------------------------------------ generators
#[derive(Clone, Copy, PartialEq)]
enum Style {
    Ascii,
    Kanji,
    Mixed,
}

fn digit(d: u32, st: Style, rng: &mut Rng) -> char {
    match st {
        Style::Ascii => char::from_digit(d, 10).unwrap(),
        Style::Kanji => KANJI_DIGITS[d as usize],
        Style::Mixed => {
            if rng.chance(1, 2) {
                char::from_digit(d, 10).unwrap()
            } else {
                KANJI_DIGITS[d as usize]
            }
        }
    }
}

fn style(rng: &mut Rng) -> Style {
    *rng.pick(&[Style::Ascii, Style::Ascii, Style::Kanji, Style::Mixed])
}

fn digits_str(ds: &[u32], st: Style, rng: &mut Rng) -> String {
    ds.iter().map(|d| digit(*d, st, rng)).collect()
}

fn rand_digits(n: usize, first_nonzero: bool, rng: &mut Rng) -> Vec<u32> {
    (0..n).map(|i| if i == 0 && first_nonzero { 1 + rng.below(9) as u32 } else { rng.below(10) as u32 }).collect()
}

fn ascii(ds: &[u32]) -> String {
    ds.iter().map(|d| char::from_digit(*d, 10).unwrap()).collect()
}

fn strip_frac(fp: &[u32]) -> String {
    let mut v = fp.to_vec();
    while v.last() == Some(&0) {
        v.pop();
    }
    if v.is_empty() {
        String::new()
    } else {
        format!(".{}", ascii(&v))
    }
}

fn rand_len(rng: &mut Rng) -> usize {
    match rng.below(10) {
        0 => 1,
        1..=5 => 1 + rng.below(8) as usize,
        6..=8 => 5 + rng.below(30) as usize,
        _ => 30 + rng.below(120) as usize,
    }
}

fn group3(ds: &[u32], st: Style, rng: &mut Rng) -> String {
    // first group 1..3 digits, then groups of three
    let n = ds.len();
    let mut s = String::new();
    for (i, d) in ds.iter().enumerate() {
        if i > 0 && (n - i) % 3 == 0 {
            s.push(',');
        }
        s.push(digit(*d, st, rng));
    }
    s
}

/// a group 1..9999 written with 千百十 (coefficient 一 optional), optionally with a positional tail
fn small_group(n: u32, st: Style, rng: &mut Rng) -> String {
    let ds = [n / 1000 % 10, n / 100 % 10, n / 10 % 10, n % 10];
    let cut = rng.below(4) as usize; // the lowest `cut` digits are written positionally
    let cut = if rng.chance(2, 3) { 0 } else { cut };
    let mut s = String::new();
    let mut any_unit = false;
    for (k, (exp, u)) in SMALL_UNITS.iter().enumerate() {
        if *exp < cut.max(1) {
            break;
        }
        let d = ds[k];
        if d > 0 {
            if d > 1 || rng.chance(1, 4) {
                s.push(digit(d, st, rng));
            }
            s.push(*u);
            any_unit = true;
        }
    }
    let tail_digits = cut.max(1);
    let tail: Vec<u32> = ds[4 - tail_digits..].to_vec();
    let tail_val: u32 = tail.iter().fold(0, |a, d| a * 10 + d);
    if tail_val > 0 || !any_unit {
        let pad = rng.chance(1, 2) && any_unit;
        let mut t = tail.clone();
        if !pad {
            while t.len() > 1 && t[0] == 0 {
                t.remove(0);
            }
        }
        s.push_str(&digits_str(&t, st, rng));
    }
    s
}

fn positional_group(n: u32, st: Style, rng: &mut Rng, allow_comma: bool) -> String {
    let ds: Vec<u32> = n.to_string().chars().map(|c| c.to_digit(10).unwrap()).collect();
    if allow_comma && ds.len() == 4 && rng.chance(1, 3) {
        group3(&ds, st, rng)
    } else {
        digits_str(&ds, st, rng)
    }
}

/// unit notation of v (0 < v < 10^16); returns text
fn unit_notation(v: u64, rng: &mut Rng, force_units: bool) -> String {
    let st = style(rng);
    let groups = [(v / 1_0000_0000_0000) % 10000, (v / 1_0000_0000) % 10000, (v / 10000) % 10000, v % 10000];
    let mut s = String::new();
    for (k, g) in groups.iter().enumerate() {
        if *g == 0 {
            continue;
        }
        let g = *g as u32;
        let positional = !force_units && rng.chance(1, 3);
        if positional || (k == 3 && v < 10000 && false) {
            s.push_str(&positional_group(g, st, rng, true));
        } else {
            s.push_str(&small_group(g, st, rng));
        }
        if k < 3 {
            s.push(LARGE_UNITS[k].1);
        }
    }
    s
}

fn has_unit(s: &str) -> bool {
    s.chars().any(|c| "十百千万億兆".contains(c))
}

pub struct Numeral {
    pub text: String,
    pub expected: String,
    pub tag: &'static str,
}

/// a well-formed numeral derived from a value, with the rendering of that value
pub fn gen_wellformed(rng: &mut Rng) -> Numeral {
    match rng.below(12) {
        0 | 1 => {
            let n = rand_len(rng);
            let ds = rand_digits(n, rng.chance(3, 4), rng);
            let st = style(rng);
            Numeral { text: digits_str(&ds, st, rng), expected: ascii(&ds), tag: "plain_digits" }
        }
        2 | 3 => {
            let n = rand_len(rng);
            let ds = rand_digits(n, true, rng);
            let st = style(rng);
            Numeral { text: group3(&ds, st, rng), expected: ascii(&ds), tag: "grouped" }
        }
        4 | 5 => {
            let n = rand_len(rng).min(40);
            let ip = rand_digits(n, rng.chance(3, 4), rng);
            let mut fp = rand_digits(1 + rng.below(8) as usize, false, rng);
            if rng.chance(1, 3) {
                let z = 1 + rng.below(3) as usize;
                fp.extend(std::iter::repeat(0).take(z));
            }
            if rng.chance(1, 10) {
                fp = vec![0; 1 + rng.below(3) as usize];
            }
            let st = style(rng);
            let grouped = ip[0] != 0 && rng.chance(1, 3);
            let ips = if grouped { group3(&ip, st, rng) } else { digits_str(&ip, st, rng) };
            Numeral {
                text: format!("{}.{}", ips, digits_str(&fp, st, rng)),
                expected: format!("{}{}", ascii(&ip), strip_frac(&fp)),
                tag: if grouped { "grouped_fraction" } else { "fraction" },
            }
        }
        6 | 7 | 8 => {
            // unit notation of a value below 10^16
            let v = loop {
                let mag = 1 + rng.below(16) as u32;
                let mut v = rng.next() % 10u64.pow(mag);
                if rng.chance(1, 3) {
                    // round values: many zero groups / digits
                    let z = rng.below(mag as u64) as u32;
                    v = v / 10u64.pow(z) * 10u64.pow(z);
                }
                if v > 0 {
                    break v;
                }
            };
            let mut t = unit_notation(v, rng, false);
            if !has_unit(&t) {
                t = unit_notation(v.max(10), rng, true);
                if !has_unit(&t) {
                    return Numeral { text: t.clone(), expected: ref_plain(&t).unwrap(), tag: "plain_digits" };
                }
                return Numeral { text: t, expected: v.max(10).to_string(), tag: "units" };
            }
            let last_is_digit = t.chars().last().map(|c| !"十百千万億兆".contains(c)).unwrap_or(false);
            if last_is_digit && rng.chance(1, 4) {
                let fp = rand_digits(1 + rng.below(4) as usize, false, rng);
                let st = style(rng);
                return Numeral { text: format!("{}.{}", t, digits_str(&fp, st, rng)), expected: format!("{}{}", v, strip_frac(&fp)), tag: "units_fraction" };
            }
            Numeral { text: t, expected: v.to_string(), tag: "units" }
        }
        9 | 10 => {
            // coefficient with a fraction times unit(s): 1.5千, 2.5億, 1.5百万
            let ip = rand_digits(1 + rng.below(3) as usize, true, rng);
            let fp = rand_digits(1 + rng.below(3) as usize, false, rng);
            let (s, l) = loop {
                let s = rng.below(4) as usize;
                let l = *rng.pick(&[0usize, 0, 4, 8, 12]);
                if s + l > 0 {
                    break (s, l);
                }
            };
            let st = style(rng);
            let mut t = format!("{}.{}", digits_str(&ip, st, rng), digits_str(&fp, st, rng));
            if s > 0 {
                t.push(SMALL_UNITS[3 - s].1);
            }
            if l > 0 {
                t.push(LARGE_UNITS.iter().find(|x| x.0 == l).unwrap().1);
            }
            let mut all = ip.clone();
            all.extend(fp.iter());
            let e = s + l;
            let expected = if e >= fp.len() {
                let mut d = all.clone();
                d.extend(std::iter::repeat(0).take(e - fp.len()));
                ascii(&d)
            } else {
                let cut = ip.len() + e;
                format!("{}{}", ascii(&all[..cut]), strip_frac(&all[cut..]))
            };
            Numeral { text: t, expected, tag: "fraction_times_unit" }
        }
        _ => {
            // long digit string times a large unit (values far beyond u64)
            let n = 1 + rng.below(60) as usize;
            let ds = rand_digits(n, true, rng);
            let (l, u) = *rng.pick(&LARGE_UNITS);
            let st = style(rng);
            let mut e = ds.clone();
            e.extend(std::iter::repeat(0).take(l));
            Numeral { text: format!("{}{}", digits_str(&ds, st, rng), u), expected: ascii(&e), tag: "digits_times_large_unit" }
        }
    }
}

pub struct Malformed {
    pub text: String,
    /// Some(e): the parser must reject with this error state; None: only "never a wrong value" is checked
    pub want_err: Option<u8>,
    pub tag: &'static str,
}

pub fn gen_malformed(rng: &mut Rng) -> Malformed {
    let st = style(rng);
    match rng.below(10) {
        0 | 1 | 2 => {
            // bad separator positions in an integer
            let n = 2 + rng.below(12) as usize;
            let ds = rand_digits(n, true, rng);
            let kind = rng.below(7);
            let t = match kind {
                0 => {
                    // some later group is not three digits long
                    let mut parts: Vec<String> = vec![];
                    let mut i = 1 + rng.below(3.min(n as u64 - 1)) as usize;
                    parts.push(digits_str(&ds[..i], st, rng));
                    let mut bad = false;
                    while i < n {
                        let mut g = if rng.chance(1, 2) { 3 } else { 1 + rng.below(5) as usize };
                        g = g.min(n - i);
                        if g != 3 {
                            bad = true;
                        }
                        parts.push(digits_str(&ds[i..i + g], st, rng));
                        i += g;
                    }
                    if !bad {
                        parts.push(digits_str(&[7, 7], st, rng));
                    }
                    parts.join(",")
                }
                1 => format!("{},{}", digits_str(&rand_digits(4 + rng.below(3) as usize, true, rng), st, rng), digits_str(&ds[..3.min(n)], st, rng)),
                2 => format!(",{}", group3(&ds, st, rng)),
                3 => format!("{},", group3(&ds, st, rng)),
                4 => format!("{},,{}", digit(ds[0], st, rng), digits_str(&[1, 2, 3], st, rng)),
                5 => format!("{},{}", digits_str(&vec![0; 1 + rng.below(3) as usize], st, rng), digits_str(&[1, 2, 3], st, rng)),
                _ => format!("{},{}", digits_str(&ds[..1], st, rng), digits_str(&rand_digits(4, false, rng), st, rng)),
            };
            Malformed { text: t, want_err: Some(2), tag: "bad_comma" }
        }
        3 | 4 => {
            let ds = rand_digits(1 + rng.below(6) as usize, true, rng);
            let fp = rand_digits(1 + rng.below(4) as usize, false, rng);
            let a = digits_str(&ds, st, rng);
            let f = digits_str(&fp, st, rng);
            let t = match rng.below(6) {
                0 => format!("{}.", a),
                1 => format!(".{}", f),
                2 => format!("{}..{}", a, f),
                3 => format!("{}.{}.{}", a, f, f),
                4 => ".".to_string(),
                _ => format!("{}万.{}", a, f),
            };
            Malformed { text: t, want_err: Some(1), tag: "bad_point" }
        }
        5 | 6 | 7 => {
            // units out of order or repeated: take a unit notation with at least two units of one kind and swap / duplicate
            for _ in 0..50 {
                let v = 1 + rng.next() % 10u64.pow(1 + rng.below(16) as u32);
                let t: Vec<char> = unit_notation(v, rng, true).chars().collect();
                let small: Vec<usize> = (0..t.len()).filter(|i| "十百千".contains(t[*i])).collect();
                let large: Vec<usize> = (0..t.len()).filter(|i| "万億兆".contains(t[*i])).collect();
                let mut u = t.clone();
                match rng.below(3) {
                    0 if large.len() >= 2 => {
                        let i = rng.below(large.len() as u64 - 1) as usize;
                        u.swap(large[i], large[i + 1]);
                    }
                    1 => {
                        // swap two neighbouring small units inside one group
                        let mut done = false;
                        for w in small.windows(2) {
                            if !t[w[0]..w[1]].iter().any(|c| "万億兆".contains(*c)) {
                                u.swap(w[0], w[1]);
                                done = true;
                                break;
                            }
                        }
                        if !done {
                            continue;
                        }
                    }
                    2 if !small.is_empty() || !large.is_empty() => {
                        let all: Vec<usize> = small.iter().chain(large.iter()).cloned().collect();
                        let i = *rng.pick(&all);
                        u.insert(i + 1, t[i]);
                    }
                    _ => continue,
                }
                return Malformed { text: u.into_iter().collect(), want_err: Some(0), tag: "units_out_of_order" };
            }
            Malformed { text: "億万".to_string(), want_err: Some(0), tag: "units_out_of_order" }
        }
        _ => {
            // random short string over the numeral alphabet
            let alpha: Vec<char> = "0123456789〇一二三五九十百千万億兆,.,.".chars().collect();
            let n = 1 + rng.below(9) as usize;
            let t: String = (0..n).map(|_| *rng.pick(&alpha)).collect();
            Malformed { text: t, want_err: None, tag: "random_alphabet" }
        }
    }
}

// ------------------------------------------------------------------------------------------------ reference evaluator
fn digit_val(c: char) -> Option<u32> {
    if let Some(d) = c.to_digit(10) {
        if c.is_ascii() {
            return Some(d);
        }
    }
    KANJI_DIGITS.iter().position(|k| *k == c).map(|p| p as u32)
}

fn unit_exp(c: char) -> Option<usize> {
    match c {
        '十' => Some(1),
        '百' => Some(2),
        '千' => Some(3),
        '万' => Some(4),
        '億' => Some(8),
        '兆' => Some(12),
        _ => None,
    }
}

/// plain digit strings with an optional fraction: leading zeros kept, trailing fractional zeros dropped
pub fn ref_plain(s: &str) -> Option<String> {
    let mut ip = vec![];
    let mut fp = vec![];
    let mut seen_point = false;
    for c in s.chars() {
        if c == '.' {
            if seen_point {
                return None;
            }
            seen_point = true;
        } else if let Some(d) = digit_val(c) {
            if seen_point {
                fp.push(d)
            } else {
                ip.push(d)
            }
        } else {
            return None;
        }
    }
    if ip.is_empty() || (seen_point && fp.is_empty()) {
        return None;
    }
    Some(format!("{}{}", ascii(&ip), strip_frac(&fp)))
}

const FRAC: u32 = 12;
pub enum RefVal {
    Value(String),
    IllFormed,
    Unsupported,
}

/// exact evaluation (fixed point, 12 fractional digits, u128) of the natural reading of a numeral with units
/// (sum of coefficient x small unit inside a group, group x large unit); separators already removed.
/// Deliberately lenient about well-formedness (order of units, a point without fractional digits): the oracle built on
/// it says "if this was joined, the value must be this one"; rejection of malformed strings is checked separately on
/// the directed malformed classes.  Rendering without leading zeros.
pub fn ref_units(s: &str) -> RefVal {
    let one = 10u128.pow(FRAC);
    let cs: Vec<char> = s.chars().collect();
    let mut i = 0;
    let (mut total, mut sub) = (0u128, 0u128);
    let mut pending: Option<u128> = None;
    let mut sub_any = false; // something was added to the current group
    while i < cs.len() {
        if let Some(e) = unit_exp(cs[i]) {
            if e < 4 {
                let c = pending.take().unwrap_or(one);
                match c.checked_mul(10u128.pow(e as u32)).and_then(|x| sub.checked_add(x)) {
                    Some(x) => sub = x,
                    None => return RefVal::Unsupported,
                }
                sub_any = true;
            } else {
                if pending.is_none() && !sub_any {
                    return RefVal::IllFormed; // a large unit needs something to multiply
                }
                let c = match sub.checked_add(pending.take().unwrap_or(0)) {
                    Some(c) => c,
                    None => return RefVal::Unsupported,
                };
                sub_any = false;
                match c.checked_mul(10u128.pow(e as u32)).and_then(|x| total.checked_add(x)) {
                    Some(x) => total = x,
                    None => return RefVal::Unsupported,
                }
                sub = 0;
            }
            i += 1;
            continue;
        }
        // a coefficient: digits with at most one point, digits on both sides
        let (mut ip, mut fp) = (vec![], vec![]);
        let mut seen_point = false;
        while i < cs.len() && unit_exp(cs[i]).is_none() {
            if cs[i] == '.' {
                if seen_point {
                    return RefVal::IllFormed;
                }
                seen_point = true;
            } else if let Some(d) = digit_val(cs[i]) {
                if seen_point {
                    fp.push(d)
                } else {
                    ip.push(d)
                }
            } else {
                return RefVal::IllFormed;
            }
            i += 1;
        }
        if ip.is_empty() || pending.is_some() {
            return RefVal::IllFormed;
        }
        if ip.len() > 22 || fp.len() > FRAC as usize {
            return RefVal::Unsupported;
        }
        let mut m = 0u128;
        for d in &ip {
            m = m * 10 + *d as u128;
        }
        let mut f = 0u128;
        for k in 0..FRAC as usize {
            f = f * 10 + *fp.get(k).unwrap_or(&0) as u128;
        }
        match m.checked_mul(one).and_then(|x| x.checked_add(f)) {
            Some(x) => pending = Some(x),
            None => return RefVal::Unsupported,
        }
    }
    let v = match total.checked_add(sub).and_then(|x| x.checked_add(pending.unwrap_or(0))) {
        Some(v) => v,
        None => return RefVal::Unsupported,
    };
    let ip = v / one;
    let fp: Vec<u32> = format!("{:012}", v % one).chars().map(|c| c.to_digit(10).unwrap()).collect();
    RefVal::Value(format!("{}{}", ip, strip_frac(&fp)))
}

fn strip_leading_zeros(s: &str) -> String {
    let t = s.trim_start_matches('0');
    if t.is_empty() || t.starts_with('.') {
        format!("0{}", t)
    } else {
        t.to_string()
    }
}

/// "never a wrong value": if a string over the numeral alphabet was accepted / joined with normalised form `norm`,
/// `norm` must be the value of the string with separators removed.  None = fine, Some(why) = wrong.
pub fn wrong_value(text: &str, norm: &str) -> Option<String> {
    let t: String = text.chars().filter(|c| *c != ',').collect();
    if !has_unit(&t) {
        return match ref_plain(&t) {
            Some(v) if v == norm => None,
            Some(v) => Some(format!("normalised form {:?} but the digits denote {:?}", norm, v)),
            None => Some(format!("ill-formed digit string was given the value {:?}", norm)),
        };
    }
    match ref_units(&t) {
        RefVal::Value(v) if strip_leading_zeros(norm) == v => None,
        RefVal::Value(v) => Some(format!("normalised form {:?} but the value is {:?}", norm, v)),
        RefVal::IllFormed => Some(format!("string with no reading as a number was given the value {:?}", norm)),
        RefVal::Unsupported => None,
    }
}

/// Directed, seed-independent: a big unit (兆 / 億 / 万) followed by a small group whose coefficient carries a FRACTION and
/// then a small unit, where the addends have leading / trailing zeros ("7兆九0.7十", "三億0.50千", "1万00.5百", "九0.7十").
/// These are the numerals on which StringNumber::add depends on int_length normalising its argument first (the scaled
/// coefficient has to be brought to "digits, point" form before its integer length is taken).  Accepted and rejected shapes
/// alike; nothing here is an expectation -- the expected value comes from the exact reference (ref_units) and the Coq model.
pub fn big_fraction_unit_numerals() -> Vec<String> {
    let bigs = ["", "7兆", "三億", "1万", "7兆三億", "二千万", "十億"];
    let coefs = ["九0.7", "0.50", "00.5", "9.5", "90.70", "九〇.七", "0.05", "10.0", "1.50", "100.25", "0.7", "〇.五〇", "2.50", "09.9"];
    let smalls = ["十", "百", "千"];
    let tails = ["", "三", "二十", "5"];
    let mut out = vec![];
    for (bi, b) in bigs.iter().enumerate() {
        for (ci, c) in coefs.iter().enumerate() {
            for (si, u) in smalls.iter().enumerate() {
                // all tails for the shapes of the report, a rotating one otherwise (keeps the group small)
                for (ti, t) in tails.iter().enumerate() {
                    if ci > 2 && ti != (bi + ci + si) % tails.len() {
                        continue;
                    }
                    out.push(format!("{}{}{}{}", b, c, u, t));
                }
            }
        }
        // the same coefficient in front of a BIG unit, and two fraction groups in a row
        for c in coefs.iter().take(6) {
            out.push(format!("{}{}万", b, c));
            out.push(format!("{}{}千{}百", b, c, c));
        }
    }
    out.sort();
    out.dedup();
    out
}

// ------------------------------------------------------------------------------------------------ cases
fn parse_case(sink: &mut Sink, text: &str, expected: Option<&str>, want_err: Option<u8>, tag: &str, verbose: bool) {
    let r = catch(|| verif_parse_numeral(text));
    let d = json!({"kind": "parse", "input": text, "expected": expected, "want_err": want_err, "tag": tag});
    let (ok, err, norm) = match r {
        Ok(x) => x,
        Err(p) => {
            let id = sink.case_rust_only(d, true);
            sink.fail(id, &format!("numeral parser panicked on {:?}: {}", text, p), "");
            return;
        }
    };
    if verbose {
        println!("implementation: verif_parse_numeral({:?}) = (accepted={}, error_state={}, normalized={:?})", text, ok, err, norm);
        println!("expected rendering: {:?}; required error state: {:?}", expected, want_err);
        println!("reference 'wrong value' verdict: {:?}", if ok { wrong_value(text, &norm) } else { None });
    }
    let term = match (expected, want_err) {
        (Some(e), _) => format!("check_wellformed {} {} {} {} {}", ctext(text), cbool(ok), cn(err), ctext(&norm), ctext(e)),
        (None, Some(w)) => format!("check_rejected {} {} {} {} {}", ctext(text), cbool(ok), cn(err), ctext(&norm), cn(w)),
        (None, None) => format!("check_parse {} {} {} {}", ctext(text), cbool(ok), cn(err), ctext(&norm)),
    };
    sink.tag(&format!("parser:{}", tag));
    let id = sink.case(term, d, text.chars().count() > 1);
    if let Some(e) = expected {
        if !ok {
            sink.fail(id, &format!("well-formed numeral {:?} (value {}) rejected by the parser, error state {}", text, e, err), "");
        } else if norm != e {
            sink.fail(id, &format!("numeral {:?}: normalised form {:?}, decimal rendering of its value is {:?}", text, norm, e), "");
        }
    } else if let Some(w) = want_err {
        if ok {
            sink.fail(id, &format!("malformed numeral {:?} accepted with value {:?}", text, norm), "");
        } else if err != w {
            sink.fail(id, &format!("malformed numeral {:?}: error state {} (expected {})", text, err, w), "");
        }
    }
    if ok {
        if let Some(why) = wrong_value(text, &norm) {
            if expected.is_none() || expected == Some(norm.as_str()) {
                sink.fail(id, &format!("{:?} accepted: {}", text, why), "");
            }
        }
    }
}

/// NFKC of the characters the generators use (full-width digits only)
fn to_ascii_digits(s: &str) -> String {
    s.chars().map(|c| FULLWIDTH_DIGITS.iter().position(|f| *f == c).map(|p| char::from_digit(p as u32, 10).unwrap()).unwrap_or(c)).collect()
}

fn pipeline_case(sink: &mut Sink, dict: &JapaneseDictionary, pre: &str, num: &str, post: &str, expected: Option<&str>, must_not_join: bool, tag: &str, verbose: bool) {
    let text = format!("{}{}{}", pre, num, post);
    let d = json!({"kind": "pipeline", "pre": pre, "num": num, "post": post, "expected": expected, "must_not_join": must_not_join, "tag": tag,
                   "enableNormalize": if key_absent() { "absent" } else { "true" }});
    let toks = match tokenize(dict, &text) {
        Ok(t) => t,
        Err(e) => {
            let id = sink.case_rust_only(d, true);
            sink.fail(id, &format!("analysis of {:?} failed: {}", text, e), "");
            return;
        }
    };
    if verbose {
        for t in &toks {
            println!("implementation token {}..{} surface={:?} normalized={:?} pos={:?}", t.begin, t.end, t.surface, t.norm, t.pos);
        }
    }
    let (b, e) = (pre.len(), pre.len() + num.len());
    let inside: Vec<&Tok> = toks.iter().filter(|t| t.begin >= b && t.end <= e).collect();
    let covered: usize = inside.iter().map(|t| t.end - t.begin).sum();
    sink.tag(&format!("pipeline:{}{}", tag, if key_absent() { "/enableNormalize_absent" } else { "" }));
    // Coq side: every token inside the numeral is either an untouched dictionary token (normalised form = surface after
    // NFKC) or its normalised form is what the model parser computes for its surface; for a well-formed numeral there is
    // exactly one token and its normalised form is the expected rendering
    let pieces = clist(inside.iter().map(|t| cpair(&ctext(&to_ascii_digits(&t.surface)), &ctext(&t.norm))));
    let term = match expected {
        Some(x) => format!("check_joined {} {} {}", ctext(&to_ascii_digits(num)), pieces, ctext(x)),
        None => format!("check_pieces {}", pieces),
    };
    let id = sink.case(term, d, inside.len() != num.chars().count());
    if covered != num.len() {
        sink.fail(id, &format!("{:?}: numeral {:?} is not covered by whole tokens (a token crosses its edge)", text, num), "");
        return;
    }
    if let Some(x) = expected {
        if inside.len() != 1 {
            sink.fail(id, &format!("{:?}: well-formed numeral {:?} (value {}) was not joined into one token: {:?}", text, num, x, inside.iter().map(|t| t.surface.clone()).collect::<Vec<_>>()), "");
        } else if inside[0].norm != x {
            sink.fail(id, &format!("{:?}: numeral {:?} normalised to {:?}, decimal rendering of its value is {:?}", text, num, inside[0].norm, x), "");
        } else if inside[0].pos.get(1).map(|s| s.as_str()) != Some("数詞") {
            sink.fail(id, &format!("{:?}: joined numeral has part of speech {:?}", text, inside[0].pos), "");
        }
        return;
    }
    if must_not_join && inside.len() == 1 && num.chars().count() > 1 {
        sink.fail(id, &format!("{:?}: malformed numeral {:?} joined into one token with value {:?}", text, num, inside[0].norm), "");
    }
    for t in &inside {
        let s = to_ascii_digits(&t.surface);
        if t.norm == s {
            continue; // untouched dictionary token
        }
        if let Some(why) = wrong_value(&s, &t.norm) {
            sink.fail(id, &format!("{:?}: piece {:?}: {}", text, t.surface, why), "");
        }
    }
}


/// the pipeline case repeated with a restricted field subset and a mode: same boundaries as with all fields, same
/// normalised forms when they were requested, and -- for a well-formed numeral with NORMALIZED_FORM requested -- one token
/// whose normalised form is the expected rendering (checked directly, not only relative to the all-fields run)
fn subset_case(sink: &mut Sink, dict: &JapaneseDictionary, pre: &str, num: &str, post: &str, expected: Option<&str>, sub: (&str, u32), mode: Mode, tag: &str, verbose: bool) {
    let text = format!("{}{}{}", pre, num, post);
    let d = json!({"kind": "subset", "pre": pre, "num": num, "post": post, "expected": expected, "subset": sub.0, "bits": sub.1, "mode": mode_name(mode), "tag": tag});
    sink.tag(&format!("fields:{}", sub.0));
    sink.tag(&format!("fields_mode:{}", mode_name(mode)));
    let id = sink.case_rust_only(d, sub.1 != 0x3ff);
    if verbose {
        for bits in [0x3ff, sub.1] {
            match tokenize_subset(dict, &text, mode, bits) {
                Ok(v) => println!("fields {:#x} mode {}: {}", bits, mode_name(mode), v.iter().map(|t| format!("{}..{} {:?} norm={:?}", t.begin, t.end, t.surface, t.norm)).collect::<Vec<_>>().join(" | ")),
                Err(e) => println!("fields {:#x} mode {}: {}", bits, mode_name(mode), e),
            }
        }
    }
    if let Some((why, class)) = subset_discrepancy(dict, &text, mode, sub) {
        sink.fail(id, &format!("{:?}: {}", text, why), class);
        return;
    }
    if let (Some(x), true) = (expected, sub.1 & (1 << 3) != 0) {
        if let Ok(toks) = tokenize_subset(dict, &text, mode, sub.1) {
            let (b, e) = (pre.len(), pre.len() + num.len());
            let inside: Vec<&SubTok> = toks.iter().filter(|t| t.begin >= b && t.end <= e).collect();
            if inside.len() != 1 || inside[0].begin != b || inside[0].end != e {
                sink.fail(id, &format!("{:?} with fields {{{}}} mode {}: well-formed numeral {:?} (value {}) was not joined into one token: {:?}", text, sub.0, mode_name(mode), num, x, inside.iter().map(|t| t.surface.clone()).collect::<Vec<_>>()), "");
            } else if inside[0].norm.as_deref() != Some(x) {
                sink.fail(id, &format!("{:?} with fields {{{}}} mode {}: numeral {:?} normalised to {:?}, decimal rendering of its value is {:?}", text, sub.0, mode_name(mode), num, inside[0].norm, x), "");
            }
        }
    }
}

fn parse_mode(s: &str) -> Mode {
    match s {
        "A" => Mode::A,
        "B" => Mode::B,
        _ => Mode::C,
    }
}


// ------------------------------------------------------------------------------------------------ canonical writings
// Rust twin of coq/Model/NumericCanon.v: the Coq side REBUILDS the string from the value (check_canon) and from the two
// groups (check_two_units) and compares it with the string built here, so the two definitions cannot drift apart.
type Grp = [u32; 4];

fn grp_of(m: u64) -> Grp {
    [((m / 1000) % 10) as u32, ((m / 100) % 10) as u32, ((m / 10) % 10) as u32, (m % 10) as u32]
}

fn sdig(g: &Grp) -> Vec<u32> {
    let mut v: Vec<u32> = g.to_vec();
    while !v.is_empty() && v[0] == 0 {
        v.remove(0);
    }
    v
}

fn cdigit(arabic: bool, d: u32) -> char {
    if arabic {
        char::from_digit(d, 10).unwrap()
    } else {
        KANJI_DIGITS[d as usize]
    }
}

/// style bits of one group: bit 0 = 一千, bit 1 = 一百, bit 2 = 一十, bit 3 = Arabic coefficient digits
fn kanji_group_text(st: u32, g: &Grp) -> String {
    let arabic = st & 8 != 0;
    let mut s = String::new();
    for (k, u) in ['千', '百', '十'].iter().enumerate() {
        let x = g[k];
        if x == 0 {
            continue;
        }
        if !(x == 1 && st & (1 << k) == 0) {
            s.push(cdigit(arabic, x));
        }
        s.push(*u);
    }
    if g[3] != 0 {
        s.push(cdigit(arabic, g[3]));
    }
    s
}

fn arabic_group_text(g: &Grp) -> String {
    sdig(g).iter().map(|d| char::from_digit(*d, 10).unwrap()).collect()
}

fn group_text(arabic_group: bool, st: u32, g: &Grp) -> String {
    if arabic_group {
        arabic_group_text(g)
    } else {
        kanji_group_text(st, g)
    }
}

/// canon_of (kinds_of kinds) (styles_of styles) n
fn canon_text(kinds: u32, styles: u32, n: u64) -> String {
    let gs = [grp_of(n / 1_0000_0000_0000), grp_of(n / 1_0000_0000), grp_of(n / 1_0000), grp_of(n)];
    let units = ['兆', '億', '万'];
    let mut s = String::new();
    for (k, g) in gs.iter().enumerate() {
        let i = 3 - k; // group position: 3 = 兆 ... 0 = ones
        if sdig(g).is_empty() {
            continue;
        }
        s.push_str(&group_text(kinds & (1 << i) != 0, (styles >> (4 * i)) & 15, g));
        if i > 0 {
            s.push(units[k]);
        }
    }
    s
}

fn groom(g: &Grp) -> usize {
    if g[3] != 0 {
        0
    } else if g[2] != 0 {
        1
    } else if g[1] != 0 {
        2
    } else {
        3
    }
}

fn uchar(e: usize) -> char {
    match e {
        4 => '万',
        8 => '億',
        _ => '兆',
    }
}

fn coq_grp(g: &Grp) -> String {
    format!("({}, {}, {}, {})", cn(g[0]), cn(g[1]), cn(g[2]), cn(g[3]))
}

fn canon_case(sink: &mut Sink, kinds: u32, styles: u32, n: u64, verbose: bool) {
    let text = canon_text(kinds, styles, n);
    let d = json!({"kind": "canon", "kinds": kinds, "styles": styles, "n": n, "input": text});
    let (ok, err, norm) = match catch(|| verif_parse_numeral(&text)) {
        Ok(x) => x,
        Err(p) => {
            let id = sink.case_rust_only(d, true);
            sink.fail(id, &format!("numeral parser panicked on {:?}: {}", text, p), "");
            return;
        }
    };
    if verbose {
        println!("canonical writing of {} (kinds {:#x}, styles {:#x}): {:?}", n, kinds, styles, text);
        println!("implementation: (accepted={}, error_state={}, normalized={:?})", ok, err, norm);
    }
    sink.tag("parser:canonical_writing_of_value");
    let term = format!("check_canon {} {} {} {} {} {} {}", cn(kinds), cn(styles), cn(n), ctext(&text), cbool(ok), cn(err), ctext(&norm));
    let id = sink.case(term, d, text.chars().count() > 1);
    if !ok {
        sink.fail(id, &format!("canonical writing {:?} of {} rejected by the parser (error state {})", text, n, err), "");
    } else if norm != n.to_string() {
        sink.fail(id, &format!("canonical writing {:?} of {} normalised to {:?}", text, n, norm), "");
    }
}

#[allow(clippy::too_many_arguments)]
fn two_unit_case(sink: &mut Sink, ar1: bool, st1: u32, ar2: bool, st2: u32, g1: Grp, e1: usize, g2: Grp, e2: usize, verbose: bool) {
    let text = format!("{}{}{}{}", group_text(ar1, st1, &g1), uchar(e1), group_text(ar2, st2, &g2), uchar(e2));
    let d = json!({"kind": "two_units", "ar1": ar1, "st1": st1, "ar2": ar2, "st2": st2, "g1": g1, "e1": e1, "g2": g2, "e2": e2, "input": text});
    let (ok, err, norm) = match catch(|| verif_parse_numeral(&text)) {
        Ok(x) => x,
        Err(p) => {
            let id = sink.case_rust_only(d, true);
            sink.fail(id, &format!("numeral parser panicked on {:?}: {}", text, p), "");
            return;
        }
    };
    let room1 = if ar1 { 0 } else { groom(&g1) };
    let fits = sdig(&g2).len() + e2 <= room1 + e1;
    if verbose {
        println!("two-unit numeral {:?}: fits = {}; implementation: (accepted={}, error_state={}, normalized={:?})", text, fits, ok, err, norm);
    }
    sink.tag(if e1 > e2 { "parser:two_units_descending" } else if e1 == e2 { "parser:two_units_repeated" } else { "parser:two_units_increasing" });
    let term = format!(
        "check_two_units {} {} {} {} {} {}%nat {} {}%nat {} {} {} {}",
        cbool(ar1), cn(st1), cbool(ar2), cn(st2), coq_grp(&g1), e1, coq_grp(&g2), e2, ctext(&text), cbool(ok), cn(err), ctext(&norm)
    );
    let id = sink.case(term, d, true);
    if ok != fits {
        sink.fail(id, &format!("{:?}: accepted = {}, but the digits of the second group plus its unit {} the room of the first (C15_unit_order_behaviour)", text, ok, if fits { "fit into" } else { "do not fit into" }), "");
    } else if ok {
        // the value must be the sum of the two parts
        let v = |g: &Grp, e: usize| (g[0] as u128 * 1000 + g[1] as u128 * 100 + g[2] as u128 * 10 + g[3] as u128) * 10u128.pow(e as u32);
        let sum = v(&g1, e1) + v(&g2, e2);
        if norm != sum.to_string() {
            sink.fail(id, &format!("{:?} joined into {:?}; the sum of its parts is {}", text, norm, sum), "");
        }
    } else if err != 0 {
        sink.fail(id, &format!("{:?} rejected with error state {} (expected NONE)", text, err), "");
    }
}

fn rand_value16(rng: &mut Rng) -> u64 {
    loop {
        let mag = 1 + rng.below(16) as u32;
        let mut v = rng.next() % 10u64.pow(mag);
        if rng.chance(1, 3) {
            let z = rng.below(mag as u64) as u32;
            v = v / 10u64.pow(z) * 10u64.pow(z);
        }
        if rng.chance(1, 4) {
            // digits 0 and 1 only: many omitted-one and skipped slots
            let mut w = 0u64;
            for _ in 0..mag {
                w = w * 10 + rng.below(2);
            }
            v = w;
        }
        if v > 0 {
            return v;
        }
    }
}

fn rand_group(rng: &mut Rng) -> Grp {
    loop {
        let g: Grp = [rng.below(10) as u32, rng.below(10) as u32, rng.below(10) as u32, rng.below(10) as u32];
        let g: Grp = if rng.chance(1, 2) { [if rng.chance(1, 2) { 0 } else { g[0] }, if rng.chance(1, 2) { 0 } else { g[1] }, if rng.chance(1, 2) { 0 } else { g[2] }, if rng.chance(1, 2) { 0 } else { g[3] }] } else { g };
        if g.iter().any(|d| *d != 0) {
            return g;
        }
    }
}


// ------------------------------------------------------------------------------------------------ several numerals in one sentence
#[derive(Clone, Debug)]
enum Seg {
    Word(String),
    /// numeral generated from a value, with the rendering of the value
    Good(String, String),
    /// malformed grouping / stray separators
    Bad(String),
}

const SENT_WORDS: [&str; 9] = ["と", "円", "に", "京都", "東京都に", "アイウ", "円と", "四半期", "一人"];
const STRAY: [&str; 12] = [",", ".", ",,", "1,2,", "1.2.", "12,", "3.", "1,23,", ".,", "0,0,", "一,二,", "1,2.3."];

fn gen_sentence(rng: &mut Rng) -> Vec<Seg> {
    let mut v = vec![];
    if rng.chance(1, 2) {
        v.push(Seg::Word(rng.pick(&SENT_WORDS[..]).to_string()));
    }
    let n = 2 + rng.below(3) as usize;
    for k in 0..n {
        // state carried along the sentence: malformed groupings and stray separators BEFORE well-formed numerals
        let bad = if k + 1 == n { rng.chance(1, 6) } else { rng.chance(1, 2) };
        if bad {
            let t = if rng.chance(2, 3) { rng.pick(&STRAY[..]).to_string() } else { gen_malformed(rng).text.chars().take(10).collect() };
            if t.contains("六三四") {
                continue;
            }
            v.push(Seg::Bad(t));
        } else {
            let w = gen_wellformed(rng);
            if w.text.contains("六三四") || w.text.chars().count() > 24 {
                continue;
            }
            v.push(Seg::Good(w.text, w.expected));
        }
        v.push(Seg::Word(rng.pick(&SENT_WORDS[..]).to_string()));
    }
    v
}

fn seg_json(v: &[Seg]) -> Value {
    Value::Array(v.iter().map(|s| match s {
        Seg::Word(w) => json!(["w", w]),
        Seg::Good(t, e) => json!(["n", t, e]),
        Seg::Bad(t) => json!(["b", t]),
    }).collect())
}

fn seg_from_json(v: &Value) -> Vec<Seg> {
    v.as_array().unwrap().iter().map(|x| match x[0].as_str().unwrap() {
        "w" => Seg::Word(x[1].as_str().unwrap().to_string()),
        "n" => Seg::Good(x[1].as_str().unwrap().to_string(), x[2].as_str().unwrap().to_string()),
        _ => Seg::Bad(x[1].as_str().unwrap().to_string()),
    }).collect()
}

/// one sentence with several numerals: every well-formed numeral is one token with the rendering of its value, whatever
/// stood before it in the sentence; malformed parts are left as pieces
fn sentence_case(sink: &mut Sink, dict: &JapaneseDictionary, segs: &[Seg], fullwidth: bool, rng: &mut Rng, verbose: bool) {
    let mut text = String::new();
    let mut spans = vec![]; // (byte begin, byte end, segment index)
    for (k, s) in segs.iter().enumerate() {
        let t = match s {
            Seg::Word(w) => w.clone(),
            Seg::Good(t, _) | Seg::Bad(t) => {
                if fullwidth {
                    fullwidth_some(t, rng).chars().map(|c| if c == ',' && rng.chance(1, 2) { '，' } else if c == '.' && rng.chance(1, 2) { '．' } else { c }).collect()
                } else {
                    t.clone()
                }
            }
        };
        spans.push((text.len(), text.len() + t.len(), k));
        text.push_str(&t);
    }
    let d = json!({"kind": "sentence", "segments": seg_json(segs), "text": text});
    let toks = match tokenize(dict, &text) {
        Ok(t) => t,
        Err(e) => {
            let id = sink.case_rust_only(d, true);
            sink.fail(id, &format!("analysis of {:?} failed: {}", text, e), "");
            return;
        }
    };
    if verbose {
        for t in &toks {
            println!("implementation token {}..{} surface={:?} normalized={:?}", t.begin, t.end, t.surface, t.norm);
        }
    }
    sink.tag("pipeline:sentence_with_several_numerals");
    let ascii = |s: &str| to_ascii_digits(s).replace('，', ",").replace('．', ".");
    let mut terms = vec![];
    let mut fails = vec![];
    for (b, e, k) in &spans {
        let inside: Vec<&Tok> = toks.iter().filter(|t| t.begin >= *b && t.end <= *e).collect();
        let covered: usize = inside.iter().map(|t| t.end - t.begin).sum();
        let pieces = clist(inside.iter().map(|t| cpair(&ctext(&ascii(&t.surface)), &ctext(&t.norm))));
        match &segs[*k] {
            Seg::Word(_) => {}
            Seg::Good(t, x) => {
                terms.push(format!("check_joined {} {} {}", ctext(t), pieces, ctext(x)));
                if covered != e - b || inside.len() != 1 {
                    fails.push(format!("well-formed numeral {:?} (value {}) was not joined into one token: {:?}", t, x, inside.iter().map(|t| t.surface.clone()).collect::<Vec<_>>()));
                } else if inside[0].norm != *x {
                    fails.push(format!("numeral {:?} normalised to {:?}, decimal rendering of its value is {:?}", t, inside[0].norm, x));
                }
            }
            Seg::Bad(_) => {
                terms.push(format!("check_pieces {}", pieces));
                if covered != e - b {
                    fails.push(format!("a token crosses the edge of {:?}", &text[*b..*e]));
                }
                for t in &inside {
                    let s = ascii(&t.surface);
                    if t.norm != s {
                        if let Some(why) = wrong_value(&s, &t.norm) {
                            fails.push(format!("piece {:?}: {}", t.surface, why));
                        }
                    }
                }
            }
        }
    }
    let term = if terms.is_empty() { "true".to_string() } else { terms.iter().map(|t| format!("({})", t)).collect::<Vec<_>>().join(" && ") };
    let id = sink.case(term, d, segs.iter().filter(|s| !matches!(s, Seg::Word(_))).count() > 1);
    for f in fails {
        sink.fail(id, &format!("{:?}: {}", text, f), "");
    }
    // every numeric segment also analysed on its own (the whole text is that segment)
    if !fullwidth {
        for s in segs {
            match s {
                Seg::Good(t, x) => pipeline_case(sink, dict, "", t, "", Some(x), false, "segment_alone", false),
                Seg::Bad(t) => pipeline_case(sink, dict, "", t, "", None, false, "segment_alone", false),
                Seg::Word(_) => {}
            }
        }
    }
}


// ------------------------------------------------------------------------------------------------ whole texts of 0 / 1 / 2 tokens
/// a text analysed with the numeral plugin and without any path-rewrite plugin must give the same tokens when it contains
/// nothing the plugin may touch (here: a single token that is not a numeral, or the empty text)
fn unchanged_case(sink: &mut Sink, with: &JapaneseDictionary, without: &JapaneseDictionary, text: &str, verbose: bool) {
    let d = json!({"kind": "unchanged", "text": text});
    sink.tag("pipeline:not_a_numeral_alone");
    let id = sink.case_rust_only(d, false);
    match (tokenize(with, text), tokenize(without, text)) {
        (Ok(a), Ok(b)) => {
            if verbose {
                println!("with the numeral plugin   : {:?}", a);
                println!("without path-rewrite plugins: {:?}", b);
            }
            let view = |v: &Vec<Tok>| v.iter().map(|t| (t.begin, t.end, t.surface.clone(), t.norm.clone(), t.pos.clone(), t.dic_form.clone(), t.reading.clone(), t.oov)).collect::<Vec<_>>();
            if view(&a) != view(&b) {
                sink.fail(id, &format!("{:?} is not a numeral, yet the numeral plugin changes its analysis: {:?} vs {:?}", text, view(&a), view(&b)), "");
            }
        }
        (a, b) => {
            if a.is_err() != b.is_err() {
                sink.fail(id, &format!("{:?}: with plugin {:?}, without {:?}", text, a.err(), b.err()), "");
            }
        }
    }
}

/// a numeral that is the WHOLE text (path of one node, or of a few), bare and with blanks around it, in every mode
fn alone_cases(sink: &mut Sink, dict: &JapaneseDictionary, num: &str, expected: &str, tag: &str) {
    for (pre, post) in [("", ""), (" ", ""), ("", " "), (" ", " ")] {
        pipeline_case(sink, dict, pre, num, post, Some(expected), false, tag, false);
        for mode in [Mode::A, Mode::B, Mode::C] {
            subset_case(sink, dict, pre, num, post, Some(expected), ("all", 0x3ff), mode, tag, false);
        }
    }
    subset_case(sink, dict, "", num, "", Some(expected), ("normalized_form", 1 << 3), Mode::C, tag, false);
}

fn fullwidth_some(s: &str, rng: &mut Rng) -> String {
    s.chars().map(|c| if c.is_ascii_digit() && rng.chance(1, 2) { FULLWIDTH_DIGITS[c.to_digit(10).unwrap() as usize] } else { c }).collect()
}

const DIRECTED_OK: [(&str, &str); 30] = [
    ("1000", "1000"), ("001000", "001000"), ("〇一〇〇〇", "01000"), ("00.1000", "00.1"), ("000", "000"), ("二十七", "27"),
    ("千三百二十七", "1327"), ("千十七", "1017"), ("千三百二十七.〇五", "1327.05"), ("1万", "10000"), ("千三百二十七万", "13270000"),
    ("千三百二十七万一四", "13270014"), ("千三百二十七万一四.〇五", "13270014.05"), ("三兆2千億千三百二十七万一四.〇五", "3200013270014.05"),
    ("1.5千", "1500"), ("1.5百万", "1500000"), ("1.5百万1.5千20", "1501520"), ("200000000000000000000万", "2000000000000000000000000"),
    ("2,000,000", "2000000"), ("259万2,300", "2592300"), ("1,000.5", "1000.5"), ("0", "0"), ("〇", "0"), ("0.0", "0"), ("十", "10"),
    ("一千", "1000"), ("九千九百九十九兆九千九百九十九億九千九百九十九万九千九百九十九", "9999999999999999"), ("1.55十", "15.5"), ("3万5000", "35000"), ("1千05", "1005"),
];
const DIRECTED_BAD: [(&str, u8); 16] = [
    ("三百二十百", 0), ("億万", 0), ("1.5千5百", 0), ("1.5千500", 0), ("200,00,000", 2), ("2,4", 2), ("000,000", 2), (",", 2), ("1.", 1), ("1,000.", 1),
    (".5", 1), ("1..5", 1), ("万", 0), ("十十", 0), ("1,2345", 2), ("1234,567", 2),
];

pub fn numeric_dict(work: &Path) -> JapaneseDictionary {
    let dic = compile_system(EXTRA_ROWS);
    let res = resource_dir(work, "res_c15", "resources/char.def");
    load_dict(&dic, &res, json!([{"class": "com.worksap.nlp.sudachi.JoinNumericPlugin", "enableNormalize": true}]))
}

/// the same dictionary, JoinNumericPlugin configured WITHOUT the key enableNormalize: the documented default is true, so
/// everything expected of `numeric_dict` is expected of this one
pub fn numeric_dict_absent(work: &Path) -> JapaneseDictionary {
    let dic = compile_system(EXTRA_ROWS);
    let res = resource_dir(work, "res_c15", "resources/char.def");
    load_dict(&dic, &res, json!([{"class": "com.worksap.nlp.sudachi.JoinNumericPlugin"}]))
}
/// set while the cases run on `numeric_dict_absent` (recorded in the case descriptions, read back by --replay)
static KEY_ABSENT: std::sync::atomic::AtomicBool = std::sync::atomic::AtomicBool::new(false);
fn key_absent() -> bool {
    KEY_ABSENT.load(std::sync::atomic::Ordering::Relaxed)
}

/// the same dictionary without any path-rewrite plugin
pub fn plain_dict(work: &Path) -> JapaneseDictionary {
    let dic = compile_system(EXTRA_ROWS);
    let res = resource_dir(work, "res_c15", "resources/char.def");
    load_dict(&dic, &res, json!([]))
}

pub fn run(args: &Args) {
    let mut sink = Sink::new("C15", &args.out, &["Model.Numeric", "Model.NumericCanon"], args.seed, &args.tier);
    sink.rule("(a) numeral parser via verif_parse_numeral vs Coq model: numerals generated FROM A VALUE (plain Arabic/kanji/mixed digits up to 150 digits, comma groups, fractions with trailing zeros, unit notation 十..兆 below 10^16 with optional/positional coefficients, fraction x unit, long digit string x large unit) with the expected rendering; near-miss malformed strings (bad comma groups, dangling/double points, swapped or repeated units) with the required error state; random strings over the numeral alphabet checked against an exact fixed-point reference ('never a wrong value'); (a') canonical writings of values 0 < n < 10^16 exactly as defined in Model/NumericCanon.v (per group kanji units with written / omitted 一 and kanji / Arabic coefficients, or Arabic digits + large unit): the Coq term rebuilds the string from the value; (a'') two non-zero groups with arbitrary large units (descending, repeated, increasing): accepted iff C15_unit_order_behaviour says so, value = sum; (b') sentences with several numerals: malformed groupings and stray separators before well-formed numerals, every well-formed numeral must be joined with the rendering of its value whatever preceded it; dictionary words that begin with a numeral character (四半期, 一人, 千葉, 万年筆 ...) directly after numerals; (b'') the numeral IS the whole text (paths of one node: single digits, kanji digits, 十 百 千; of a few nodes), bare and between blanks, modes A/B/C; sentence segments on their own; one-token texts that are not numerals and the empty text must be analysed as without the plugin; (a+) DIRECTED whatever the seed: big unit (兆 億 万) + small group whose coefficient has a fraction and leading / trailing zeros + small unit (7兆九0.7十, 三億0.50千, 1万00.5百, 九0.7十 ..., accepted and rejected), through the parser (model = implementation, value = exact reference), through the analysis and through the command-line tool; (b) the same numerals embedded in text and analysed with a dictionary tagging digits/units as numerals and JoinNumericPlugin: one token, normalised form = rendering; malformed: pieces only; (c) the pipeline cases repeated with a StatefulTokenizer restricted to 14 word-info field subsets (with / without NORMALIZED_FORM, POS_ID, SURFACE, ...) in modes A/B/C: same boundaries as with all fields, same normalised forms when requested, well-formed numeral = one token with the expected rendering.  (d) the `sudachi` command-line tool in its default mode (every line through the sentence splitter, then the tokenizer) and with -a: numerals generated from values with ASCII / full-width / mixed-width digits, full-width separators and points, alone on a line and inside sentences, directed ones first (３．１４, １，２３４．５０, ...): ONE token, normalised-form column = rendering of the value.  non-trivial = more than one character (parser) / at least one merge (pipeline)");
    if let Some(p) = &args.replay {
        let v: Value = serde_json::from_str(&std::fs::read_to_string(p).unwrap()).unwrap();
        let c = &v["case"];
        let want = c["want_err"].as_u64().map(|x| x as u8);
        if c["kind"] == "cli" {
            let line = CliLine { pre: c["pre"].as_str().unwrap().into(), num: c["num"].as_str().unwrap().into(), post: c["post"].as_str().unwrap().into(),
                                 expected: c["expected"].as_str().unwrap().into(), tag: "replay" };
            let flags: Vec<String> = c["flags"].as_array().map(|a| a.iter().map(|x| x.as_str().unwrap().to_string()).collect()).unwrap_or_default();
            KEY_ABSENT.store(c["enableNormalize"] == "absent", std::sync::atomic::Ordering::Relaxed);
            cli_run(&mut sink, args, &[line], &flags, true);
            sink.finish();
            return;
        }
        if c["kind"] == "unchanged" {
            let dict = numeric_dict(&args.work);
            let plain = plain_dict(&args.work);
            unchanged_case(&mut sink, &dict, &plain, c["text"].as_str().unwrap(), true);
            sink.finish();
            return;
        }
        if c["kind"] == "sentence" {
            let dict = numeric_dict(&args.work);
            let mut r = Rng::new(args.seed);
            sentence_case(&mut sink, &dict, &seg_from_json(&c["segments"]), false, &mut r, true);
            sink.finish();
            return;
        }
        if c["kind"] == "canon" {
            canon_case(&mut sink, c["kinds"].as_u64().unwrap() as u32, c["styles"].as_u64().unwrap() as u32, c["n"].as_u64().unwrap(), true);
            sink.finish();
            return;
        }
        if c["kind"] == "two_units" {
            let g = |v: &Value| -> Grp { [v[0].as_u64().unwrap() as u32, v[1].as_u64().unwrap() as u32, v[2].as_u64().unwrap() as u32, v[3].as_u64().unwrap() as u32] };
            two_unit_case(&mut sink, c["ar1"].as_bool().unwrap(), c["st1"].as_u64().unwrap() as u32, c["ar2"].as_bool().unwrap(), c["st2"].as_u64().unwrap() as u32,
                          g(&c["g1"]), c["e1"].as_u64().unwrap() as usize, g(&c["g2"]), c["e2"].as_u64().unwrap() as usize, true);
            sink.finish();
            return;
        }
        if c["kind"] == "subset" {
            let dict = numeric_dict(&args.work);
            let name = c["subset"].as_str().unwrap().to_string();
            subset_case(&mut sink, &dict, c["pre"].as_str().unwrap(), c["num"].as_str().unwrap(), c["post"].as_str().unwrap(), c["expected"].as_str(),
                        (name.as_str(), c["bits"].as_u64().unwrap() as u32), parse_mode(c["mode"].as_str().unwrap_or("C")), "replay", true);
            sink.finish();
            return;
        }
        if c["kind"] == "parse" {
            parse_case(&mut sink, c["input"].as_str().unwrap(), c["expected"].as_str(), want, "replay", true);
        } else {
            let absent = c["enableNormalize"] == "absent";
            KEY_ABSENT.store(absent, std::sync::atomic::Ordering::Relaxed);
            let dict = if absent { numeric_dict_absent(&args.work) } else { numeric_dict(&args.work) };
            pipeline_case(&mut sink, &dict, c["pre"].as_str().unwrap(), c["num"].as_str().unwrap(), c["post"].as_str().unwrap(), c["expected"].as_str(),
                          c["must_not_join"].as_bool().unwrap_or(false), "replay", true);
        }
        sink.finish();
        return;
    }
    let mut rng = Rng::new(args.seed);
    // corpus / directed first
    for (t, e) in DIRECTED_OK.iter() {
        parse_case(&mut sink, t, Some(e), None, "directed_ok", false);
    }
    for (t, e) in DIRECTED_BAD.iter() {
        parse_case(&mut sink, t, None, Some(*e), "directed_bad", false);
    }
    // directed, whatever the seed: big unit + small group with a fraction and a small unit, addends with leading / trailing zeros
    let bfu = big_fraction_unit_numerals();
    for t in bfu.iter() {
        parse_case(&mut sink, t, None, None, "directed_big_fraction_unit", false);
    }
    // structured mostly-valid stream
    for _ in 0..args.n(900, 20000) {
        let n = gen_wellformed(&mut rng);
        parse_case(&mut sink, &n.text, Some(&n.expected), None, n.tag, false);
    }
    // canonical writings of values (exactly Model/NumericCanon.v: check_canon rebuilds the string from the value)
    for (kinds, styles, n) in [(0u32, 0u32, 3200013270014u64), (15, 0, 3200013270014), (0, 0xffff, 1111111111111111), (0, 0, 1111111111111111),
                               (5, 0x8888, 9999999999999999), (0, 0, 1), (0, 0, 10), (0, 0x7, 10), (0, 0, 10000), (0, 0, 100000000), (0, 0, 1000000000000), (10, 0x0f0f, 1001000100100011)] {
        canon_case(&mut sink, kinds, styles, n, false);
    }
    for _ in 0..args.n(450, 10000) {
        let n = rand_value16(&mut rng);
        let kinds = if rng.chance(1, 2) { 0 } else if rng.chance(1, 3) { 15 } else { rng.below(16) as u32 };
        let styles = if rng.chance(1, 3) { 0 } else { rng.below(65536) as u32 };
        canon_case(&mut sink, kinds, styles, n, false);
    }
    // two groups with arbitrary large units: descending, repeated, increasing (C15_unit_order_behaviour)
    for (ar1, st1, ar2, st2, g1, e1, g2, e2) in [(false, 0u32, true, 0u32, [0u32, 1, 0, 0], 4usize, [0u32, 0, 0, 3], 4usize), (false, 0, false, 0, [1, 0, 0, 0], 4, [0, 5, 0, 0], 4),
                                                 (true, 0, true, 0, [0, 0, 0, 1], 4, [0, 0, 0, 2], 4), (true, 0, true, 0, [0, 0, 0, 1], 4, [0, 0, 0, 2], 8),
                                                 (false, 0, false, 0, [0, 0, 2, 0], 4, [0, 0, 0, 5], 4), (false, 0, false, 0, [0, 0, 2, 0], 4, [0, 0, 5, 0], 4)] {
        two_unit_case(&mut sink, ar1, st1, ar2, st2, g1, e1, g2, e2, false);
    }
    for _ in 0..args.n(350, 8000) {
        let (g1, g2) = (rand_group(&mut rng), rand_group(&mut rng));
        let e1 = *rng.pick(&[4usize, 8, 12][..]);
        let e2 = if rng.chance(1, 2) { e1 } else { *rng.pick(&[4usize, 8, 12][..]) };
        two_unit_case(&mut sink, rng.chance(1, 3), rng.below(16) as u32, rng.chance(1, 2), rng.below(16) as u32, g1, e1, g2, e2, false);
    }
    // malformed stream
    for _ in 0..args.n(500, 10000) {
        let m = gen_malformed(&mut rng);
        parse_case(&mut sink, &m.text, None, m.want_err, m.tag, false);
    }
    // pipeline level
    let dict = numeric_dict(&args.work);
    let pres = ["", "京都", "に", "東京都に", "コーヒー", "1円", "12,345円と"];
    let posts = ["", "に", "円", "京都", "カップ", "四半期", "一人", "千葉", "十分", "三角形", "九州", "万年筆", "百貨店", "〇印", "一人に", "四半期と"];
    for (t, e) in DIRECTED_OK.iter() {
        pipeline_case(&mut sink, &dict, "京都", t, "円", Some(e), false, "directed_ok", false);
        for (k, sub) in SUBSETS.iter().enumerate() {
            subset_case(&mut sink, &dict, "東京都に", t, "円", Some(e), *sub, [Mode::C, Mode::A, Mode::B][k % 3], "directed_ok", false);
        }
    }
    for (t, _) in DIRECTED_BAD.iter() {
        pipeline_case(&mut sink, &dict, "", t, "円", None, true, "directed_bad", false);
    }
    // the directed big-unit / fraction / small-unit numerals through the analysis: every joined piece must carry the value the
    // exact reference gives its surface (those the parser accepts: ONE token with that value)
    for (k, t) in bfu.iter().enumerate() {
        let (pre, post) = [("東京都に", "に"), ("", "円"), ("京都", ""), ("", "")][k % 4];
        // (a rendering with leading zeros -- "0.7百5" is "075" -- is the parser's convention for digit strings: such pieces are
        // compared with the reference value modulo leading zeros by the piece oracle instead)
        let exp = match (catch(|| verif_parse_numeral(t)), ref_units(t)) {
            (Ok((true, _, norm)), RefVal::Value(v)) if norm == v => Some(v),
            _ => None,
        };
        pipeline_case(&mut sink, &dict, pre, t, post, exp.as_deref(), false, "directed_big_fraction_unit", false);
    }
    // the same with the key enableNormalize ABSENT from the plugin's settings (third value next to true / false): directed
    // numerals first, then numerals generated from values
    {
        let absent = numeric_dict_absent(&args.work);
        KEY_ABSENT.store(true, std::sync::atomic::Ordering::Relaxed);
        for (t, e) in DIRECTED_OK.iter() {
            pipeline_case(&mut sink, &absent, "京都", t, "円", Some(e), false, "directed_ok", false);
        }
        for _ in 0..args.n(120, 2000) {
            let n = gen_wellformed(&mut rng);
            if n.text.contains("六三四") || n.text.chars().count() > 200 {
                continue;
            }
            let pre = *rng.pick(&pres);
            let post = *rng.pick(&posts);
            pipeline_case(&mut sink, &absent, pre, &n.text, post, Some(&n.expected), false, n.tag, false);
        }
        KEY_ABSENT.store(false, std::sync::atomic::Ordering::Relaxed);
    }
    // minimised past failure (fixed in the repository): malformed in itself AND a trailing separator
    for t in ["十55,", "9十五522二三.", "十55.", "百1234,"] {
        for post in ["", "円"] {
            pipeline_case(&mut sink, &dict, "", t, post, None, true, "corpus_malformed_plus_trailing_separator", false);
        }
    }
    for _ in 0..args.n(350, 6000) {
        let n = gen_wellformed(&mut rng);
        if n.text.contains("六三四") || n.text.chars().count() > 200 {
            sink.tag("pipeline:skipped_shadowed_or_long");
            continue;
        }
        let text = if rng.chance(1, 5) { fullwidth_some(&n.text, &mut rng) } else { n.text.clone() };
        let pre = *rng.pick(&pres);
        let post = *rng.pick(&posts);
        pipeline_case(&mut sink, &dict, pre, &text, post, Some(&n.expected), false, n.tag, false);
        let sub = *rng.pick(&SUBSETS[..]);
        let mode = *rng.pick(&[Mode::A, Mode::B, Mode::C][..]);
        subset_case(&mut sink, &dict, pre, &text, post, Some(&n.expected), sub, mode, n.tag, false);
    }
    // the numeral IS the text: paths of one node (a single digit / kanji digit / unit) and of a few nodes, bare and between
    // blanks, in every mode; expected form from the value (kanji_of of the values below 10, the units, small values)
    for d in 0..10u32 {
        alone_cases(&mut sink, &dict, &KANJI_DIGITS[d as usize].to_string(), &d.to_string(), "alone_one_node");
        alone_cases(&mut sink, &dict, &d.to_string(), &d.to_string(), "alone_one_node");
    }
    for (t, e) in [("十", "10"), ("百", "100"), ("千", "1000")] {
        alone_cases(&mut sink, &dict, t, e, "alone_one_node");
    }
    for n in [10u64, 11, 20, 2000, 2024, 10000, 100000000, 35000, 1000000000000] {
        alone_cases(&mut sink, &dict, &canon_text(0, 0, n), &n.to_string(), "alone_few_nodes");
        alone_cases(&mut sink, &dict, &canon_text(15, 0, n), &n.to_string(), "alone_few_nodes");
    }
    for _ in 0..args.n(60, 1500) {
        let n = 1 + rng.next() % 10u64.pow(1 + rng.below(5) as u32);
        let (kinds, styles) = (rng.below(16) as u32, rng.below(65536) as u32);
        alone_cases(&mut sink, &dict, &canon_text(kinds, styles, n), &n.to_string(), "alone_few_nodes");
    }
    // ... and the other way round: a text that is one token and NOT a numeral (or empty, or two such tokens) is untouched
    let plain = plain_dict(&args.work);
    for t in ["", "京都", "に", "アイウ", "円", "四半期", "一人", "千葉", "万年筆", "万", "億", "兆", ",", ".", " ", "a", "と", "京都に", "に円", "万円", ",と", "四半期に", "東京都"] {
        unchanged_case(&mut sink, &dict, &plain, t, false);
    }
    // several numerals in one sentence (state of the joining loop carried along the sentence)
    for segs in [
        vec![Seg::Bad("1,2,".into()), Seg::Word("と".into()), Seg::Good("1,000".into(), "1000".into()), Seg::Word("円".into())],
        vec![Seg::Bad("1.2.".into()), Seg::Word("と".into()), Seg::Good("三.五〇".into(), "3.5".into()), Seg::Word("円".into())],
        vec![Seg::Word("京都".into()), Seg::Bad(",".into()), Seg::Word("と".into()), Seg::Good("1,234,567".into(), "1234567".into()), Seg::Word("円".into())],
        vec![Seg::Good("12".into(), "12".into()), Seg::Word("円と".into()), Seg::Bad(".".into()), Seg::Word("に".into()), Seg::Good("2万5,000.5".into(), "25000.5".into()), Seg::Word("円".into())],
        vec![Seg::Good("第".into(), "第".into())].into_iter().filter(|_| false).collect(),
        vec![Seg::Good("二".into(), "2".into()), Seg::Word("四半期".into())],
        vec![Seg::Good("二十".into(), "20".into()), Seg::Word("一人".into())],
        vec![Seg::Good("2万5千".into(), "25000".into()), Seg::Word("四半期".into()), Seg::Good("3".into(), "3".into()), Seg::Word("千葉".into())],
    ] {
        if !segs.is_empty() {
            sentence_case(&mut sink, &dict, &segs, false, &mut rng, false);
        }
    }
    for k in 0..args.n(400, 8000) {
        let segs = gen_sentence(&mut rng);
        sentence_case(&mut sink, &dict, &segs, k % 4 == 3, &mut rng, false);
    }
    for _ in 0..args.n(250, 4000) {
        let m = gen_malformed(&mut rng);
        if m.text.contains("六三四") {
            continue;
        }
        let pre = *rng.pick(&pres);
        let post = *rng.pick(&posts);
        pipeline_case(&mut sink, &dict, pre, &m.text, post, None, m.want_err.is_some(), m.tag, false);
        let sub = *rng.pick(&SUBSETS[..]);
        let mode = *rng.pick(&[Mode::A, Mode::B, Mode::C][..]);
        subset_case(&mut sink, &dict, pre, &m.text, post, None, sub, mode, m.tag, false);
    }
    cli_section(&mut sink, &mut rng, args);
    sink.finish();
}

// ------------------------------------------------------------------------------------------------ the command-line tool
// The `sudachi` tool in its default mode is a public route to the same analysis: every input line first goes through the
// sentence splitter, then every sentence through the tokenizer with the configured plugins.  A well-formed numeral must
// come out as ONE token whose normalised-form column is the decimal rendering of its value on this route too -- with ASCII
// or full-width digits, separators and points, alone on a line and inside a sentence.

struct CliLine {
    pre: String,
    num: String,
    post: String,
    expected: String,
    tag: &'static str,
}

/// ASCII digits (and, when `seps`, the separators) of a numeral in their full-width forms
fn fullwidth_all(s: &str, seps: bool) -> String {
    s.chars()
        .map(|c| match c {
            '0'..='9' => FULLWIDTH_DIGITS[c.to_digit(10).unwrap() as usize],
            '.' if seps => '．',
            ',' if seps => '，',
            _ => c,
        })
        .collect()
}

const CLI_DIRECTED: [(&str, &str, &str, &str); 22] = [
    ("", "3.14", "", "3.14"), ("", "３．１４", "", "3.14"), ("", "３.１４", "", "3.14"), ("", "3．１４", "", "3.14"), ("", "３．14", "", "3.14"),
    ("", "１，２３４．５０", "", "1234.5"), ("", "1,234.50", "", "1234.5"), ("", "０．０５", "", "0.05"), ("", "１２３", "", "123"), ("", "１，０００", "", "1000"),
    ("京都に", "３．１４", "円", "3.14"), ("京都に", "１，２３４．５０", "円と", "1234.5"), ("", "３．１４", "円に京都", "3.14"), ("東京都に", "２万５，０００．５", "円", "25000.5"),
    ("", "三.五〇", "", "3.5"), ("", "三．五〇", "円", "3.5"), ("京都", "１．５千", "円", "1500"), ("", "９９９．９９９", "", "999.999"), ("に", "０．５", "と", "0.5"),
    ("", "2,000,000", "円", "2000000"), ("", "２，０００，０００", "円", "2000000"), ("京都に", "1.5", "", "1.5"),
];

fn cli_setup(args: &Args, absent: bool) -> Result<(String, PathBuf, PathBuf), String> {
    let cli = std::env::var("VERIF_CLI_BIN").unwrap_or_default();
    if cli.is_empty() || !Path::new(&cli).exists() {
        return Err("the command-line tool is not available (pre_build step py_cli did not run; VERIF_CLI_BIN)".into());
    }
    let dir = args.work.join("c15cli");
    std::fs::create_dir_all(&dir).map_err(|e| e.to_string())?;
    let res = resource_dir(&args.work, "res_c15", "resources/char.def");
    std::fs::write(dir.join("system.dic"), compile_system(EXTRA_ROWS)).map_err(|e| e.to_string())?;
    let cfg = json!({
        "systemDict": dir.join("system.dic").to_string_lossy(),
        "characterDefinitionFile": "char.def",
        "inputTextPlugin": [{"class": "com.worksap.nlp.sudachi.DefaultInputTextPlugin"}],
        "oovProviderPlugin": [{"class": "com.worksap.nlp.sudachi.SimpleOovPlugin",
                               "oovPOS": ["名詞", "普通名詞", "一般", "*", "*", "*"], "leftId": 8, "rightId": 8, "cost": 6000}],
        "pathRewritePlugin": [if absent { json!({"class": "com.worksap.nlp.sudachi.JoinNumericPlugin"}) }
                              else { json!({"class": "com.worksap.nlp.sudachi.JoinNumericPlugin", "enableNormalize": true}) }],
    });
    let cfgp = dir.join(if absent { "sudachi-default.json" } else { "sudachi.json" });
    std::fs::write(&cfgp, serde_json::to_string_pretty(&cfg).unwrap()).map_err(|e| e.to_string())?;
    Ok((cli, cfgp, res))
}

/// one run of the tool over a file with one case per line
fn cli_run(sink: &mut Sink, args: &Args, lines: &[CliLine], flags: &[String], verbose: bool) {
    let absent = key_absent();
    let desc = |l: &CliLine| json!({"kind": "cli", "pre": l.pre, "num": l.num, "post": l.post, "expected": l.expected, "flags": flags, "tag": l.tag,
                                    "enableNormalize": if absent { "absent" } else { "true" }});
    let (cli, cfgp, res) = match cli_setup(args, absent) {
        Ok(x) => x,
        Err(e) => {
            let id = sink.case_rust_only(json!({"kind": "cli", "pre": "", "num": "", "post": "", "expected": "", "flags": flags}), false);
            sink.fail(id, &e, "");
            return;
        }
    };
    let file = args.work.join("c15cli").join(format!("input-{}.txt", std::process::id()));
    let mut content = String::new();
    for l in lines {
        content.push_str(&format!("{}{}{}\n", l.pre, l.num, l.post));
    }
    std::fs::write(&file, content).unwrap();
    let out = std::process::Command::new(&cli).arg("-r").arg(&cfgp).arg("-p").arg(&res).args(flags).arg(&file).output();
    let _ = std::fs::remove_file(&file);
    let stdout = match out {
        Ok(o) if o.status.success() => String::from_utf8_lossy(&o.stdout).to_string(),
        Ok(o) => {
            let id = sink.case_rust_only(desc(&lines[0]), true);
            sink.fail(id, &format!("the tool exited with {:?}: {}", o.status.code(), String::from_utf8_lossy(&o.stderr).chars().take(300).collect::<String>()), "");
            return;
        }
        Err(e) => {
            let id = sink.case_rust_only(desc(&lines[0]), true);
            sink.fail(id, &format!("cannot run {}: {}", cli, e), "");
            return;
        }
    };
    if verbose {
        println!("tool output:\n{}", stdout);
    }
    // (surface, part of speech, normalised form) of every printed morpheme, EOS lines dropped
    let mut toks: std::collections::VecDeque<(String, String, String)> = std::collections::VecDeque::new();
    for l in stdout.split_terminator('\n') {
        if l == "EOS" {
            continue;
        }
        let cols: Vec<&str> = l.split('\t').collect();
        if cols.len() >= 3 {
            toks.push_back((cols[0].to_string(), cols[1].to_string(), cols[2].to_string()));
        }
    }
    for l in lines {
        let text = format!("{}{}{}", l.pre, l.num, l.post);
        let id = sink.case_rust_only(desc(l), l.num.chars().count() > 1);
        sink.tag(&format!("cli:{}", l.tag));
        // the morphemes of this line: consume until their surfaces spell the line
        let mut mine: Vec<(usize, String, String, String)> = vec![];
        let mut at = 0usize;
        while at < text.len() {
            match toks.pop_front() {
                Some((sf, pos, norm)) if text[at..].starts_with(&sf) && !sf.is_empty() => {
                    mine.push((at, sf.clone(), pos, norm));
                    at += sf.len();
                }
                other => {
                    sink.fail(id, &format!("{:?}: the tool's output does not spell the line (next morpheme {:?} at byte {})", text, other, at), "");
                    return;
                }
            }
        }
        let (b, e) = (l.pre.len(), l.pre.len() + l.num.len());
        let inside: Vec<&(usize, String, String, String)> = mine.iter().filter(|t| t.0 >= b && t.0 + t.1.len() <= e).collect();
        if inside.len() != 1 || inside[0].0 != b || inside[0].1.len() != l.num.len() {
            sink.fail(
                id,
                &format!("command-line tool {:?}, line {:?}: well-formed numeral {:?} (value {}) is not ONE token: {:?}", flags, text, l.num, l.expected, mine.iter().map(|t| (t.1.clone(), t.3.clone())).collect::<Vec<_>>()),
                "",
            );
        } else if inside[0].3 != l.expected {
            sink.fail(id, &format!("command-line tool {:?}, line {:?}: numeral {:?} has normalised form {:?}, the decimal rendering of its value is {:?}", flags, text, l.num, inside[0].3, l.expected), "");
        } else if !inside[0].2.contains("数詞") {
            sink.fail(id, &format!("command-line tool, line {:?}: joined numeral has part of speech {:?}", text, inside[0].2), "");
        }
    }
}

fn cli_section(sink: &mut Sink, rng: &mut Rng, args: &Args) {
    let mut lines: Vec<CliLine> = CLI_DIRECTED.iter().map(|(a, b, c, d)| CliLine { pre: a.to_string(), num: b.to_string(), post: c.to_string(), expected: d.to_string(), tag: "directed" }).collect();
    // directed big unit + fraction + small unit numerals the parser accepts: one token whose normalised form is the value the
    // exact reference gives (every fourth with full-width digits and point)
    for (k, t) in big_fraction_unit_numerals().iter().enumerate().filter(|(k, _)| k % 3 == 0) {
        if let (Ok((true, _, norm)), RefVal::Value(v)) = (catch(|| verif_parse_numeral(t)), ref_units(t)) {
            if strip_leading_zeros(&norm) != norm {
                continue; // rendering with leading zeros: see the analysis route
            }
            let num = if k % 4 == 0 { fullwidth_all(t, true) } else { t.clone() };
            let (pre, post) = [("東京都に", "に"), ("", ""), ("", "円")][k % 3];
            lines.push(CliLine { pre: pre.into(), num, post: post.into(), expected: v, tag: "directed_big_fraction_unit" });
        }
    }
    let pres = ["", "京都", "に", "東京都に", "コーヒー"];
    let posts = ["", "に", "円", "京都", "円と", "カップ"];
    for k in 0..args.n(240, 4000) {
        let n = gen_wellformed(rng);
        if n.text.contains("六三四") || n.text.chars().count() > 60 {
            continue;
        }
        // numerals generated from a value, written with ASCII digits, with full-width digits, with full-width separators too
        let (num, tag) = match k % 4 {
            0 => (n.text.clone(), "as_generated"),
            1 => (fullwidth_all(&n.text, false), "fullwidth_digits"),
            2 => (fullwidth_all(&n.text, true), "fullwidth_digits_and_separators"),
            _ => (fullwidth_some(&n.text, rng), "mixed_width_digits"),
        };
        let (pre, post) = if k % 3 == 0 { ("", "") } else { (*rng.pick(&pres), *rng.pick(&posts)) };
        lines.push(CliLine { pre: pre.into(), num, post: post.into(), expected: n.expected.clone(), tag });
    }
    // default mode (sentence splitting on), three columns; and -a
    cli_run(sink, args, &lines, &[], false);
    let some: Vec<CliLine> = lines.into_iter().step_by(3).collect();
    cli_run(sink, args, &some, &["-a".to_string()], false);
    // ... and with a settings file whose JoinNumericPlugin entry has no enableNormalize key
    KEY_ABSENT.store(true, std::sync::atomic::Ordering::Relaxed);
    cli_run(sink, args, &some, &[], false);
    KEY_ABSENT.store(false, std::sync::atomic::Ordering::Relaxed);
}
