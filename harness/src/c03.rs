//! C03 — tokenization is total: never panics, succeeds within the documented limits.
use crate::common::*;
use crate::dictutil::*;
use serde_json::{json, Value};
use sudachi::dic::subset::InfoSubset;
use sudachi::analysis::mlist::MorphemeList;
use sudachi::analysis::stateful_tokenizer::StatefulTokenizer;
use sudachi::analysis::Mode;
use sudachi::dic::dictionary::JapaneseDictionary;
use sudachi::error::SudachiError;

const MAX_LENGTH: usize = 49149;

fn configs() -> Vec<(&'static str, Value)> {
    let pos = json!(["名詞", "普通名詞", "一般", "*", "*", "*"]);
    let simple = json!({"class": "com.worksap.nlp.sudachi.SimpleOovPlugin", "oovPOS": pos, "leftId": 8, "rightId": 8, "cost": 6000});
    let numeric = json!({"class": "com.worksap.nlp.sudachi.JoinNumericPlugin", "enableNormalize": true});
    let katakana = json!({"class": "com.worksap.nlp.sudachi.JoinKatakanaOovPlugin", "oovPOS": pos, "minLength": 3});
    let default_in = json!({"class": "com.worksap.nlp.sudachi.DefaultInputTextPlugin"});
    let psm = json!({"class": "com.worksap.nlp.sudachi.ProlongedSoundMarkPlugin", "prolongedSoundMarks": ["ー", "-", "⁓", "〜", "〰"], "replacementSymbol": "ー"});
    let yomi = json!({"class": "com.worksap.nlp.sudachi.IgnoreYomiganaPlugin", "leftBrackets": ["(", "（"], "rightBrackets": [")", "）"], "maxYomiganaLength": 4});
    let mecab = json!({"class": "com.worksap.nlp.sudachi.MeCabOovPlugin", "charDef": "char.def", "unkDef": "unk.def", "userPOS": "allow"});
    let regex = |re: &str, cost: i64| json!({"class": "com.worksap.nlp.sudachi.RegexOovProvider", "oovPOS": ["名詞", "普通名詞", "REGEX", "*", "*", "*"], "leftId": 5, "rightId": 5, "cost": cost, "userPOS": "allow", "regex": re, "maxLength": 400});
    vec![
        ("tests", json!({"characterDefinitionFile": "char.def", "inputTextPlugin": [default_in], "oovProviderPlugin": [simple], "pathRewritePlugin": [numeric, katakana]})),
        ("full", json!({"characterDefinitionFile": "char.def", "inputTextPlugin": [default_in, psm, yomi],
                        "oovProviderPlugin": [mecab, regex("[-a-zA-Z0-9]+", -32000), simple], "pathRewritePlugin": [numeric, katakana]})),
        ("regex-empty-match", json!({"characterDefinitionFile": "char.def", "inputTextPlugin": [default_in],
                        "oovProviderPlugin": [regex("x*", 100), regex("(?:)", 5), simple]})),
        // the only way from the first unknown symbol to the second crosses an inhibited (cost i16::MAX) connection: still a path
        ("inhibited", json!({"characterDefinitionFile": "char.def", "inputTextPlugin": [default_in], "oovProviderPlugin": [simple],
                        "connectionCostPlugin": [{"class": "com.worksap.nlp.sudachi.InhibitConnectionPlugin", "inhibitPair": [[8, 8], [0, 8], [8, 0]]}]})),
        ("cost-extremes", json!({"characterDefinitionFile": "char.def", "inputTextPlugin": [default_in],
                        "oovProviderPlugin": [{"class": "com.worksap.nlp.sudachi.SimpleOovPlugin", "oovPOS": pos, "leftId": 0, "rightId": 9, "cost": 32767},
                                              {"class": "com.worksap.nlp.sudachi.SimpleOovPlugin", "oovPOS": pos, "leftId": 9, "rightId": 0, "cost": -32768}]})),
    ]
}

fn unk_def() -> &'static str {
    "DEFAULT,5,5,3857,補助記号,一般,*,*,*,*\nSPACE,6,6,6056,空白,*,*,*,*,*\nKANJI,7,7,14657,名詞,普通名詞,一般,*,*,*\nKANJI,1,1,17308,名詞,普通名詞,サ変可能,*,*,*\nSYMBOL,2,2,17094,名詞,普通名詞,サ変可能,*,*,*\nNUMERIC,3,3,12450,名詞,数詞,*,*,*,*\nALPHA,4,4,11633,名詞,普通名詞,一般,*,*,*\nHIRAGANA,8,8,16012,名詞,普通名詞,一般,*,*,*\nKATAKANA,9,9,9461,名詞,普通名詞,一般,*,*,*\nKANJINUMERIC,3,3,11354,名詞,数詞,*,*,*,*\nGREEK,4,4,11633,名詞,普通名詞,一般,*,*,*\nCYRILLIC,4,4,11633,名詞,普通名詞,一般,*,*,*\n"
}

fn nasty() -> Vec<String> {
    let mut v: Vec<String> = vec![
        "", "\0", "\0\0a\0", "\u{1}\u{7f}\u{80}\u{9f}", "\u{378}\u{e000}\u{10ffff}\u{fffe}", "e\u{301}\u{301}\u{301}京", "👍🏻京", "👨\u{200d}👩\u{200d}👧\u{200d}👦", "\u{200d}\u{200d}\u{200d}",
        "\u{3099}\u{309a}か\u{3099}", "ｶﾞｷﾞｸﾞ", "㍿㌔㌘", "\u{fdfa}", "\u{fdfa}\u{fdfa}\u{fdfa}", "ﷺ東京都", "ーーーー", "-----ー〜〜", "東京(とうきょう)都", "漢字（かんじ）（かんじ）", "(((())))", "）（",
        "1,000.50", "一億二千万", "1.", ".1", "1,,2", "千千", "000", "xxxx", "x", "京都xx京都", "東京都に行った。", "ＡＢＣ１２３", "İstanbul", "ǅ", "ß", "ſ", " ", "\t\n\r", "　", "a b  c",
        "\u{10000}\u{10001}", "𠮷野家", "\u{e0100}", "葛\u{e0100}城", "\u{feff}abc", "\u{202e}abc", "\u{1f1ef}\u{1f1f5}", "アイウエオカキクケコ", "ｱｲｳ", "特a", "な。な",
    ]
    .into_iter()
    .map(|s| s.to_string())
    .collect();
    // combining run longer than 64, class run longer than 64
    v.push(format!("a{}", "\u{301}".repeat(70)));
    v.push("ア".repeat(70));
    v.push("1".repeat(70));
    v.push(format!("{}京", "\u{200d}".repeat(66)));
    v
}

fn long_inputs() -> Vec<(String, String)> {
    let mut v = vec![];
    for (name, unit) in [("ascii", "a"), ("hiragana", "あ"), ("kanji-word", "東京都"), ("fdfa-18x", "\u{fdfa}"), ("halfwidth", "ｶﾞ"), ("astral", "𠮷"), ("digits", "1"), ("mark", "ー")] {
        let ub = unit.len();
        for target in [MAX_LENGTH - 2 * ub, MAX_LENGTH, MAX_LENGTH + 1, 65535, 65536 + 3] {
            let n = target / ub;
            let mut s = unit.repeat(n);
            while s.len() < target && target <= MAX_LENGTH {
                s.push('a');
            }
            v.push((format!("{}x{} ({} bytes)", name, n, s.len()), s));
        }
    }
    v
}

fn rand_text(rng: &mut Rng) -> String {
    let pool = ["東京", "京都", "に", "行っ", "た", "。", "ア", "ー", "1", "2", ",", ".", "a", "Z", " ", "(", ")", "か", "\u{3099}", "\u{301}", "\u{200d}", "👍", "🏻", "ｶ", "ﾞ", "㍿", "\0", "\u{fdfa}", "x", "千", "万", "〇", "-", "〜", "高輪ゲートウェイ", "特", "な", "いく", "いっ"];
    let n = rng.below(12) + 1;
    let mut s = String::new();
    for _ in 0..n {
        if rng.chance(1, 12) {
            if let Some(c) = char::from_u32(rng.below(0x11_0000) as u32) {
                s.push(c);
            }
        } else {
            s.push_str(*rng.pick(&pool[..]));
        }
    }
    s
}

/// a headword of 130 characters (strings of 128 and more UTF-16 units carry a two-byte length in the binary dictionary)
/// the longest headword of the test lexicon (300 digits)
fn long_numeral() -> String {
    let lex = std::fs::read_to_string(format!("{}/sudachi/tests/resources/lex.csv", repo())).unwrap_or_default();
    lex.lines().map(|l| l.split(',').next().unwrap_or("")).max_by_key(|s| s.len()).unwrap_or("").to_string()
}

fn long_surface() -> String {
    "ｙ".repeat(130)
}

/// analyse + touch every accessor; Ok(Ok(n morphemes)) / Ok(Err(error text)) / Err(panic)
fn analyse(dict: &JapaneseDictionary, tok: &mut StatefulTokenizer<&JapaneseDictionary>, mode: Mode, text: &str) -> Result<Result<(usize, bool), String>, String> {
    catch(|| {
        tok.set_mode(mode);
        tok.reset().push_str(text);
        if let Err(e) = tok.do_tokenize() {
            return Err(match e {
                SudachiError::InputTooLong(_, _) => "InputTooLong".to_string(),
                other => format!("{:?}", other),
            });
        }
        let mut ml = MorphemeList::empty(dict);
        ml.collect_results(tok).map_err(|e| format!("{:?}", e))?;
        let mut concat = String::new();
        let mut sum = 0usize;
        for m in ml.iter() {
            concat.push_str(&m.surface());
            sum += m.part_of_speech().len() + m.dictionary_form().len() + m.normalized_form().len() + m.reading_form().len();
            sum += m.is_oov() as usize + m.word_id().as_raw() as usize + (m.dictionary_id() + 1) as usize + m.synonym_group_ids().len();
            sum += m.begin() + m.end() + m.begin_c() + m.end_c() + (m.total_cost() as i64).unsigned_abs() as usize + m.part_of_speech_id() as usize;
            for sm in [Mode::A, Mode::B] {
                let sub = m.split(sm).map_err(|e| format!("split: {:?}", e))?;
                for x in sub.iter() {
                    sum += x.surface().len() + x.end_c();
                }
            }
        }
        std::hint::black_box(sum);
        Ok((ml.len(), concat == text))
    })
}

pub fn run(args: &Args) {
    let mut sink = Sink::new("C03", &args.out, &["Model.Lattice", "Model.BuildCheck", "Model.LatticeP"], args.seed, &args.tier);
    sink.shard_size = 40;
    sink.rule("configurations {test config, full plugin stack with MeCab+regex+simple OOV, regexes matching the empty string, cost extremes} x modes A/B/C x {fixed hostile strings: NUL, controls, unassigned, astral, combining runs > 64, ZWJ chains, NFKC 18x expanders; lengths around 49,149 / 65,535 bytes; random mixes}; every accessor of every morpheme is called; plus build_lattice model vs lattice dump; non-trivial = non-empty text; distinct by (config, mode, text)");
    let res = format!("{}/sudachi/tests/resources", repo());
    let system = std::fs::read(format!("{}/system.dic.test", res)).unwrap();
    let user = std::fs::read(format!("{}/user.dic.test", res)).unwrap();
    let dir = args.work.join("res");
    let _ = std::fs::remove_dir_all(&dir);
    prepare_resources(&dir, &res).unwrap();
    std::fs::write(dir.join("unk.def"), unk_def()).unwrap();
    // the shipped char.def defines every class for the MeCab provider (the test one only DEFAULT and ALPHA)
    std::fs::copy(format!("{}/resources/char.def", repo()), dir.join("char.def")).unwrap();
    let mut rng = Rng::new(args.seed);
    // two more user dictionaries which introduce the same user-defined parts of speech as each other and as the
    // `userPOS: allow` providers of the "full" configuration (POS tables are merged when the dictionary is put together)
    let shared_pos = "名詞,普通名詞,REGEX,*,*,*";
    let u2 = compile_user(&system, &format!("ゆず,6,6,2816,ゆず,{0},ユズ,ゆず,*,A,*,*,*,*\nだいだい,8,8,2000,だいだい,被子植物門,双子葉植物綱,ムクロジ目,ミカン科,ミカン属,ダイダイ,ダイダイ,だいだい,*,A,*,*,*,*\n", shared_pos));
    // (the third dictionary also holds abbreviation-like words whose declared units are together LONGER than the word:
    //  the last unit takes what is left of the word)
    let u3 = compile_user(&system, &format!("東都,6,6,2000,東都,名詞,固有名詞,地名,一般,*,*,トウト,東都,*,C,5/9,5/9,*,*\n京京,6,6,2000,京京,名詞,固有名詞,地名,一般,*,*,キョウキョウ,京京,*,C,3/5,3/5,*,*\nれもん,6,6,2816,れもん,被子植物門,双子葉植物綱,ムクロジ目,ミカン科,ミカン属,レモン,レモン,れもん,*,A,*,*,*,*\nらいむ,8,8,2100,らいむ,{0},ライム,らいむ,*,A,*,*,*,*\nぽんかん,8,8,2100,ぽんかん,柑橘,新種,*,*,*,*,ポンカン,ぽんかん,*,A,*,*,*,*\nれもんらいむ,6,6,500,れもんらいむ,名詞,固有名詞,地名,一般,*,*,レモンライム,れもんらいむ,*,C,U2/U3,U2/U3,U2/U3,*\nらいむぽんかん東京,6,6,500,らいむぽんかん東京,名詞,固有名詞,地名,一般,*,*,ライムポンカントウキョウ,らいむぽんかん東京,*,C,U3/U4/5,U3/U4/5,*,*\n{1},6,6,500,{1},名詞,固有名詞,地名,一般,*,*,{2},{3},*,A,*,*,*,*\nきんかん,6,6,500,きんかん,名詞,固有名詞,地名,一般,*,*,{2},{3},*,A,*,*,*,*\n", shared_pos, long_surface(), "キ".repeat(200), "金".repeat(140)));
    let extra_users: Vec<Vec<u8>> = match (u2, u3) {
        (Ok(a), Ok(b)) => vec![a, b],
        (a, b) => {
            let id = sink.case_rust_only(json!({"kind": "c03-load", "config": "extra user dictionaries"}), false);
            sink.fail(id, &format!("extra user dictionaries did not compile: {:?} {:?}", a.err(), b.err()), "");
            vec![]
        }
    };

    let replay_case: Option<Value> = args.replay.as_ref().map(|p| serde_json::from_str::<Value>(&std::fs::read_to_string(p).unwrap()).unwrap()["case"].clone());

    for (cname, cfg) in configs() {
        if let Some(rc) = &replay_case {
            if rc["config"].as_str() != Some(cname) {
                continue;
            }
        }
        let mut users = vec![user.clone()];
        users.extend(extra_users.iter().cloned());
        let dict = match load_dictionary_caught(&dir, system.clone(), users, &cfg) {
            Ok(d) => d,
            Err(e) => {
                let id = sink.case_rust_only(json!({"kind": "c03-load", "config": cname}), false);
                sink.fail(id, &format!("configuration {} did not load: {}", cname, e), "");
                continue;
            }
        };
        let mut tok = StatefulTokenizer::new(&dict, Mode::C);
        let mut texts: Vec<(String, String)> = vec![];
        if let Some(rc) = &replay_case {
            texts.push(("replay".into(), rc["text"].as_str().unwrap().to_string()));
        } else {
            for t in nasty() {
                texts.push(("hostile".into(), t));
            }
            texts.push(("hostile".into(), format!("東京{}に", long_numeral())));
            texts.push(("hostile".into(), format!("{}きんかん", long_surface())));
            for t in ["れもんらいむ", "らいむぽんかん東京に", "れもんらいむらいむぽんかん東京", "ゆずとれもんとらいむ", "ぽんかんだいだいすだちかぼす", "abc-12ゆずらいむぽんかん東京府", "東都", "東都に行った京京", "京京", "☆★", "☆★☆", "東京☆★に"] {
                texts.push(("hostile".into(), t.to_string()));
            }
            for _ in 0..args.n(150, 3000) {
                texts.push(("random".into(), rand_text(&mut rng)));
            }
            if cname != "cost-extremes" {
                // (cost extremes x > 32768 tokens is the recorded i32 finding of C02; lengths are exercised with ordinary costs)
                let li = long_inputs();
                // accepted by start_build (<= 49,149 bytes) but longer than 65,535 bytes once normalised: rejected at commit
                texts.push(("long:fdfa-then-ascii".into(), format!("{}{}", "\u{fdfa}".repeat(1000), "a".repeat(46000))));
                texts.push(("hostile".into(), "東京都に行った。".to_string()));
                texts.push(("long:ascii-max".into(), "a".repeat(MAX_LENGTH)));
                let take = if args.thorough() { li.len() } else { 10 };
                let start = (rng.below(li.len() as u64)) as usize;
                for k in 0..take {
                    let (n, t) = &li[(start + k * 7) % li.len()];
                    texts.push((format!("long:{}", n), t.clone()));
                    // a short text right after every long one, on the same tokenizer
                    texts.push(("hostile".into(), "京都に行った".to_string()));
                }
            }
        }
        for (kind, text) in texts {
            let modes: &[Mode] = if kind.starts_with("long") { &[Mode::C] } else { &[Mode::A, Mode::B, Mode::C] };
            for mode in modes {
                let mname = match mode { Mode::A => "A", Mode::B => "B", Mode::C => "C" };
                let r = analyse(&dict, &mut tok, *mode, &text);
                let shown: String = if text.len() > 200 { format!("{}… ({} bytes)", text.chars().take(20).collect::<String>(), text.len()) } else { text.clone() };
                let desc = if text.len() > 2000 { json!({"kind": kind, "config": cname, "mode": mname, "text_desc": shown, "bytes": text.len()}) } else { json!({"kind": kind, "config": cname, "mode": mname, "text": text}) };
                sink.tag(&format!("cfg={}", cname));
                sink.tag(kind.split(':').next().unwrap());
                let id = sink.case_rust_only(desc, !text.is_empty());
                if replay_case.is_some() {
                    println!("config={} mode={} text={:?} -> {:?}", cname, mname, shown, r);
                }
                match r {
                    Err(p) => {
                        sink.tag("outcome=panic");
                        sink.fail(id, &format!("tokenization or an accessor panicked ({}) for {:?} [{} mode {}]", p, shown, cname, mname), "");
                        tok = StatefulTokenizer::new(&dict, Mode::C);
                    }
                    Ok(Err(e)) => {
                        sink.tag(&format!("outcome=err:{}", if e == "InputTooLong" { "InputTooLong" } else { "other" }));
                        if text.len() <= MAX_LENGTH && e != "InputTooLong" {
                            sink.fail(id, &format!("error {} for an input within the limits with a fallback OOV provider: {:?}", e, shown), "");
                        } else if text.len() * 18 <= 65535 {
                            // no character grows more than 18-fold under NFKC / lower-casing: the normalised form fits
                            sink.fail(id, &format!("InputTooLong for an input of {} bytes whose normalised form cannot exceed 65,535 bytes: {:?}", text.len(), shown), "");
                        }
                        // a rejected input leaves the tokenizer usable
                        match analyse(&dict, &mut tok, Mode::C, "東京都") {
                            Ok(Ok((n, true))) if n > 0 => {}
                            other => {
                                sink.fail(id, &format!("after the rejected input {:?} the same tokenizer answers {:?} for \"東京都\"", shown, other), "");
                                tok = StatefulTokenizer::new(&dict, Mode::C);
                            }
                        }
                    }
                    Ok(Ok((_, lossless))) => {
                        sink.tag("outcome=ok");
                        if text.len() > MAX_LENGTH {
                            sink.fail(id, &format!("input of {} bytes (> 49149) was accepted", text.len()), "");
                        } else if !lossless {
                            sink.fail(id, &format!("surfaces do not concatenate to the input (truncated result?) for {:?}", shown), "");
                        }
                    }
                }
            }
            // build_lattice model vs the lattice the implementation built (short texts only)
            if text.chars().count() <= 14 && !text.is_empty() && replay_case.is_none() {
                if let Some(t) = lattice_term(&dict, &mut tok, &text) {
                    sink.tag("build_model_case");
                    sink.case(t, json!({"kind": "build-model", "config": cname, "mode": "C", "text": text}), true);
                }
            }
        }
        if replay_case.is_none() || replay_case.as_ref().map(|c| c["kind"] == "field-request").unwrap_or(false) {
            field_request_runs(&mut sink, &dict, cname, replay_case.as_ref());
        }
    }
    // configurations without any OOV provider: refused at load time, or -- if a version of the loader accepts them -- every
    // input must still give a morpheme list or an error value
    if replay_case.is_none() || replay_case.as_ref().map(|c| c["kind"] == "no-oov-provider").unwrap_or(false) {
        let default_in = json!({"class": "com.worksap.nlp.sudachi.DefaultInputTextPlugin"});
        for (k, cfg) in [json!({"characterDefinitionFile": "char.def", "inputTextPlugin": [default_in], "oovProviderPlugin": []}),
                         json!({"characterDefinitionFile": "char.def", "inputTextPlugin": [default_in]}),
                         json!({"characterDefinitionFile": "char.def", "oovProviderPlugin": [], "pathRewritePlugin": [{"class": "com.worksap.nlp.sudachi.JoinNumericPlugin", "enableNormalize": true}]})].iter().enumerate() {
            match load_dictionary_caught(&dir, system.clone(), vec![], cfg) {
                Err(_) => {
                    sink.tag("no_oov_provider:refused");
                    sink.case_rust_only(json!({"kind": "no-oov-provider", "variant": k, "text": ""}), false);
                }
                Ok(dict) => {
                    sink.tag("no_oov_provider:loaded");
                    let mut tok = StatefulTokenizer::new(&dict, Mode::C);
                    for t in ["京都", "京都x", "あ", "東京都に行った☆", "", "abc", "\u{0}"] {
                        let id = sink.case_rust_only(json!({"kind": "no-oov-provider", "variant": k, "text": t}), !t.is_empty());
                        if let Err(p) = analyse(&dict, &mut tok, Mode::C, t) {
                            sink.fail(id, &format!("a configuration without OOV provider loaded, and analysing {:?} panicked: {}", t, p), "");
                            tok = StatefulTokenizer::new(&dict, Mode::C);
                        }
                    }
                }
            }
        }
    }
    if replay_case.is_none() || replay_case.as_ref().map(|c| c["kind"] == "reuse-session").unwrap_or(false) {
        reuse_sessions(&mut sink, &mut rng, args, &dir, &system, &user, &extra_users, replay_case.as_ref());
    }
    let _ = std::fs::remove_dir_all(&dir);
    if replay_case.is_none() {
        generated_configurations(&mut sink, &mut rng, args);
    }
    if replay_case.is_none() || replay_case.as_ref().map(|c| c["kind"] == "lattice-panic").unwrap_or(false) {
        lattice_panic_sessions(&mut sink, &mut rng, args, replay_case.as_ref());
    }
    if replay_case.is_none() {
        damaged_dictionary_probe(&mut sink, &mut rng, args);
    }
    debug_mode_runs(&mut sink, args);
    sink.finish();
}

/// every accessor of every morpheme of a list (the list may be one that earlier analyses filled)
fn touch_all(ml: &MorphemeList<&JapaneseDictionary>) -> Result<String, String> {
    let mut concat = String::new();
    let mut sum = 0usize;
    for m in ml.iter() {
        concat.push_str(&m.surface());
        sum += m.part_of_speech().len() + m.dictionary_form().len() + m.normalized_form().len() + m.reading_form().len();
        sum += m.is_oov() as usize + m.word_id().as_raw() as usize + (m.dictionary_id() + 1) as usize + m.synonym_group_ids().len();
        sum += m.begin() + m.end() + m.begin_c() + m.end_c() + (m.total_cost() as i64).unsigned_abs() as usize + m.part_of_speech_id() as usize;
        sum += format!("{:?}", m).len();
        for sm in [Mode::A, Mode::B] {
            let sub = m.split(sm).map_err(|e| format!("split: {:?}", e))?;
            for x in sub.iter() {
                sum += x.surface().len() + x.end_c();
            }
        }
    }
    // on-demand splitting into lists that do not share the source list's input: a list made by MorphemeList::empty, one
    // scratch list reused for every morpheme, and a list that holds another analysis
    let dict = ml.dict();
    let mut scratch = MorphemeList::empty(*dict);
    for m in ml.iter() {
        for sm in [Mode::A, Mode::B] {
            let mut fresh = MorphemeList::empty(*dict);
            for out in [&mut fresh, &mut scratch] {
                let did = m.split_into(sm, out).map_err(|e| format!("split_into: {:?}", e))?;
                if did {
                    let mut cat = String::new();
                    for x in out.iter() {
                        cat.push_str(&x.surface());
                        sum += x.begin() + x.end() + x.begin_c() + x.end_c() + x.part_of_speech().len() + x.normalized_form().len() + format!("{:?}", x).len();
                    }
                    if cat.len() < m.surface().len() && !cat.is_empty() && !m.surface().starts_with(&cat) {
                        return Err(format!("split_into({:?}) of {:?} into a foreign list reads back {:?}", sm, &*m.surface(), cat));
                    }
                }
            }
        }
    }
    std::hint::black_box(sum);
    Ok(concat)
}

/// Restricted field requests (StatefulTokenizer::set_subset, what sudachipy's `fields=` ends in): the binary reader SKIPS the
/// fields that are not requested.  Every text x mode x request must give a morpheme list whose every accessor returns, whose
/// surfaces concatenate to the input, and whose units (requested or not, the mode's split list is always loaded) are the
/// declared ones for the directed compound words.
fn field_request_runs(sink: &mut Sink, dict: &JapaneseDictionary, cname: &str, replay: Option<&Value>) {
    let subsets: Vec<(&str, InfoSubset)> = vec![
        ("{}", InfoSubset::empty()),
        ("{POS_ID}", InfoSubset::POS_ID),
        ("{NORMALIZED_FORM}", InfoSubset::NORMALIZED_FORM),
        ("{READING_FORM,SYNONYM_GROUP_ID}", InfoSubset::READING_FORM | InfoSubset::SYNONYM_GROUP_ID),
        ("{DIC_FORM_WORD_ID}", InfoSubset::DIC_FORM_WORD_ID),
        ("{SPLIT_A,SPLIT_B}", InfoSubset::SPLIT_A | InfoSubset::SPLIT_B),
        ("{WORD_STRUCTURE,POS_ID}", InfoSubset::WORD_STRUCTURE | InfoSubset::POS_ID),
        ("{SURFACE}", InfoSubset::SURFACE),
        ("all", InfoSubset::all()),
    ];
    let texts: Vec<String> = match replay {
        Some(rc) => vec![rc["text"].as_str().unwrap_or("").to_string()],
        None => vec![format!("東京{}に", long_numeral()), long_numeral(), format!("{}きんかん", long_surface()), "きんかんに行った".into(), "れもんらいむ".into(),
                     "らいむぽんかん東京に".into(), "東京都に行った。".into(), "東都京京".into(), "ゆずとだいだい123,456アイアイウ".into(), "".into()],
    };
    // declared units of the directed compounds (every mode that splits them)
    let declared: Vec<(&str, Vec<&str>)> = vec![("れもんらいむ", vec!["れもん", "らいむ"]), ("らいむぽんかん東京", vec!["らいむ", "ぽんかん", "東京"])];
    for (sname, sub) in &subsets {
        if let Some(rc) = replay {
            if rc["fields"].as_str() != Some(*sname) {
                continue;
            }
        }
        for text in &texts {
            for mode in [Mode::A, Mode::B, Mode::C] {
                let mname = match mode { Mode::A => "A", Mode::B => "B", Mode::C => "C" };
                if let Some(rc) = replay {
                    if rc["mode"].as_str() != Some(mname) {
                        continue;
                    }
                }
                let shown: String = if text.len() > 80 { format!("{}… ({} bytes)", text.chars().take(12).collect::<String>(), text.len()) } else { text.clone() };
                sink.tag("field-request");
                let id = sink.case_rust_only(json!({"kind": "field-request", "config": cname, "mode": mname, "fields": sname, "text": text}), !text.is_empty());
                let r = catch(|| -> Result<(String, Vec<String>), String> {
                    let mut tok = StatefulTokenizer::new(dict, mode);
                    tok.set_subset(*sub);
                    tok.reset().push_str(text);
                    tok.do_tokenize().map_err(|e| format!("{:?}", e))?;
                    let mut ml = MorphemeList::empty(dict);
                    ml.collect_results(&mut tok).map_err(|e| format!("{:?}", e))?;
                    let c = touch_all(&ml)?;
                    let surfaces: Vec<String> = ml.iter().map(|m| m.surface().to_string()).collect();
                    Ok((c, surfaces))
                });
                if replay.is_some() {
                    println!("config={} fields={} mode={} text={:?} -> {:?}", cname, sname, mname, shown, r);
                }
                match r {
                    Err(p) => sink.fail(id, &format!("analysis with the field request {} (mode {}) or an accessor panicked ({}) for {:?} [{}]", sname, mname, p, shown, cname), ""),
                    Ok(Err(e)) => sink.fail(id, &format!("analysis with the field request {} (mode {}) gives the error {} for {:?} [{}]", sname, mname, e, shown, cname), ""),
                    Ok(Ok((c, surfaces))) => {
                        if &c != text {
                            sink.fail(id, &format!("field request {} (mode {}): surfaces concatenate to {:?}, not to the input {:?} [{}]", sname, mname, c.chars().take(40).collect::<String>(), shown, cname), "");
                        } else if mode != Mode::C {
                            for (w, units) in &declared {
                                if text.starts_with(w) && !surfaces.iter().take(units.len()).map(|x| x.as_str()).eq(units.iter().copied()) && surfaces.first().map(|f| f.len() <= w.len()).unwrap_or(false) {
                                    sink.fail(id, &format!("field request {} (mode {}): {:?} (a word of the third user dictionary whose units are words of that dictionary) comes out as {:?}, declared units {:?} [{}]", sname, mname, w, surfaces, units, cname), "");
                                }
                            }
                        }
                    }
                }
            }
        }
    }
}

/// One tokenizer and ONE result list reused over a sequence of inputs (empty, blank, ordinary, rejected ones anywhere):
/// after every step every accessor of every morpheme of the list is called.
fn reuse_sessions(sink: &mut Sink, rng: &mut Rng, args: &Args, dir: &std::path::Path, system: &[u8], user: &[u8], extra: &[Vec<u8>], replay: Option<&Value>) {
    let pool: Vec<String> = {
        let mut v: Vec<String> = vec!["".into(), "".into(), " ".into(), "\u{3099}".into(), "東京都に行った。".into(), "京都".into(), "ゆずとれもん".into(), "123,456.7円".into(),
                                      "アイスクリーム".into(), "a".into(), "\u{fdfa}".repeat(3000), "a".repeat(MAX_LENGTH + 1), "ｶﾞｶﾞｶﾞ".into(), "高輪ゲートウェイ駅(たかなわ)".into()];
        for _ in 0..6 {
            v.push(rand_text(rng));
        }
        v
    };
    for (cname, cfg) in configs() {
        if cname == "cost-extremes" {
            continue;
        }
        let mut users = vec![user.to_vec()];
        users.extend(extra.iter().cloned());
        let dict = match load_dictionary_caught(dir, system.to_vec(), users, &cfg) {
            Ok(d) => d,
            Err(_) => continue, // reported by the main loop
        };
        let nsess = if replay.is_some() { 1 } else { args.n(25, 300) };
        for _ in 0..nsess {
            let steps: Vec<(String, String)> = match replay {
                Some(rc) => {
                    if rc["config"].as_str() != Some(cname) {
                        break;
                    }
                    rc["steps"].as_array().unwrap().iter().map(|x| (x[0].as_str().unwrap().to_string(), x[1].as_str().unwrap().to_string())).collect()
                }
                None => (0..3 + rng.below(6)).map(|_| ((*rng.pick(&["A", "B", "C"][..])).to_string(), rng.pick(&pool[..]).clone())).collect(),
            };
            let shown: Vec<(String, String)> = steps.iter().map(|(m, t)| (m.clone(), if t.len() > 60 { format!("{}…({} bytes)", t.chars().take(8).collect::<String>(), t.len()) } else { t.clone() })).collect();
            let desc = if steps.iter().all(|(_, t)| t.len() < 2000) { json!({"kind": "reuse-session", "config": cname, "steps": steps}) } else { json!({"kind": "reuse-session", "config": cname, "steps_desc": shown}) };
            sink.tag("reuse-session");
            let id = sink.case_rust_only(desc, true);
            let r = catch(|| {
                let mut tok = StatefulTokenizer::new(&dict, Mode::C);
                let mut ml = MorphemeList::empty(&dict);
                for (k, (mode, text)) in steps.iter().enumerate() {
                    tok.set_mode(match mode.as_str() { "A" => Mode::A, "B" => Mode::B, _ => Mode::C });
                    tok.reset().push_str(text);
                    match tok.do_tokenize() {
                        Err(SudachiError::InputTooLong(_, _)) => continue,
                        Err(e) => return Err(format!("step {}: error {:?} within the limits", k, e)),
                        Ok(_) => {}
                    }
                    ml.collect_results(&mut tok).map_err(|e| format!("step {}: collect_results {:?}", k, e))?;
                    let c = touch_all(&ml).map_err(|e| format!("step {}: {}", k, e))?;
                    if &c != text {
                        return Err(format!("step {}: the reused list's surfaces concatenate to {:?}, not to the input {:?}", k, c.chars().take(40).collect::<String>(), text.chars().take(40).collect::<String>()));
                    }
                }
                Ok(())
            });
            match r {
                Err(p) => sink.fail(id, &format!("reused tokenizer + result list: analysis or an accessor panicked ({}) in the session {:?} [{}]", p, shown, cname), ""),
                Ok(Err(e)) => sink.fail(id, &format!("reused tokenizer + result list: {} in the session {:?} [{}]", e, shown, cname), ""),
                Ok(Ok(())) => {}
            }
        }
    }
}

/// "any configuration that loaded successfully": dictionaries with n x m connection matrices (non-square too) and OOV
/// providers whose ids run over the whole range up to max(n, m): whatever loads must analyse without panicking
fn generated_configurations(sink: &mut Sink, rng: &mut Rng, args: &Args) {
    let res = format!("{}/sudachi/tests/resources", repo());
    let lex = std::fs::read_to_string(format!("{}/lex.csv", res)).unwrap();
    let pos = json!(["名詞", "普通名詞", "一般", "*", "*", "*"]);
    for d in 0..args.n(80, 600) {
        let nl = 2 + rng.below(6) as usize;
        let nr = if rng.chance(1, 3) { nl } else { 2 + rng.below(6) as usize };
        let mut matrix = format!("{} {}\n", nl, nr);
        for l in 0..nl {
            for r in 0..nr {
                matrix.push_str(&format!("{} {} {}\n", l, r, rng.range(-3000, 3000)));
            }
        }
        let lo = usize::min(nl, nr) as u64;
        let hi = usize::max(nl, nr) as u64;
        let mut rows = vec![];
        for line in lex.lines() {
            let mut f: Vec<String> = line.split(',').map(|s| s.to_string()).collect();
            if f.len() < 18 {
                continue;
            }
            if f[1] != "-1" {
                f[1] = format!("{}", rng.below(lo));
                f[2] = format!("{}", rng.below(lo));
            }
            rows.push(f.join(","));
        }
        // ids around both dimensions: below both, between them, at and beyond the larger one
        let mut pick = |rng: &mut Rng| -> u64 {
            match rng.below(6) {
                0 => lo - 1,
                1 => lo,
                2 => hi - 1,
                3 => hi,
                _ => rng.below(hi + 1),
            }
        };
        let (sl, sr) = (pick(rng), pick(rng));
        let (xl, xr) = (pick(rng), pick(rng));
        let cfg = json!({"characterDefinitionFile": "char.def",
            "inputTextPlugin": [{"class": "com.worksap.nlp.sudachi.DefaultInputTextPlugin"}],
            "oovProviderPlugin": [
                {"class": "com.worksap.nlp.sudachi.RegexOovProvider", "oovPOS": pos, "leftId": xl, "rightId": xr, "cost": 500, "regex": "[a-z0-9]+", "maxLength": 16},
                {"class": "com.worksap.nlp.sudachi.SimpleOovPlugin", "oovPOS": pos, "leftId": sl, "rightId": sr, "cost": 3000}]});
        let dir = args.work.join(format!("gen{}", d));
        let desc = json!({"kind": "generated-config", "matrix": format!("{}x{}", nl, nr), "simple": [sl, sr], "regex": [xl, xr]});
        sink.tag(if nl == nr { "generated:square" } else { "generated:non_square" });
        let loaded = catch(|| build_dictionary(&dir, &res, &matrix, &rows.join("\n"), &[], &cfg));
        let dict = match loaded {
            Ok(Ok(d)) => d,
            Ok(Err(_)) => {
                sink.tag("generated:rejected_at_load");
                sink.case_rust_only(desc, false);
                let _ = std::fs::remove_dir_all(&dir);
                continue;
            }
            Err(p) => {
                let id = sink.case_rust_only(desc, true);
                sink.fail(id, &format!("loading the configuration panicked: {}", p), "");
                let _ = std::fs::remove_dir_all(&dir);
                continue;
            }
        };
        sink.tag("generated:loaded");
        let id = sink.case_rust_only(desc, true);
        let mut tok = StatefulTokenizer::new(&dict, Mode::C);
        for t in ["東京都に行った。", "abc123京都xyz", "アイウ9z", "é👍🏻", "a", "1", "東京abc"] {
            for mode in [Mode::A, Mode::C] {
                match analyse(&dict, &mut tok, mode, t) {
                    Err(p) => {
                        sink.fail(id, &format!("a configuration that loaded ({}x{} matrix, simple ids {}/{}, regex ids {}/{}) panics on {:?}: {}", nl, nr, sl, sr, xl, xr, t, p), "");
                        tok = StatefulTokenizer::new(&dict, Mode::C);
                    }
                    Ok(Err(e)) => sink.fail(id, &format!("error {} for {:?} with a fallback provider", e, t), ""),
                    Ok(Ok(_)) => {}
                }
            }
        }
        let _ = std::fs::remove_dir_all(&dir);
    }
}

/// the debug dump of the tokenizer (StatefulTokenizer::create(dic, true, ..) / `sudachi -d`) prints to stdout: it is run
/// in a child process whose stdout is discarded; the child reports through its exit status and stderr
fn debug_mode_runs(sink: &mut Sink, args: &Args) {
    let exe = std::env::current_exe().unwrap();
    let out = std::process::Command::new(exe)
        .arg("C03DBG")
        .arg("--seed")
        .arg(format!("{}", args.seed))
        .arg("--work")
        .arg(&args.work)
        .stdout(std::process::Stdio::null())
        .output();
    let id = sink.case_rust_only(json!({"kind": "debug-mode-sequences"}), true);
    sink.tag("debug_mode_child");
    match out {
        Ok(o) => {
            let err = String::from_utf8_lossy(&o.stderr).to_string();
            for line in err.lines().filter(|l| l.starts_with("C03DBG-FAIL")) {
                sink.fail(id, line, "");
            }
            if !o.status.success() && !err.contains("C03DBG-FAIL") {
                sink.fail(id, &format!("debug-mode child exited with {:?}: {}", o.status.code(), err.chars().take(300).collect::<String>()), "");
            }
        }
        Err(e) => sink.fail(id, &format!("cannot start the debug-mode child: {}", e), ""),
    }
}

/// child process: debug-dump tokenizers reused over longer -> shorter -> longer texts
pub fn run_debug_child(args: &Args) {
    let res = format!("{}/sudachi/tests/resources", repo());
    let system = std::fs::read(format!("{}/system.dic.test", res)).unwrap();
    let user = std::fs::read(format!("{}/user.dic.test", res)).unwrap();
    let dir = args.work.join("resdbg");
    let _ = std::fs::remove_dir_all(&dir);
    prepare_resources(&dir, &res).unwrap();
    let (_, cfg) = configs().into_iter().next().unwrap();
    let dict = load_dictionary(&dir, system, vec![user], &cfg).expect("dictionary");
    let mut rng = Rng::new(args.seed);
    let mut bad = 0;
    for mode in [Mode::A, Mode::B, Mode::C] {
        let mut tok = StatefulTokenizer::create(&dict, true, mode);
        let mut texts: Vec<String> = vec!["東京都に行った。京都にも行った。".into(), "東京".into(), "".into(), "a".into(), "高輪ゲートウェイ駅に東京都から行った".into(), "に".into(),
                                           format!("東京{}に", long_numeral()), "京都".into()];
        for _ in 0..40 {
            texts.push(rand_text(&mut rng));
        }
        for t in texts {
            let r = catch(|| {
                tok.reset().push_str(&t);
                tok.do_tokenize().map(|_| ()).map_err(|e| format!("{:?}", e))
            });
            match r {
                Ok(_) => {}
                Err(p) => {
                    eprintln!("C03DBG-FAIL debug-dump tokenizer (mode {:?}) panicked on {:?} after earlier inputs: {}", mode, t, p);
                    bad += 1;
                    tok = StatefulTokenizer::create(&dict, true, mode);
                }
            }
        }
    }
    let _ = std::fs::remove_dir_all(&dir);
    std::process::exit(if bad > 0 { 1 } else { 0 });
}

fn lattice_term(dict: &JapaneseDictionary, tok: &mut StatefulTokenizer<&JapaneseDictionary>, text: &str) -> Option<String> {
    let conn = dict.grammar().conn_matrix();
    let (nl, nr) = (conn.num_left(), conn.num_right());
    let r = catch(|| {
        tok.set_mode(Mode::C);
        tok.reset().push_str(text);
        let res = tok.do_tokenize();
        let n = tok.verif_input().current_chars().len();
        if n == 0 {
            return None;
        }
        let eos = match res {
            Ok(()) => tok.verif_lattice().verif_eos().map(|e| e.2),
            Err(SudachiError::EosBosDisconnect) => None,
            Err(_) => return None,
        };
        let lat = tok.verif_lattice();
        let mut nodes = vec![];
        for end in 0..lat.verif_size() {
            for nd in lat.verif_nodes(end) {
                nodes.push(nd);
            }
        }
        nodes.sort_by_key(|x| x.begin);
        Some((n, nodes, eos))
    });
    let (n, nodes, eos) = r.ok()??;
    let mut data = vec![];
    for r in 0..nr {
        for l in 0..nl {
            data.push(conn.cost(l as u16, r as u16) as i64);
        }
    }
    Some(format!(
        "check_build {} {} {}%nat {} {}",
        cnu(nl),
        clist(data.iter().map(|x| cz(*x))),
        n,
        clist(nodes.iter().map(|x| format!("mkNode {}%nat {}%nat {} {} {}", x.begin, x.end, cn(x.left_id), cn(x.right_id), cz(x.cost as i64)))),
        copt(eos.map(|e| cz(e as i64)))
    ))
}


/// putting a dictionary together analyses the user dictionary entries (cost estimation): a panic there is a finding
/// like any other, not a reason for the harness to die
fn load_dictionary_caught(dir: &std::path::Path, system: Vec<u8>, users: Vec<Vec<u8>>, cfg: &Value) -> Result<JapaneseDictionary, String> {
    match catch(|| load_dictionary(dir, system, users, cfg)) {
        Ok(r) => r,
        Err(p) => Err(format!("panicked while loading: {}", p)),
    }
}

// ------------------------------------------------------------------ panicking-index model of lattice.rs (Model/LatticeP.v)
// One Lattice object through several rounds of reset / insert* / connect_eos / fill_top_path / node(id), with well-formed
// and deliberately ill-formed nodes (end beyond the lattice, begin >= end, ids outside the matrix, empty text): the model
// must say "no panic" exactly when the implementation does not panic, with the same costs / EOS / path / totals, and
// name a panic site of the observed kind otherwise.
mod lattice_panics {
    use crate::common::*;
    use serde_json::{json, Value};
    use sudachi::analysis::lattice::Lattice;
    use sudachi::analysis::Node;
    use sudachi::dic::connect::ConnectionMatrix;
    use sudachi::dic::word_id::WordId;

    #[derive(Clone, Debug)]
    pub struct PN {
        pub b: usize,
        pub e: usize,
        pub l: u16,
        pub r: u16,
        pub c: i16,
    }
    pub struct Session {
        pub nl: usize,
        pub nr: usize,
        pub data: Vec<i16>,
        pub rounds: Vec<(usize, Vec<PN>)>,
    }
    /// per round: None = panicked; Some(costs, eos)
    pub type RoundOut = Option<(Vec<i32>, Option<(i32, Vec<(u16, u16)>, Vec<i32>)>)>;

    pub fn run(s: &Session) -> (Vec<RoundOut>, String) {
        let bytes: Vec<u8> = s.data.iter().flat_map(|x| x.to_le_bytes()).collect();
        let mut lat = Lattice::default();
        let mut out = vec![];
        let mut msg = String::new();
        for (len, nodes) in &s.rounds {
            let r = catch(|| {
                let conn = ConnectionMatrix::from_offset_size(&bytes, 0, s.nl, s.nr).unwrap();
                lat.reset(*len);
                let mut costs = vec![];
                for (k, n) in nodes.iter().enumerate() {
                    let node = Node::new(n.b as u16, n.e as u16, n.l, n.r, n.c, WordId::new(0, k as u32));
                    costs.push(lat.insert(node, &conn));
                }
                let eos = match lat.connect_eos(&conn) {
                    Err(_) => None,
                    Ok(()) => {
                        let (_, _, ec) = lat.verif_eos().unwrap();
                        let mut ids = vec![];
                        lat.fill_top_path(&mut ids);
                        ids.reverse();
                        let mut path = vec![];
                        let mut totals = vec![];
                        for id in ids {
                            let (_, t) = lat.node(id);
                            path.push((id.end(), id.index()));
                            totals.push(t);
                        }
                        Some((ec, path, totals))
                    }
                };
                (costs, eos)
            });
            match r {
                Ok(x) => out.push(Some(x)),
                Err(p) => {
                    out.push(None);
                    msg = p;
                    break;
                }
            }
        }
        (out, msg)
    }

    pub fn panic_class(msg: &str) -> u32 {
        if msg.contains("index out of bounds") {
            1
        } else if msg.contains("with overflow") {
            2
        } else if msg.contains("assertion") {
            3
        } else {
            0
        }
    }

    fn cost_val(rng: &mut Rng) -> i16 {
        match rng.below(12) {
            0 => 32767,
            1 => -32768,
            2 => 0,
            _ => rng.range(-3000, 3000) as i16,
        }
    }

    pub fn gen(rng: &mut Rng, debug: bool) -> Session {
        let nl = 1 + rng.below(4) as usize;
        let nr = 1 + rng.below(4) as usize;
        let data: Vec<i16> = (0..nl * nr).map(|_| cost_val(rng)).collect();
        let nrounds = 1 + rng.below(4) as usize;
        let ill = rng.chance(1, 2); // half of the sessions stay inside the scope of the theorem
        let mut rounds = vec![];
        let mut cap = 0usize;
        for _ in 0..nrounds {
            let len = if ill && rng.chance(1, 8) { 0 } else { 1 + rng.below(8) as usize };
            let mut nodes: Vec<PN> = vec![];
            if len > 0 {
                for _ in 0..rng.below(3 * len as u64 + 2) {
                    let b = rng.below(len as u64) as usize;
                    let e = b + 1 + rng.below((len - b) as u64) as usize;
                    nodes.push(PN { b, e, l: rng.below(nr as u64) as u16, r: rng.below(nl as u64) as u16, c: cost_val(rng) });
                }
                if rng.chance(3, 4) {
                    let mut p = 0;
                    while p < len {
                        let e = usize::min(len, p + 1 + rng.below(2) as usize);
                        nodes.push(PN { b: p, e, l: rng.below(nr as u64) as u16, r: rng.below(nl as u64) as u16, c: cost_val(rng) });
                        p = e;
                    }
                }
            }
            nodes.sort_by_key(|n| n.b);
            if ill && rng.chance(2, 3) {
                // one or two ill-formed nodes somewhere: end in a stale row of an earlier, longer analysis / beyond the outer
                // vectors, empty or inverted span, begin beyond the lattice, ids outside the matrix (debug assertions only:
                // without them that is undefined behaviour)
                for _ in 0..1 + rng.below(2) {
                    let b = rng.below(len as u64 + 1) as usize;
                    let bad = match rng.below(if debug { 7 } else { 5 }) {
                        0 => PN { b, e: len + 1 + rng.below(3) as usize, l: 0, r: 0, c: 1 },
                        1 => PN { b, e: usize::max(cap, len + 1) + rng.below(2) as usize, l: 0, r: 0, c: 1 },
                        2 => PN { b, e: b, l: 0, r: 0, c: -5 },
                        3 => PN { b: len, e: rng.below(len as u64 + 1) as usize, l: 0, r: 0, c: 1 },
                        4 => PN { b: usize::max(cap, len + 1) + rng.below(3) as usize, e: len, l: 0, r: 0, c: 1 },
                        5 => PN { b, e: usize::min(len, b + 1), l: nr as u16 + rng.below(2) as u16, r: 0, c: 1 },
                        _ => PN { b, e: usize::min(len, b + 1), l: 0, r: nl as u16 + rng.below(2) as u16, c: 1 },
                    };
                    let pos = rng.below(nodes.len() as u64 + 1) as usize;
                    nodes.insert(pos, bad);
                }
            }
            cap = usize::max(cap, len + 1);
            rounds.push((len, nodes));
        }
        Session { nl, nr, data, rounds }
    }

    pub fn desc(s: &Session) -> Value {
        json!({"kind": "lattice-panic", "num_left": s.nl, "num_right": s.nr, "data": s.data,
               "rounds": s.rounds.iter().map(|(len, ns)| json!([len, ns.iter().map(|n| json!([n.b, n.e, n.l, n.r, n.c])).collect::<Vec<_>>()])).collect::<Vec<_>>()})
    }

    pub fn from_desc(v: &Value) -> Session {
        Session {
            nl: v["num_left"].as_u64().unwrap() as usize,
            nr: v["num_right"].as_u64().unwrap() as usize,
            data: v["data"].as_array().unwrap().iter().map(|x| x.as_i64().unwrap() as i16).collect(),
            rounds: v["rounds"].as_array().unwrap().iter().map(|r| {
                (r[0].as_u64().unwrap() as usize,
                 r[1].as_array().unwrap().iter().map(|n| PN { b: n[0].as_u64().unwrap() as usize, e: n[1].as_u64().unwrap() as usize, l: n[2].as_u64().unwrap() as u16, r: n[3].as_u64().unwrap() as u16, c: n[4].as_i64().unwrap() as i16 }).collect())
            }).collect(),
        }
    }

    pub fn term(s: &Session, out: &[RoundOut], class: u32) -> String {
        let debug = cfg!(debug_assertions);
        let rounds = clist(s.rounds.iter().map(|(len, ns)| {
            format!("({}%nat, {})", len, clist(ns.iter().map(|n| format!("mkNode {}%nat {}%nat {} {} {}", n.b, n.e, cn(n.l), cn(n.r), cz(n.c as i64)))))
        }));
        let im = clist(out.iter().map(|o| match o {
            None => "None".to_string(),
            Some((costs, eos)) => {
                let e = match eos {
                    None => "None".to_string(),
                    Some((ec, path, totals)) => format!("(Some ({}, {}, {}))", cz(*ec as i64),
                        clist(path.iter().map(|(a, b)| format!("({}%nat, {}%nat)", a, b))), clist(totals.iter().map(|t| cz(*t as i64)))),
                };
                format!("(Some ({}, {}))", clist(costs.iter().map(|t| cz(*t as i64))), e)
            }
        }));
        format!("check_lattice_panics {} {} {} {} {} {} {} {}", cbool(debug), cbool(debug), cnu(s.nl), cnu(s.nr),
            clist(s.data.iter().map(|x| cz(*x as i64))), rounds, im, cn(class))
    }

    /// inside the scope of C03_lattice_no_index_panic: text of 1..65535 characters, begin < end <= len, ids inside the matrix
    pub fn well_formed(s: &Session) -> bool {
        s.rounds.iter().all(|(len, ns)| *len >= 1 && ns.iter().all(|n| n.b < n.e && n.e <= *len && (n.l as usize) < s.nr && (n.r as usize) < s.nl))
    }
}

fn lattice_panic_sessions(sink: &mut Sink, rng: &mut Rng, args: &Args, replay: Option<&Value>) {
    use lattice_panics::*;
    let debug = cfg!(debug_assertions);
    let mut sessions: Vec<Session> = vec![];
    if let Some(rc) = replay {
        sessions.push(from_desc(rc));
    } else {
        // directed: the empty text through the public API (the tokenizer returns before it gets there), a stale row of a
        // longer earlier analysis, a node ending at 0
        let one = |rounds: Vec<(usize, Vec<PN>)>| Session { nl: 1, nr: 1, data: vec![3], rounds };
        sessions.push(one(vec![(0, vec![])]));
        sessions.push(one(vec![(5, vec![PN { b: 0, e: 5, l: 0, r: 0, c: 1 }]), (2, vec![PN { b: 0, e: 4, l: 0, r: 0, c: 1 }, PN { b: 0, e: 2, l: 0, r: 0, c: 1 }])]));
        sessions.push(one(vec![(2, vec![PN { b: 0, e: 0, l: 0, r: 0, c: -7 }, PN { b: 0, e: 2, l: 0, r: 0, c: 1 }])]));
        sessions.push(one(vec![(2, vec![PN { b: 0, e: 3, l: 0, r: 0, c: 1 }])]));
        for _ in 0..args.n(400, 6000) {
            sessions.push(gen(rng, debug));
        }
    }
    for s in &sessions {
        let (out, msg) = run(s);
        let panicked = out.last().map_or(false, |o| o.is_none());
        let class = if panicked { panic_class(&msg) } else { 0 };
        let wf = well_formed(s);
        sink.tag(if wf { "lattice_session_well_formed" } else { "lattice_session_ill_formed" });
        sink.tag(if panicked { "lattice_session_panicked" } else { "lattice_session_no_panic" });
        if replay.is_some() {
            println!("session {}\nimplementation: {:?}\npanic message: {:?}", desc(s), out, msg);
        }
        let id = sink.case(term(s, &out, class), desc(s), wf && s.rounds.len() > 1);
        if wf && panicked && class != 2 {
            sink.fail(id, &format!("the Lattice API panicked ({}) on well-formed nodes: {}", msg, desc(s)), "");
        }
    }
}

// ------------------------------------------------------------------ damaged dictionary bytes through the public loader
// INFORMATIONAL ONLY (counted in the evidence, never a failure): docs/errors_and_security.md states that binary dictionaries
// are trusted input -- "Sudachi.rs can panic or even produce undefined behavior for invalid binary dictionaries" -- and C03's
// quantifier ranges over loadable configurations and dictionaries the compiler produces (whose validity is C06's subject).
// The probe records what the loader does with damaged bytes; a first version of this check reported the panics as a
// finding, which demanded more than the property states.  Debug profile only: without debug assertions an out-of-range trie /
// word-id-table / connection-matrix read is undefined behaviour (get_unchecked), which must not be executed.
fn damaged_dictionary_probe(sink: &mut Sink, rng: &mut Rng, args: &Args) {
    if !cfg!(debug_assertions) {
        return;
    }
    let res = format!("{}/sudachi/tests/resources", repo());
    let system = std::fs::read(format!("{}/system.dic.test", res)).unwrap();
    let dir = args.work.join("resdmg");
    let _ = std::fs::remove_dir_all(&dir);
    prepare_resources(&dir, &res).unwrap();
    let (_, cfg) = configs().into_iter().next().unwrap();
    let texts = ["東京都に行った", "京都", "abc123", "高輪ゲートウェイ駅", "特a"];
    let n = (system.len() - 272) / 4 + args.n(300, 5000);
    let (mut rejected, mut ok, mut panicked) = (0u64, 0u64, 0u64);
    for k in 0..n {
        let mut bytes = system.clone();
        let sys_units = (system.len() - 272) / 4;
        let directed = k < sys_units;
        if directed {
            // systematic: every aligned 32-bit unit behind the header, one at a time, replaced by 0xFFFFFFFF
            let pos = 272 + 4 * k;
            bytes[pos..pos + 4].copy_from_slice(&0xFFFF_FFFFu32.to_le_bytes());
        }
        // damage: a few bytes anywhere behind the header description (the trie is the first thing of the lexicon section),
        // single bits, or a 32-bit unit replaced by an extreme value
        let lo = 272usize;
        let nd = if directed { 0 } else { 1 + rng.below(3) as usize };
        let mut what = if directed { vec![272 + 4 * k] } else { vec![] };
        for _ in 0..nd {
            let pos = lo + rng.below((bytes.len() - lo - 4) as u64) as usize;
            match rng.below(3) {
                0 => { bytes[pos] ^= 1 << rng.below(8); }
                1 => { bytes[pos] = rng.below(256) as u8; }
                _ => { let v: u32 = *rng.pick(&[0xFFFF_FFFFu32, 0x7FFF_FF00, 0x0000_0300, 0x8000_0000]); bytes[pos..pos + 4].copy_from_slice(&v.to_le_bytes()); }
            }
            what.push(pos);
        }
        let desc = json!({"kind": "damaged-dictionary", "positions": what, "case": k, "unit_ffffffff": directed});
        let loaded = catch(|| load_dictionary(&dir, bytes.clone(), vec![], &cfg));
        match loaded {
            Err(p) => {
                sink.tag("damaged_dictionary:loader_panicked");
                sink.case_rust_only(desc, true);
                let _ = p;
                panicked += 1;
            }
            Ok(Err(_)) => { sink.tag("damaged_dictionary:rejected"); sink.case_rust_only(desc, true); rejected += 1; }
            Ok(Ok(dict)) => {
                let mut bad: Option<String> = None;
                let mut tok = StatefulTokenizer::new(&dict, Mode::C);
                for t in texts {
                    if let Err(p) = analyse(&dict, &mut tok, Mode::A, t) {
                        bad = Some(format!("text {:?}: {}", t, p));
                        break;
                    }
                }
                sink.case_rust_only(desc, true);
                match bad {
                    None => { sink.tag("damaged_dictionary:loaded_and_analysed"); ok += 1; }
                    Some(_) => {
                        sink.tag("damaged_dictionary:loaded_then_panicked");
                        panicked += 1;
                    }
                }
            }
        }
    }
    sink.extra("damaged_dictionaries_informational", json!({"rejected_by_loader": rejected, "loaded_and_analysed": ok, "panicked": panicked,
        "note": "outside C03: upstream documents binary dictionaries as trusted input"}));
    let _ = std::fs::remove_dir_all(&dir);
}
