//! C14 — path-rewrite plugins only merge adjacent tokens and preserve the text.
//!
//! The same text is analysed twice with the same dictionary bytes: without path-rewrite plugins (the input path of the
//! plugins) and with a chain of JoinNumericPlugin / JoinKatakanaOovPlugin under varying settings.  The Coq model
//! (`Model.Rewrite.run_plugins`) is run on the first result and must produce the second; the grouping property is
//! evaluated on the implementation's output both in Coq (`grouping_ok`) and by an independent Rust oracle.
use crate::c15::{compile_system, gen_malformed, gen_wellformed, load_dict, resource_dir, EXTRA_ROWS, FULLWIDTH_DIGITS};
use crate::common::*;
use serde_json::{json, Value};
use sudachi::analysis::stateless_tokenizer::StatelessTokenizer;
use sudachi::analysis::{Mode, Tokenize};
use sudachi::dic::dictionary::JapaneseDictionary;
use sudachi::dic::grammar::Grammar;
use sudachi::input_text::{InputBuffer, InputTextIndex};
use sudachi::prelude::*;

#[derive(Clone, Debug, PartialEq)]
struct Node {
    b: usize,  // bytes in the original text
    e: usize,
    bc: usize, // code points
    ec: usize,
    text: String, // slice of the original text
    surf: String, // dictionary-side surface
    norm: String,
    dform: String,
    rform: String,
    pos: u16,
    oov: bool,
    cats: u32,
    cat0: u32,
    /// bit 0: A-unit split list non-empty, bit 1: B-unit split list, bit 2: word structure, bit 3: synonym group ids
    extra: u32,
    /// number of tokens Morpheme::split(A) / split(B) yields for this token (1 = not split)
    split_a: usize,
    split_b: usize,
}

fn analyse(dict: &JapaneseDictionary, text: &str) -> Result<Vec<Node>, String> {
    analyse_mode(dict, text, Mode::C)
}

fn analyse_mode(dict: &JapaneseDictionary, text: &str, mode: Mode) -> Result<Vec<Node>, String> {
    let r = catch(|| {
        let t = StatelessTokenizer::new(dict);
        let ms = t.tokenize(text, mode, false).map_err(|e| format!("{:?}", e))?;
        let mut v = vec![];
        for m in ms.iter() {
            v.push(Node {
                b: m.begin(),
                e: m.end(),
                bc: m.begin_c(),
                ec: m.end_c(),
                text: m.surface().to_string(),
                surf: m.get_word_info().surface().to_string(),
                // raw stored strings (empty = same as surface): this is what concat_nodes concatenates
                norm: raw(&m).normalized_form,
                dform: raw(&m).dictionary_form,
                rform: raw(&m).reading_form,
                pos: m.part_of_speech_id(),
                oov: m.is_oov(),
                cats: 0,
                cat0: 0,
                extra: {
                    let wi = m.get_word_info();
                    (!wi.a_unit_split().is_empty()) as u32 | ((!wi.b_unit_split().is_empty()) as u32) << 1 | ((!wi.word_structure().is_empty()) as u32) << 2 | ((!wi.synonym_group_ids().is_empty()) as u32) << 3
                },
                split_a: m.split(Mode::A).map(|l| l.len()).map_err(|e| format!("split(A): {:?}", e))?,
                split_b: m.split(Mode::B).map(|l| l.len()).map_err(|e| format!("split(B): {:?}", e))?,
            });
        }
        Ok::<_, String>(v)
    });
    match r {
        Ok(Ok(v)) => Ok(v),
        Ok(Err(e)) => Err(format!("Err({})", e)),
        Err(p) => Err(format!("Panic({})", p)),
    }
}

fn raw<T: sudachi::analysis::stateless_tokenizer::DictionaryAccess>(m: &sudachi::analysis::morpheme::Morpheme<T>) -> sudachi::dic::lexicon::word_infos::WordInfoData {
    m.get_word_info().clone().into()
}

/// character classes as the plugins see them (InputBuffer::cat_of_range / cat_at_char on the built buffer)
fn fill_cats(grammar: &Grammar, text: &str, nodes: &mut [Node]) {
    let mut buf = InputBuffer::from(text);
    buf.build(grammar).expect("buffer builds");
    for n in nodes.iter_mut() {
        n.cats = buf.cat_of_range(n.bc..n.ec).bits();
        n.cat0 = buf.cat_at_char(n.bc).bits();
    }
}

#[derive(Clone, Debug)]
enum Plug {
    /// `spelled` = the settings contain the key enableNormalize; without it the plugin must behave as with `true`
    Numeric { normalize: bool, spelled: bool },
    Katakana { min_length: usize, pos: usize },
}

const OOV_POS: [[&str; 6]; 7] = [
    ["名詞", "普通名詞", "一般", "*", "*", "*"],
    ["名詞", "固有名詞", "地名", "一般", "*", "*"],
    ["補助記号", "一般", "*", "*", "*", "*"],
    // user-defined parts of speech: not in any lexicon, introduced by an OOV provider with "userPOS": "allow"
    // (only the `upos-` variants below configure such a provider)
    ["名詞", "普通名詞", "未知語", "*", "*", "*"],
    ["感動詞", "フィラー", "カタカナ", "*", "*", "*"],
    // parts of speech with a `*` IN FRONT OF a specified level (conjugating words), whose family (same leading levels) has
    // several members in the grammar's table, the prescribed one NOT the first: 動詞,非自立可能,*,*,五段-カ行 has 終止形-一般
    // (行く, row 8 of lex.csv) before 連用形-促音便 (行っ); 助動詞,*,*,*,助動詞-タ has 終止形-一般 (た, row 1) before the 連体形-一般
    // of FAMILY_ROWS.  The merged token must carry exactly these six components.
    ["動詞", "非自立可能", "*", "*", "五段-カ行", "連用形-促音便"],
    ["助動詞", "*", "*", "*", "助動詞-タ", "連体形-一般"],
];
/// appended after every other row of both lexicons (word ids that other rows refer to stay valid)
const FAMILY_ROWS: &str = "\
だっ,1,1,9000,だっ,助動詞,*,*,*,助動詞-タ,連体形-一般,ダッ,だ,*,A,*,*,*,*
";
const NUM_POS: [&str; 6] = ["名詞", "数詞", "*", "*", "*", "*"];

fn plug_json(p: &Plug) -> Value {
    match p {
        Plug::Numeric { normalize, spelled: true } => json!({"class": "com.worksap.nlp.sudachi.JoinNumericPlugin", "enableNormalize": normalize}),
        Plug::Numeric { spelled: false, .. } => json!({"class": "com.worksap.nlp.sudachi.JoinNumericPlugin"}),
        Plug::Katakana { min_length, pos } => json!({"class": "com.worksap.nlp.sudachi.JoinKatakanaOovPlugin", "oovPOS": OOV_POS[*pos], "minLength": min_length}),
    }
}

struct Variant {
    name: String,
    plugs: Vec<Plug>,
    base: JapaneseDictionary,
    with: JapaneseDictionary,
    num_pos: u16,
    oov_pos: Vec<u16>,
    input_plugin: bool,
}

/// id of a part of speech by EXACT comparison of all six components with the grammar's table (independent of
/// Grammar::get_part_of_speech_id, the lookup the plugins' set_up uses)
fn exact_pos_id(d: &JapaneseDictionary, p: &[&str]) -> Option<u16> {
    d.grammar().pos_list.iter().position(|q| q.len() == p.len() && q.iter().zip(p.iter()).all(|(a, b)| a == b)).map(|i| i as u16)
}
fn pos_id(d: &JapaneseDictionary, p: &[&str]) -> u16 {
    exact_pos_id(d, p).expect("part of speech exists in the dictionary")
}

fn coq_node(n: &Node) -> String {
    format!("mkN {} {} {} {} {} {} {} {} {} {} {} {} {}", n.bc, n.ec, n.b, n.b + n.text.len(), ctext(&n.surf), ctext(&n.norm), ctext(&n.dform), ctext(&n.rform), cn(n.extra), cn(n.pos), cbool(n.oov), cn(n.cats), cn(n.cat0))
}

fn coq_plug(v: &Variant, p: &Plug) -> String {
    match p {
        Plug::Numeric { normalize, .. } => format!("PNumeric {} {}", cbool(*normalize), cn(v.num_pos)),
        Plug::Katakana { min_length, pos } => format!("PKatakana {} {}", min_length, cn(v.oov_pos[*pos])),
    }
}

/// independent oracle: `out` arises from `inp` by merging consecutive groups; returns the first discrepancy
fn grouping_oracle(v: &Variant, text: &str, inp: &[Node], out: &[Node]) -> Option<String> {
    let joined: String = out.iter().map(|n| n.text.as_str()).collect();
    if joined != text {
        return Some(format!("surfaces with plugins concatenate to {:?}, not to the input", joined));
    }
    let renorm = v.plugs.iter().any(|p| matches!(p, Plug::Numeric { normalize: true, .. }));
    let mut allowed: Vec<u16> = vec![];
    for p in &v.plugs {
        match p {
            Plug::Numeric { .. } => allowed.push(v.num_pos),
            Plug::Katakana { pos, .. } => allowed.push(v.oov_pos[*pos]),
        }
    }
    // what every morpheme REPORTS must be the text it covers (surface() slices by the node's byte range,
    // begin()/end() come from its code-point range): both views have to agree, merged or not
    for m in out.iter().chain(inp.iter()) {
        if text.get(m.b..m.e) != Some(m.text.as_str()) {
            return Some(format!("token at bytes {}..{} reports surface {:?} but covers {:?}", m.b, m.e, m.text, text.get(m.b..m.e)));
        }
    }
    let kat_bit = 128u32; // CategoryType::KATAKANA (cats are only filled for the variants without input-text plugin)
    let kat_pos: Option<u16> = v.plugs.iter().find_map(|p| match p { Plug::Katakana { pos, .. } => Some(v.oov_pos[*pos]), _ => None });
    let mut k = 0;
    for m in out {
        let start = k;
        if k >= inp.len() || inp[k].b != m.b {
            return Some(format!("token {:?} at {}..{} does not start at a boundary of the analysis without plugins", m.text, m.b, m.e));
        }
        while k < inp.len() && inp[k].e < m.e {
            k += 1;
        }
        if k >= inp.len() || inp[k].e != m.e {
            return Some(format!("token {:?} at {}..{} does not end at a boundary of the analysis without plugins", m.text, m.b, m.e));
        }
        k += 1;
        let g = &inp[start..k];
        if g.len() == 1 {
            let n = &g[0];
            let same = n.surf == m.surf && n.norm == m.norm && n.dform == m.dform && n.rform == m.rform && n.pos == m.pos && n.oov == m.oov && n.bc == m.bc && n.ec == m.ec
                && n.extra == m.extra && n.split_a == m.split_a && n.split_b == m.split_b;
            let renormed = renorm && n.surf == m.surf && n.pos == m.pos && n.pos == v.num_pos && m.extra == 0 && m.split_a == 1 && m.split_b == 1;
            if !same && !renormed {
                return Some(format!("token {:?} is not part of a merge but differs from the analysis without plugins: {:?} vs {:?}", m.text, n, m));
            }
        } else {
            if m.extra != 0 {
                return Some(format!("merged token {:?} carries split lists / word structure / synonym group ids (bits {:#x}) of its parts; a token built by a plugin has none", m.text, m.extra));
            }
            if m.split_a != 1 || m.split_b != 1 {
                return Some(format!("merged token {:?} is split again on demand: split(A) gives {} tokens, split(B) {}", m.text, m.split_a, m.split_b));
            }
            let s: String = g.iter().map(|n| n.surf.as_str()).collect();
            if s != m.surf {
                return Some(format!("merged token {:?}: dictionary-side surface {:?} is not the concatenation {:?}", m.text, m.surf, s));
            }
            if m.bc != g[0].bc || m.ec != g[g.len() - 1].ec {
                return Some(format!("merged token {:?}: code-point range {}..{} is not the union of the merged ranges", m.text, m.bc, m.ec));
            }
            let t: String = g.iter().map(|n| n.text.as_str()).collect();
            if t != m.text || m.b != g[0].b || m.e != g[g.len() - 1].e {
                return Some(format!("merged token at bytes {}..{} reports surface {:?}; the merged tokens cover {}..{} = {:?}", m.b, m.e, m.text, g[0].b, g[g.len() - 1].e, t));
            }
            if !allowed.contains(&m.pos) {
                return Some(format!("merged token {:?}: part of speech id {} is not one the plugins prescribe {:?}", m.text, m.pos, allowed));
            }
            if !v.input_plugin {
                // which plugin can have made this merge: the katakana plugin only merges nodes whose characters are all katakana,
                // the numeral plugin never does
                let by_katakana = g.iter().all(|n| n.cats & kat_bit == kat_bit);
                let (want_pos, want_oov, who) = if by_katakana {
                    (kat_pos.unwrap_or(u16::MAX), g.iter().any(|n| n.oov), "JoinKatakanaOov: configured oovPOS, OOV iff a part is OOV")
                } else {
                    (v.num_pos, true, "JoinNumeric: 名詞,数詞, word id INVALID (reported as OOV)")
                };
                if m.pos != want_pos {
                    return Some(format!("merged token {:?} (parts {:?}) carries part of speech id {}, prescribed is {} [{}]", m.text, g.iter().map(|n| (n.text.clone(), n.pos)).collect::<Vec<_>>(), m.pos, want_pos, who));
                }
                if m.oov != want_oov {
                    return Some(format!("merged token {:?}: is_oov() = {}, word id rule gives {} [{}]", m.text, m.oov, want_oov, who));
                }
            }
        }
    }
    if k != inp.len() {
        return Some("tokens of the analysis without plugins were dropped at the end".to_string());
    }
    None
}

fn run_case(sink: &mut Sink, v: &Variant, text: &str, tag: &str, verbose: bool) {
    let d = json!({"kind": "rewrite", "variant": v.name, "text": text, "tag": tag});
    let inp = analyse(&v.base, text);
    let out = analyse(&v.with, text);
    let (mut inp, out) = match (inp, out) {
        (Ok(a), Ok(b)) => (a, b),
        (Err(a), Err(_)) => {
            // the analysis itself fails irrespective of the plugins: not a C14 matter
            sink.tag(&format!("analysis_fails_without_plugins:{}", &a[..a.len().min(12)]));
            return;
        }
        (Ok(_), Err(e)) => {
            let id = sink.case_rust_only(d, true);
            sink.fail(id, &format!("{:?} analyses without path-rewrite plugins but fails with them: {}", text, e), "");
            return;
        }
        (Err(e), Ok(_)) => {
            let id = sink.case_rust_only(d, true);
            sink.fail(id, &format!("{:?} fails without path-rewrite plugins ({}) but analyses with them", text, e), "");
            return;
        }
    };
    if verbose {
        println!("without plugins:");
        for n in &inp {
            println!("  {:?}", n);
        }
        println!("with plugins {:?}:", v.plugs);
        for n in &out {
            println!("  {:?}", n);
        }
    }
    sink.tag(&format!("variant:{}", v.name));
    sink.tag(tag);
    let merged = out.len() < inp.len();
    sink.tag(if merged { "some_merge" } else { "no_merge" });
    let id = if v.input_plugin {
        sink.case_rust_only(d, merged)
    } else {
        fill_cats(v.base.grammar(), text, &mut inp);
        let term = format!(
            "check_rewrite {} {} {}",
            clist(v.plugs.iter().map(|p| coq_plug(v, p))),
            clist(inp.iter().map(coq_node)),
            clist(out.iter().map(coq_node))
        );
        sink.case(term, d, merged)
    };
    if let Some(why) = grouping_oracle(v, text, &inp, &out) {
        sink.fail(id, &format!("{:?} [{}]: {}", text, v.name, why), "");
    }
    // the same comparison in a split mode: merged tokens must stay merged (they have no split lists), everything else is
    // split exactly as without the plugins
    let mode = if (sink.len() + text.len()) % 2 == 0 { Mode::A } else { Mode::B };
    mode_case(sink, v, text, mode, verbose);
    // ... and with the word-info fields restricted (set_subset / Python fields=): one subset per case, all for directed texts
    if tag == "text:directed" || tag == "replay" {
        for k in 0..SUBSETS.len() {
            subset_case(sink, v, text, k, verbose);
        }
    } else {
        subset_case(sink, v, text, (sink.len() + text.len()) % SUBSETS.len(), verbose);
    }
}

// ------------------------------------------------------------------------------------------------ restricted fields
/// field subsets that contain POS_ID (the numeral plugin needs it) but do not load the dictionary-side surface
const SUBSETS: [(&str, u32); 4] = [("POS_ID", 0), ("POS_ID|NORMALIZED_FORM", 1), ("POS_ID|NORMALIZED_FORM|READING_FORM", 2), ("POS_ID|SPLIT_A|SPLIT_B", 3)];

fn subset_of(k: usize) -> sudachi::dic::subset::InfoSubset {
    use sudachi::dic::subset::InfoSubset as S;
    match k {
        0 => S::POS_ID,
        1 => S::POS_ID | S::NORMALIZED_FORM,
        2 => S::POS_ID | S::NORMALIZED_FORM | S::READING_FORM,
        _ => S::POS_ID | S::SPLIT_A | S::SPLIT_B,
    }
}

/// byte ranges reported by a StatefulTokenizer restricted to the subset
fn analyse_subset(dict: &JapaneseDictionary, text: &str, k: usize) -> Result<Vec<(usize, usize)>, String> {
    use sudachi::analysis::stateful_tokenizer::StatefulTokenizer;
    use sudachi::prelude::MorphemeList;
    let r = catch(|| {
        let mut tok = StatefulTokenizer::create(dict, false, Mode::C);
        tok.set_subset(subset_of(k));
        tok.reset().push_str(text);
        tok.do_tokenize().map_err(|e| format!("{:?}", e))?;
        let mut list = MorphemeList::empty(dict);
        list.collect_results(&mut tok).map_err(|e| format!("{:?}", e))?;
        Ok::<_, String>(list.iter().map(|m| (m.begin(), m.end())).collect::<Vec<_>>())
    });
    match r {
        Ok(Ok(v)) => Ok(v),
        Ok(Err(e)) => Err(format!("Err({})", e)),
        Err(p) => Err(format!("Panic({})", p)),
    }
}

/// "tokens are only merged, never dropped": with the plugins the analysis succeeds whenever it succeeds without them,
/// it covers the same text, and its boundaries are a subset of the plugin-free ones
fn subset_case(sink: &mut Sink, v: &Variant, text: &str, k: usize, verbose: bool) {
    let d = json!({"kind": "rewrite_subset", "variant": v.name, "text": text, "subset": SUBSETS[k].0, "subset_index": k});
    let inp = analyse_subset(&v.base, text, k);
    let out = analyse_subset(&v.with, text, k);
    if verbose {
        println!("fields {}: without plugins {:?}, with plugins {:?}", SUBSETS[k].0, inp, out);
    }
    match (inp, out) {
        (Err(_), Err(_)) => {}
        (Ok(a), Ok(b)) => {
            sink.tag(&format!("fields:{}", SUBSETS[k].0));
            let id = sink.case_rust_only(d, b.len() < a.len());
            let cuts = |x: &Vec<(usize, usize)>| x.iter().flat_map(|r| [r.0, r.1]).collect::<std::collections::BTreeSet<usize>>();
            let (ca, cb) = (cuts(&a), cuts(&b));
            let chain = |x: &Vec<(usize, usize)>| x.windows(2).all(|w| w[0].1 == w[1].0) && x.first().map_or(true, |r| r.0 == 0) && x.last().map_or(text.is_empty(), |r| r.1 == text.len());
            if !cb.is_subset(&ca) {
                sink.fail(id, &format!("{:?} [{}] with fields {}: boundaries with plugins {:?} are not a subset of those without {:?}", text, v.name, SUBSETS[k].0, b, a), "");
            } else if !chain(&b) {
                sink.fail(id, &format!("{:?} [{}] with fields {}: tokens with plugins {:?} do not cover the text", text, v.name, SUBSETS[k].0, b), "");
            }
        }
        (Ok(_), Err(e)) => {
            let id = sink.case_rust_only(d, true);
            sink.fail(id, &format!("{:?} [{}] with fields {} analyses without path-rewrite plugins but fails with them: {}", text, v.name, SUBSETS[k].0, e), "");
        }
        (Err(e), Ok(_)) => {
            let id = sink.case_rust_only(d, true);
            sink.fail(id, &format!("{:?} [{}] with fields {} fails without path-rewrite plugins ({}) but analyses with them", text, v.name, SUBSETS[k].0, e), "");
        }
    }
}

fn mode_name(m: Mode) -> &'static str {
    match m {
        Mode::A => "A",
        Mode::B => "B",
        Mode::C => "C",
    }
}

fn mode_case(sink: &mut Sink, v: &Variant, text: &str, mode: Mode, verbose: bool) {
    let d = json!({"kind": "rewrite_mode", "variant": v.name, "text": text, "mode": mode_name(mode)});
    let (mut inp, out) = match (analyse_mode(&v.base, text, mode), analyse_mode(&v.with, text, mode)) {
        (Ok(a), Ok(b)) => (a, b),
        (Err(_), Err(_)) => return,
        (a, b) => {
            let id = sink.case_rust_only(d, true);
            sink.fail(id, &format!("{:?} [{}] mode {}: without plugins {:?}, with plugins {:?}", text, v.name, mode_name(mode), a.err(), b.err()), "");
            return;
        }
    };
    if verbose {
        println!("mode {} without plugins:", mode_name(mode));
        for n in &inp {
            println!("  {:?}", n);
        }
        println!("mode {} with plugins:", mode_name(mode));
        for n in &out {
            println!("  {:?}", n);
        }
    }
    if !v.input_plugin {
        fill_cats(v.base.grammar(), text, &mut inp);
    }
    sink.tag(&format!("mode:{}", mode_name(mode)));
    let id = sink.case_rust_only(d, out.len() < inp.len());
    if let Some(why) = grouping_oracle(v, text, &inp, &out) {
        sink.fail(id, &format!("{:?} [{}] mode {}: {}", text, v.name, mode_name(mode), why), "");
    }
}

/// second lexicon: some numeral characters are NOT numerals (4, 四, 9 are common nouns, 億 too), the separators
/// "," and "." have no entry (OOV tokens inside numeral runs, head_word_length 0), katakana words with other parts of speech.
/// Rows are rewritten in place so that the word ids other rows refer to stay valid.
const ALT_ROWS: &str = "\
十,9,9,2478,十,名詞,数詞,*,*,*,*,ジュウ,十,*,A,*,*,*,*
百,9,9,2478,百,名詞,数詞,*,*,*,*,ヒャク,百,*,A,*,*,*,*
千,9,9,2478,千,名詞,数詞,*,*,*,*,セン,千,*,A,*,*,*,*
万,9,9,2478,万,名詞,数詞,*,*,*,*,マン,万,*,A,*,*,*,*
億,7,7,2478,億,名詞,普通名詞,一般,*,*,*,オク,億,*,A,*,*,*,*
円,8,8,3000,円,名詞,普通名詞,助数詞可能,*,*,*,エン,円,*,A,*,*,*,*
コーヒー,7,7,4000,コーヒー,名詞,普通名詞,一般,*,*,*,コーヒー,コーヒー,*,A,*,*,*,*
カップ,6,6,4000,カップ,名詞,固有名詞,地名,一般,*,*,カップ,カップ,*,A,*,*,*,*
テスト,4,4,4000,テスト,動詞,非自立可能,*,*,五段-カ行,終止形-一般,テスト,テスト,*,A,*,*,*,*
メ,3,3,4000,メ,助詞,格助詞,*,*,*,*,メ,メ,*,A,*,*,*,*
";

fn compile_alt() -> Vec<u8> {
    use sudachi::dic::build::DictBuilder;
    let lex = String::from_utf8(crate::c15::read_repo("sudachi/tests/resources/lex.csv")).unwrap();
    let mut out = String::new();
    let mut changed = 0;
    for line in lex.lines() {
        let head = line.split(',').next().unwrap_or("");
        if ["4", "四", "9"].contains(&head) && line.contains(",名詞,数詞,*,*,*,*,") {
            out.push_str(&line.replace(",名詞,数詞,*,*,*,*,", ",名詞,普通名詞,一般,*,*,*,"));
            changed += 1;
        } else {
            out.push_str(line);
        }
        out.push('\n');
    }
    assert_eq!(changed, 3, "rows of 4 / 四 / 9 found in tests/resources/lex.csv");
    out.push_str(ALT_ROWS);
    out.push_str(&attr_rows(46, 47, 52, 53));
    out.push_str(HEADWORD_ROWS);
    out.push_str(FAMILY_ROWS);
    let conn = crate::c15::read_repo("sudachi/tests/resources/matrix_10x10.def");
    let mut b = DictBuilder::new_system();
    b.read_conn(&conn[..]).expect("matrix");
    b.read_lexicon(out.as_bytes()).expect("lexicon");
    b.resolve().expect("resolve");
    let mut bytes = Vec::new();
    b.compile(&mut bytes).expect("compile");
    bytes
}

/// words that carry A/B split lists, word structure and synonym group ids (numerals and katakana words), and katakana
/// words whose headword (dictionary-side surface) is written differently from their index form.
/// Word ids: rows 0..45 of lex.csv (二 = 25, 三 = 26), then the appended rows in order.
fn attr_rows(juu: u32, hyaku: u32, coffee: u32, cup: u32) -> String {
    format!(
        "二十,9,9,2000,二十,名詞,数詞,*,*,*,*,ニジュウ,二十,*,C,25/{j},25/{j},25/{j},1/2\n\
         三百,9,9,2000,三百,名詞,数詞,*,*,*,*,サンビャク,三百,*,C,26/{h},*,26/{h},3\n\
         コーヒーカップ,7,7,3000,コーヒーカップ,名詞,普通名詞,一般,*,*,*,コーヒーカップ,コーヒーカップ,*,C,{c}/{k},{c}/{k},{c}/{k},4/5\n\
         テレビ,7,7,3000,ﾃﾚﾋﾞ,名詞,普通名詞,一般,*,*,*,テレビ,テレビ,*,A,*,*,*,6\n\
         キロ,7,7,3000,㌔,名詞,普通名詞,助数詞可能,*,*,*,キロ,キロ,*,A,*,*,*,*\n\
         一,9,9,2400,一,名詞,数詞,*,*,*,*,ヒト,一,*,A,*,*,*,7/8\n",
        j = juu, h = hyaku, c = coffee, k = cup
    )
}

/// numeral-class words whose headword (dictionary-side surface, what concat_nodes concatenates) does NOT have the byte
/// length of the text they match (the lookup key): full-width key with ASCII / kanji headword, ASCII key with full-width
/// headword (cheaper than the row of lex.csv, so that it is the one on the path), kanji key with ASCII headword.
/// Appended last to both lexicons: the word ids other rows refer to stay valid.
const HEADWORD_ROWS: &str = "\
８,9,9,2478,8,名詞,数詞,*,*,*,*,ハチ,8,*,A,*,*,*,*
７,9,9,2478,七,名詞,数詞,*,*,*,*,ナナ,7,*,A,*,*,*,*
３,9,9,2478,３３,名詞,数詞,*,*,*,*,サン,3,*,A,*,*,*,*
8,9,9,1200,８,名詞,数詞,*,*,*,*,ハチ,8,*,A,*,*,*,*
六,9,9,1200,6,名詞,数詞,*,*,*,*,ロク,六,*,A,*,*,*,*
";

fn variants(work: &std::path::Path) -> Vec<Variant> {
    let mut vs = variants_of(work, "", &compile_system(&format!("{}{}{}{}", EXTRA_ROWS, attr_rows(46, 47, 55, 56), HEADWORD_ROWS, FAMILY_ROWS)), true);
    vs.extend(variants_of(work, "alt-", &compile_alt(), false));
    vs
}

fn variants_of(work: &std::path::Path, prefix: &str, dic: &[u8], all_chains: bool) -> Vec<Variant> {
    let dic = dic.to_vec();
    let chains: Vec<(&str, Vec<Plug>)> = vec![
        ("num+kat3", vec![Plug::Numeric { normalize: true, spelled: true }, Plug::Katakana { min_length: 3, pos: 0 }]),
        ("numraw+kat1", vec![Plug::Numeric { normalize: false, spelled: true }, Plug::Katakana { min_length: 1, pos: 0 }]),
        ("kat2", vec![Plug::Katakana { min_length: 2, pos: 1 }]),
        ("num", vec![Plug::Numeric { normalize: true, spelled: true }]),
        ("kat5+num", vec![Plug::Katakana { min_length: 5, pos: 0 }, Plug::Numeric { normalize: true, spelled: true }]),
        ("num+kat0", vec![Plug::Numeric { normalize: true, spelled: true }, Plug::Katakana { min_length: 0, pos: 2 }]),
        ("numraw", vec![Plug::Numeric { normalize: false, spelled: true }]),
        ("kat9", vec![Plug::Katakana { min_length: 9, pos: 0 }]),
        // oovPOS differs from the part of speech of the katakana dictionary words: a run joined only because of minLength
        // (アイ next to アイウ: no unknown word in it) must still carry the configured oovPOS
        // the key enableNormalize ABSENT from the settings: the documented default is normalisation on
        ("numdef", vec![Plug::Numeric { normalize: true, spelled: false }]),
        ("numdef+kat3", vec![Plug::Numeric { normalize: true, spelled: false }, Plug::Katakana { min_length: 3, pos: 0 }]),
        ("kat3p1", vec![Plug::Katakana { min_length: 3, pos: 1 }]),
        // oovPOS with `*` before a specified level, not the first member of its family
        ("kat3v", vec![Plug::Katakana { min_length: 3, pos: 5 }]),
        ("num+kat2j", vec![Plug::Numeric { normalize: true, spelled: true }, Plug::Katakana { min_length: 2, pos: 6 }]),
        ("num+kat4p2", vec![Plug::Numeric { normalize: true, spelled: true }, Plug::Katakana { min_length: 4, pos: 2 }]),
    ];
    let mut vs = vec![];
    for (cd_name, cd) in [("res", "resources/char.def"), ("test", "sudachi/tests/resources/char.def")] {
        let res = resource_dir(work, &format!("res_c14_{}", cd_name), cd);
        for (name, plugs) in &chains {
            if !all_chains && ["num+kat0", "kat9"].contains(name) {
                continue;
            }
            for input_plugin in [false, true] {
                if input_plugin && !(*name == "num+kat3" || *name == "numraw+kat1") {
                    continue;
                }
                let pr = Value::Array(plugs.iter().map(plug_json).collect());
                let (base, with) = if input_plugin {
                    (load_dict(&dic, &res, json!([])), load_dict(&dic, &res, pr))
                } else {
                    (load_dict_plain(&dic, &res, json!([])), load_dict_plain(&dic, &res, pr))
                };
                let num_pos = pos_id(&base, &NUM_POS);
                let oov_pos = OOV_POS.iter().map(|p| exact_pos_id(&base, p).unwrap_or(u16::MAX)).collect();
                vs.push(Variant { name: format!("{}{}/{}{}", prefix, cd_name, name, if input_plugin { "/nfkc" } else { "" }), plugs: plugs.clone(), base, with, num_pos, oov_pos, input_plugin });
            }
        }
    }
    vs
}

// ------------------------------------------------------------------------------------------------ user-defined POS
fn try_load(dic: &[u8], res: &std::path::Path, oov: &Value, path_rewrite: Value) -> Result<JapaneseDictionary, String> {
    use sudachi::config::ConfigBuilder;
    use sudachi::dic::storage::{Storage, SudachiDicData};
    let cfg = json!({"path": res.to_string_lossy(), "characterDefinitionFile": "char.def", "inputTextPlugin": [],
                     "oovProviderPlugin": oov, "pathRewritePlugin": path_rewrite});
    match catch(|| {
        let cfg = ConfigBuilder::from_bytes(cfg.to_string().as_bytes()).map_err(|e| format!("{:?}", e))?.build();
        JapaneseDictionary::from_cfg_storage(&cfg, SudachiDicData::new(Storage::Owned(dic.to_vec()))).map_err(|e| format!("{:?}", e))
    }) {
        Ok(r) => r,
        Err(p) => Err(format!("Panic({})", p)),
    }
}

/// Configurations in which the part of speech JoinKatakanaOovPlugin assigns is a USER-DEFINED one that only an OOV provider
/// ("userPOS": "allow": Simple / Regex / MeCab through unk.def) introduces.  A configuration that loads without the
/// path-rewrite plugins and names only parts of speech that exist by the time the OOV providers are set up must load with
/// them too (a configuration that cannot be loaded is reported as a failing case), and merged tokens carry that POS.
fn user_pos_variants(sink: &mut Sink, work: &std::path::Path, dic: &[u8]) -> Vec<Variant> {
    let res = resource_dir(work, "res_c14_upos", "resources/char.def");
    // unk.def for the MeCab provider: ids inside the 10x10 matrix, katakana / default words get the user-defined POS
    let u = OOV_POS[3].join(",");
    std::fs::write(
        res.join("unk.def"),
        format!("DEFAULT,8,8,6000,{u}\nKATAKANA,8,8,5000,{u}\nKATAKANA,7,7,5500,名詞,普通名詞,一般,*,*,*\nALPHA,8,8,5000,名詞,普通名詞,一般,*,*,*\nNUMERIC,9,9,5000,名詞,数詞,*,*,*,*\n", u = u),
    )
    .unwrap();
    let simple = |pos: usize, allow: bool| {
        let mut v = json!({"class": "com.worksap.nlp.sudachi.SimpleOovPlugin", "oovPOS": OOV_POS[pos], "leftId": 8, "rightId": 8, "cost": 6000});
        if allow {
            v["userPOS"] = json!("allow");
        }
        v
    };
    let regex = json!({"class": "com.worksap.nlp.sudachi.RegexOovProvider", "oovPOS": OOV_POS[4], "leftId": 7, "rightId": 7, "cost": 3000,
                       "regex": "[ァ-ヶー]+", "maxLength": 20, "boundaries": "relaxed", "userPOS": "allow"});
    let mecab = json!({"class": "com.worksap.nlp.sudachi.MeCabOovPlugin", "charDef": "char.def", "unkDef": "unk.def", "userPOS": "allow"});
    let stacks: Vec<(&str, Value, Vec<Plug>)> = vec![
        ("simple/kat3u", json!([simple(3, true)]), vec![Plug::Katakana { min_length: 3, pos: 3 }]),
        ("simple/num+kat2u", json!([simple(3, true)]), vec![Plug::Numeric { normalize: true, spelled: true }, Plug::Katakana { min_length: 2, pos: 3 }]),
        ("regex+simple/kat3f", json!([regex, simple(0, false)]), vec![Plug::Katakana { min_length: 3, pos: 4 }]),
        ("regex+simple/kat1f+num", json!([regex, simple(3, true)]), vec![Plug::Katakana { min_length: 1, pos: 4 }, Plug::Numeric { normalize: false, spelled: true }]),
        ("mecab+simple/kat4u", json!([mecab, simple(0, false)]), vec![Plug::Katakana { min_length: 4, pos: 3 }]),
        ("mecab+simple/num+kat3u", json!([mecab, simple(3, true)]), vec![Plug::Numeric { normalize: true, spelled: false }, Plug::Katakana { min_length: 3, pos: 3 }]),
    ];
    let mut vs = vec![];
    for (name, oov, plugs) in stacks {
        let name = format!("upos-{}", name);
        let pr = Value::Array(plugs.iter().map(plug_json).collect());
        let d = json!({"kind": "rewrite_load", "variant": name, "oovProviderPlugin": oov, "pathRewritePlugin": pr, "text": ""});
        sink.tag("user_pos_configuration");
        let base = match try_load(dic, &res, &oov, json!([])) {
            Ok(b) => b,
            Err(e) => {
                // not loadable even without the path-rewrite plugins: outside the statement (and unexpected: reported)
                let id = sink.case_rust_only(d, true);
                sink.fail(id, &format!("configuration {} does not load even without path-rewrite plugins: {}", name, e), "");
                continue;
            }
        };
        match try_load(dic, &res, &oov, pr.clone()) {
            Ok(with) => {
                let num_pos = pos_id(&base, &NUM_POS);
                let oov_pos: Vec<u16> = OOV_POS.iter().map(|p| exact_pos_id(&base, p).unwrap_or(u16::MAX)).collect();
                let id = sink.case_rust_only(d, true);
                // the ids the plugins resolved are those of the analysis without them
                for p in &plugs {
                    if let Plug::Katakana { pos, .. } = p {
                        if oov_pos[*pos] == u16::MAX || exact_pos_id(&with, &OOV_POS[*pos]) != Some(oov_pos[*pos]) {
                            sink.fail(id, &format!("configuration {}: the user-defined part of speech {:?} has no / another id with the path-rewrite plugins", name, OOV_POS[*pos]), "");
                        }
                    }
                }
                vs.push(Variant { name, plugs, base, with, num_pos, oov_pos, input_plugin: false });
            }
            Err(e) => {
                let id = sink.case_rust_only(d, true);
                sink.fail(
                    id,
                    &format!("configuration {} (OOV providers {}, path-rewrite plugins {}) loads without the path-rewrite plugins but not with them: {} -- every part of speech they name exists once the OOV providers are set up", name, oov, pr, e),
                    "",
                );
            }
        }
    }
    vs
}

/// as c15::load_dict but without the input-text plugin (the modified text is the original text)
fn load_dict_plain(dic: &[u8], res: &std::path::Path, path_rewrite: Value) -> JapaneseDictionary {
    use sudachi::config::ConfigBuilder;
    use sudachi::dic::storage::{Storage, SudachiDicData};
    let cfg = json!({
        "path": res.to_string_lossy(),
        "characterDefinitionFile": "char.def",
        "inputTextPlugin": [],
        "oovProviderPlugin": [{"class": "com.worksap.nlp.sudachi.SimpleOovPlugin",
                               "oovPOS": ["名詞", "普通名詞", "一般", "*", "*", "*"], "leftId": 8, "rightId": 8, "cost": 6000}],
        "pathRewritePlugin": path_rewrite,
    });
    let cfg = ConfigBuilder::from_bytes(cfg.to_string().as_bytes()).unwrap().build();
    JapaneseDictionary::from_cfg_storage(&cfg, SudachiDicData::new(Storage::Owned(dic.to_vec()))).expect("dictionary loads")
}


// ------------------------------------------------------------------------------------------------ termination probe
/// third lexicon: numeral-class words whose NORMALISED FORM contains separator characters (the numeral plugin feeds
/// normalised forms, not surfaces, to its parser).  Rows appended to the alt lexicon.
const SEPNORM_ROWS: &str = "\
８,9,9,2478,８,名詞,数詞,*,*,*,*,ハチ,\",\",*,A,*,*,*,*
７,9,9,2478,７,名詞,数詞,*,*,*,*,ナナ,\"1,,2\",*,A,*,*,*,*
６,9,9,2478,６,名詞,数詞,*,*,*,*,ロク,.5,*,A,*,*,*,*
５,9,9,2478,５,名詞,数詞,*,*,*,*,ゴ,5.,*,A,*,*,*,*
３,9,9,2478,３,名詞,数詞,*,*,*,*,サン,\"3,000\",*,A,*,*,*,*
";

/// analysis in a helper thread; None = no answer within `ms` milliseconds (the thread is abandoned)
fn analyse_with_timeout(dict: std::sync::Arc<JapaneseDictionary>, text: &str, ms: u64) -> Option<Result<Vec<Node>, String>> {
    let (tx, rx) = std::sync::mpsc::channel();
    let t = text.to_string();
    std::thread::spawn(move || {
        let r = analyse(&dict, &t);
        let _ = tx.send(r);
    });
    rx.recv_timeout(std::time::Duration::from_millis(ms)).ok()
}

fn termination_probe(sink: &mut Sink, work: &std::path::Path, only: Option<&str>, verbose: bool) {
    use sudachi::dic::build::DictBuilder;
    let mut lex = String::from_utf8(crate::c15::read_repo("sudachi/tests/resources/lex.csv")).unwrap();
    lex.push('\n');
    lex.push_str(ALT_ROWS);
    lex.push_str(SEPNORM_ROWS);
    let conn = crate::c15::read_repo("sudachi/tests/resources/matrix_10x10.def");
    let mut b = DictBuilder::new_system();
    b.read_conn(&conn[..]).expect("matrix");
    b.read_lexicon(lex.as_bytes()).expect("lexicon");
    b.resolve().expect("resolve");
    let mut dic = Vec::new();
    b.compile(&mut dic).expect("compile");
    let res = resource_dir(work, "res_c14_res", "resources/char.def");
    let texts = ["８", "1８", "７円", "６", "12６3", "５５", "３,５", "1,３", "８７６５３", "1.５.2", "に３８７", "５,６,７"];
    for normalize in [true, false] {
        let pr = json!([{"class": "com.worksap.nlp.sudachi.JoinNumericPlugin", "enableNormalize": normalize}]);
        let with = std::sync::Arc::new(load_dict_plain(&dic, &res, pr));
        for t in texts.iter() {
            if let Some(o) = only {
                if o != *t {
                    continue;
                }
            }
            let d = json!({"kind": "termination", "text": t, "normalize": normalize});
            sink.tag("termination_probe:separator_in_normalized_form");
            let id = sink.case_rust_only(d, true);
            match analyse_with_timeout(with.clone(), t, 2500) {
                None => sink.fail(id, &format!("{:?} (numeral-class word whose normalised form contains a separator, enableNormalize={}): the analysis does not terminate (no answer after 2.5 s; the numeral-joining loop restarts the same run for ever)", t, normalize), ""),
                Some(Err(e)) => sink.fail(id, &format!("{:?}: analysis fails with the numeral plugin: {}", t, e), ""),
                Some(Ok(v)) => {
                    if verbose {
                        for n in &v {
                            println!("  {:?}", n);
                        }
                    }
                    let joined: String = v.iter().map(|n| n.text.as_str()).collect();
                    if joined != *t {
                        sink.fail(id, &format!("{:?}: surfaces concatenate to {:?}", t, joined), "");
                    }
                }
            }
        }
    }
}

const PIECES_KATA: [&str; 20] = ["テレビ", "キロ", "コーヒーカップ", "テレビゲーム", "アイ", "アイウ", "コーヒー", "カップ", "アイアイウ", "ラ", "ラーメン", "ァ", "ァイ", "ー", "メ", "ヴ", "ン", "テスト", "ア", "イウ"];
const PIECES_NUM: [&str; 38] = ["二十", "三百", "二十万", "0", "1", "2", "5", "9", "〇", "一", "二", "三", "九", "十", "百", "千", "万", "億", "兆", ",", ".", "12", "1,000", "六三四", "3.14", "4", "四", "42", "49", "1.5", "四十", "8", "８", "７", "３", "六", "18", "８７"];
const PIECES_OTHER: [&str; 16] = ["に", "た", "京都", "東京都", "行っ", "a", "xyz", " ", "円", "。", "特a", "-", "東", "いく", "な。な", "X"];

fn gen_text(rng: &mut Rng, nfkc: bool) -> (String, &'static str) {
    let shape = rng.below(6);
    let n = 1 + rng.below(8) as usize;
    let mut s = String::new();
    for k in 0..n {
        let class = match shape {
            0 => 0,                        // katakana runs
            1 => 1,                        // numerals
            2 => if k % 2 == 0 { 0 } else { 1 }, // numerals adjacent to katakana
            _ => rng.below(3),
        };
        match class {
            0 => s.push_str(*rng.pick(&PIECES_KATA[..])),
            1 => match rng.below(6) {
                0 => s.push_str(&gen_wellformed(rng).text.chars().take(12).collect::<String>()),
                1 => s.push_str(&gen_malformed(rng).text.chars().take(12).collect::<String>()),
                _ => s.push_str(*rng.pick(&PIECES_NUM[..])),
            },
            _ => s.push_str(*rng.pick(&PIECES_OTHER[..])),
        }
    }
    if nfkc {
        // characters that the input-text plugin rewrites: full-width digits, half-width katakana
        s = s.chars().map(|c| if c.is_ascii_digit() && rng.chance(1, 2) { FULLWIDTH_DIGITS[c.to_digit(10).unwrap() as usize] } else { c }).collect();
        if rng.chance(1, 3) {
            s.push_str(*rng.pick(&["ｱｲｳ", "ﾗｰﾒﾝ", "ﾃｽﾄ"][..]));
        }
    }
    let tag = match shape {
        0 => "text:katakana_runs",
        1 => "text:numerals",
        2 => "text:numerals_next_to_katakana",
        _ => "text:mixed",
    };
    (s, tag)
}

const DIRECTED: [&str; 44] = [
    "二十万円", "三百五円", "二十", "テレビゲームを見る", "キロラ", "コーヒーカップラ", "一万", "テレビ二十キロ",
    "42円", "4.5", "1.5", "1,000円", "四十二", "9万", "49", "3.14京都", "テストメアイ", "1.5テスト", "4億", "2.50,",
    "123円20銭", "080-121", "一二三万二千円", "二百百", "1,000,000円", ",123,", "1.", ".5.", "1,2,3", "アイアイウ", "アイウアイ", "ァイアイ", "ラーメンアイウ",
    "コーヒーカップ", "アイ1アイ", "1アイウ2", "カップ3.50ー", "六三四アイ", "ァァァ", "1,", "に,1", "1.2.3", "京都に123,456.70円アイウラ", "",
];
/// numerals whose dictionary-side surface is shorter / longer than the text (HEADWORD_ROWS), alone (re-created by
/// enableNormalize), in runs, next to ordinary numerals
const DIRECTED_HEADWORD: [&str; 12] = ["東京に18", "8", "８", "８７", "88円", "３", "1８2", "六", "六8", "京都に７８３円", "8.5", "二十８"];

pub fn run(args: &Args) {
    let mut sink = Sink::new("C14", &args.out, &["Model.Rewrite", "Model.PosLookup"], args.seed, &args.tier);
    sink.shard_size = 60;
    sink.rule("the same text analysed with one dictionary (tests/resources/lex.csv + numeral units, separators, katakana words; resources/char.def or tests/resources/char.def) without path-rewrite plugins and with a plugin chain; a second lexicon makes 4 / 四 / 9 / 億 common nouns, leaves ',' and '.' out (OOV separators inside numeral runs) and gives katakana words other parts of speech; every morpheme's reported surface()/begin()/end() must be the covered text, a merged one the union / concatenation of its parts, with the part of speech and OOV flag of the plugin that can have made the merge (JoinNumeric enableNormalize true / false / key absent (= true), JoinKatakanaOov minLength 0/1/2/3/4/5/9, five OOV parts of speech of the lexicon incl. two with `*` in front of a specified level whose family has an earlier member in the grammar's table (ids by exact six-component comparison, not by Grammar::get_part_of_speech_id), and ones that differ from the part of speech of the katakana dictionary words (runs joined only because of minLength), both orders, each alone; `upos-` configurations whose oovPOS is a USER-DEFINED part of speech that only an OOV provider with userPOS=allow introduces (Simple / Regex / MeCab through unk.def): they must load with the path-rewrite plugins whenever they load without, and merged tokens carry that part of speech); texts are concatenations of katakana dictionary words / katakana OOV pieces (incl. NOOOVBOW ァ) / digits, kanji digits, units, separators, well-formed and malformed numerals / other words, the empty text, every piece alone and between blanks (paths of 0 / 1 / 2 tokens), pairs of pieces; directed sequences first (separators at text edges, numerals next to katakana runs); Coq model of both loops run on the plugin-free path must equal the result with plugins and grouping_ok must hold on it; a Rust oracle re-checks boundary subset, union range, concatenated surface, prescribed part of speech, unchanged rest; non-trivial = at least one merge; extra stream with the NFKC input-text plugin (oracle only); numeral-class words whose headword does not have the byte length of their key (full-width / kanji / ASCII headword for a key written otherwise) in both lexicons, directed and as pieces; every case additionally with the word-info fields restricted (StatefulTokenizer::set_subset: POS_ID; POS_ID|NORMALIZED_FORM; +READING_FORM; POS_ID|SPLIT_A|SPLIT_B - none loads the surface): with plugins the analysis succeeds whenever it succeeds without, covers the text, boundaries are a subset");
    let mut vs = variants(&args.work);
    // user-defined parts of speech introduced by OOV providers (both lexicons' katakana words are dictionary words there too)
    let upos_dic = compile_system(&format!("{}{}{}{}", EXTRA_ROWS, attr_rows(46, 47, 55, 56), HEADWORD_ROWS, FAMILY_ROWS));
    vs.extend(user_pos_variants(&mut sink, &args.work, &upos_dic));
    // Grammar::get_part_of_speech_id against Model/PosLookup.v: the POS table of every distinct grammar, every part of speech the
    // stacks configure (incl. those with `*` in front of a specified level and the user-defined ones), requests that are no row
    // and requests of another length
    if args.replay.is_none() {
        let mut seen: Vec<usize> = vec![];
        for v in vs.iter() {
            let g = v.base.grammar();
            if seen.contains(&g.pos_list.len()) && !v.name.starts_with("upos-") {
                continue;
            }
            seen.push(g.pos_list.len());
            let cstr = |x: &str| format!("\"{}\"%string", x.replace('"', "\"\""));
            let tbl = clist(g.pos_list.iter().map(|row| clist(row.iter().map(|c| cstr(c)))));
            let mut reqs: Vec<Vec<&str>> = OOV_POS.iter().map(|p| p.to_vec()).collect();
            reqs.push(NUM_POS.to_vec());
            reqs.push(vec!["動詞", "非自立可能", "*", "*", "五段-カ行", "*"]);
            reqs.push(vec!["動詞", "*", "*", "*", "*", "*"]);
            reqs.push(vec!["名詞", "数詞", "*", "*", "*"]);
            reqs.push(vec!["*", "*", "*", "*", "*", "*"]);
            for r in reqs {
                let got = g.get_part_of_speech_id(&r);
                let term = format!("check_pos_lookup {} {} {}", tbl, clist(r.iter().map(|c| cstr(c))), copt(got.map(|i| format!("{}%nat", i))));
                let id = sink.case(term, json!({"kind": "pos_lookup", "variant": v.name, "request": r, "answer": got}), true);
                sink.tag("pos_lookup");
                let want = if r.len() == 6 { exact_pos_id(&v.base, &r) } else { None };
                if got != want {
                    sink.fail(id, &format!("Grammar::get_part_of_speech_id({:?}) = {:?} = {:?}; the first row equal to the request is {:?}", r, got, got.map(|i| g.pos_list[i as usize].clone()), want), "");
                }
            }
        }
    }
    if let Some(p) = &args.replay {
        let r: Value = serde_json::from_str(&std::fs::read_to_string(p).unwrap()).unwrap();
        let c = &r["case"];
        if c["kind"] == "pos_lookup" {
            let name = c["variant"].as_str().unwrap();
            let v = vs.iter().find(|v| v.name == name).expect("variant of the replay exists");
            let r: Vec<String> = c["request"].as_array().unwrap().iter().map(|x| x.as_str().unwrap().to_string()).collect();
            let got = v.base.grammar().get_part_of_speech_id(&r);
            println!("POS table: {:?}\nrequest {:?} -> {:?}", v.base.grammar().pos_list, r, got);
            let rr: Vec<&str> = r.iter().map(|x| x.as_str()).collect();
            let id = sink.case_rust_only(c.clone(), true);
            if got != (if r.len() == 6 { exact_pos_id(&v.base, &rr) } else { None }) {
                sink.fail(id, &format!("Grammar::get_part_of_speech_id({:?}) = {:?}, not the first row equal to the request", r, got), "");
            }
            sink.finish();
            return;
        }
        if c["kind"] == "rewrite_load" {
            // the configurations were loaded (and failures reported) above
            sink.finish();
            return;
        }
        if c["kind"] == "termination" {
            termination_probe(&mut sink, &args.work, c["text"].as_str(), true);
            sink.finish();
            return;
        }
        let name = c["variant"].as_str().unwrap();
        let v = vs.iter().find(|v| v.name == name).expect("variant of the replay exists");
        if c["kind"] == "rewrite_subset" {
            subset_case(&mut sink, v, c["text"].as_str().unwrap(), c["subset_index"].as_u64().unwrap_or(0) as usize, true);
            sink.finish();
            return;
        }
        if c["kind"] == "rewrite_mode" {
            let mode = match c["mode"].as_str() { Some("A") => Mode::A, Some("B") => Mode::B, _ => Mode::C };
            mode_case(&mut sink, v, c["text"].as_str().unwrap(), mode, true);
            sink.finish();
            return;
        }
        run_case(&mut sink, v, c["text"].as_str().unwrap(), "replay", true);
        sink.finish();
        return;
    }
    let mut rng = Rng::new(args.seed);
    for t in DIRECTED.iter() {
        for v in vs.iter().filter(|v| !v.input_plugin) {
            if v.name.ends_with("num+kat3") || v.name.ends_with("numraw+kat1") || v.name.ends_with("kat2") || v.name.ends_with("numraw")
                || v.name.ends_with("numdef") || v.name.ends_with("numdef+kat3") || v.name.ends_with("kat3p1") || v.name.ends_with("kat3v") || v.name.ends_with("num+kat2j") || v.name.ends_with("num+kat4p2") || v.name.starts_with("upos-")
            {
                run_case(&mut sink, v, t, "text:directed", false);
            }
        }
    }
    for t in DIRECTED_HEADWORD.iter() {
        for v in vs.iter().filter(|v| !v.input_plugin) {
            if v.name.ends_with("/num") || v.name.ends_with("numraw") || v.name.ends_with("num+kat3") || v.name.ends_with("numdef") {
                run_case(&mut sink, v, t, "text:directed", false);
            }
        }
    }
    termination_probe(&mut sink, &args.work, None, false);
    let plain: Vec<&Variant> = vs.iter().filter(|v| !v.input_plugin).collect();
    let nfkc: Vec<&Variant> = vs.iter().filter(|v| v.input_plugin).collect();
    // path length as a dimension: the empty text, every piece as a text of its own (paths of one token, or of the few
    // tokens of one piece), every piece between blanks, and pairs of pieces (paths of two tokens)
    {
        let mut k = 0usize;
        let all: Vec<&str> = PIECES_KATA.iter().chain(PIECES_NUM.iter()).chain(PIECES_OTHER.iter()).cloned().collect();
        for p in std::iter::once(&"").chain(all.iter()) {
            for t in [p.to_string(), format!(" {}", p), format!("{} ", p)] {
                for _ in 0..2 {
                    run_case(&mut sink, plain[k % plain.len()], &t, "text:single_piece", false);
                    k += 7;
                }
            }
        }
        for _ in 0..args.n(150, 3000) {
            let t = format!("{}{}", rng.pick(&all[..]), rng.pick(&all[..]));
            let v = *rng.pick(&plain);
            run_case(&mut sink, v, &t, "text:two_pieces", false);
        }
    }
    for _ in 0..args.n(800, 20000) {
        let (t, tag) = gen_text(&mut rng, false);
        let v = *rng.pick(&plain);
        run_case(&mut sink, v, &t, tag, false);
    }
    for _ in 0..args.n(250, 5000) {
        let (t, tag) = gen_text(&mut rng, true);
        let v = *rng.pick(&nfkc);
        run_case(&mut sink, v, &t, tag, false);
    }
    sink.finish();
}
