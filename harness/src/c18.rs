//! C18 — one loaded dictionary shared by concurrent tokenizers.
use crate::common::*;
use crate::dictutil::*;
use serde_json::{json, Value};
use std::process::Command;
use std::sync::atomic::{AtomicUsize, Ordering};
use std::sync::{Arc, Barrier, Mutex};
use sudachi::analysis::mlist::MorphemeList;
use sudachi::analysis::stateful_tokenizer::StatefulTokenizer;
use sudachi::analysis::Mode;
use sudachi::dic::dictionary::JapaneseDictionary;
use sudachi::dic::subset::InfoSubset;

/// word-info field requests a thread's tokenizer may carry (index k): all fields / surface + POS / normalised + reading form
const NSUB: u64 = 3;
fn subset_of(k: u64) -> InfoSubset {
    match k {
        0 => InfoSubset::all(),
        1 => InfoSubset::SURFACE | InfoSubset::POS_ID,
        _ => InfoSubset::NORMALIZED_FORM | InfoSubset::READING_FORM,
    }
}

// compile-time: the dictionary may be shared between threads
fn assert_send_sync<T: Send + Sync>() {}
#[allow(dead_code)]
fn static_checks() {
    assert_send_sync::<JapaneseDictionary>();
    assert_send_sync::<Arc<JapaneseDictionary>>();
}

/// digest under catch_unwind: 0 = the analysis panicked (e.g. a lock poisoned by another thread's panic)
fn digest_c<'a>(dict: &'a JapaneseDictionary, tok: &mut StatefulTokenizer<&'a JapaneseDictionary>, mode: Mode, text: &str, k: u64) -> u64 {
    match catch(|| digest(dict, tok, mode, text, k)) {
        Ok(h) => h,
        Err(_) => {
            *tok = StatefulTokenizer::new(dict, Mode::C);
            0
        }
    }
}

/// digest of everything the tokenizer was asked for (field request k): ranges, word ids and costs always, the requested fields
fn digest(dict: &JapaneseDictionary, tok: &mut StatefulTokenizer<&JapaneseDictionary>, mode: Mode, text: &str, k: u64) -> u64 {
    tok.set_subset(subset_of(k));
    tok.set_mode(mode);
    tok.reset().push_str(text);
    if let Err(e) = tok.do_tokenize() {
        return hash_of(&format!("ERR {:?}", e)) | 1;
    }
    let mut ml = MorphemeList::empty(dict);
    ml.collect_results(tok).unwrap();
    let mut s = String::new();
    for m in ml.iter() {
        s.push_str(&format!("{}|{}|{}|{:?}|{};", m.surface(), m.begin(), m.end(), m.word_id(), m.total_cost()));
        match k {
            0 => s.push_str(&format!("{}|{}|{}|{}|{:?};", m.part_of_speech().join(","), m.dictionary_form(), m.normalized_form(), m.reading_form(), m.synonym_group_ids())),
            1 => s.push_str(&format!("{};", m.part_of_speech().join(","))),
            _ => s.push_str(&format!("{}|{};", m.normalized_form(), m.reading_form())),
        }
    }
    (hash_of(&s) >> 16) | 1 // keep it small enough to print, never 0
}

fn texts(rng: &mut Rng, n: usize) -> Vec<String> {
    let pool = ["東京都", "京都", "東京", "に", "行っ", "た", "。", "アイウ", "ー", "123", "1,000.5", "a", "Zz", " ", "か", "が", "👍🏻", "ｶﾞ", "㍿", "é", "𠮷", "高輪ゲートウェイ駅", "特a", "な。な", "いく", "二千", "(とうきょう)", "xx", "東京(とうきょう)", "京都（きょうと）", "東（ひがし）", "都(と)",
                // characters that differ only above bit 16 (one plain, one needing normalisation), and spans a later alternative of
                // the OOV regex matches away from the window start: per-dictionary memos keyed too coarsely show up here
                "한", "𝕜", "𠁁", "A", "1AB", "京都XAG", "。12%", "あ5%", "7%", "xx12", "ab3"];
    (0..n)
        .map(|_| {
            let k = rng.below(10);
            let mut s = String::new();
            for _ in 0..k {
                s.push_str(*rng.pick(&pool[..]));
            }
            s
        })
        .collect()
}

pub fn run(args: &Args) {
    let mut sink = Sink::new("C18", &args.out, &["Model.Interleave"], args.seed, &args.tier);
    sink.shard_size = 20;
    sink.rule("N in 2..8 threads, each with its own StatefulTokenizer over one Arc<JapaneseDictionary> (all plugin kinds, a user dictionary), analyse private random text streams after a common barrier; every completed analysis is logged (thread, digest of all morpheme fields) in global completion order and compared (in Coq, through the interleaving model) with the single-threaded digests; the dictionary bytes' digest of a probe set is compared before/after; Python: threads over tokenizers of one Dictionary vs the sequential run; non-trivial = at least 2 threads with non-empty streams; distinct by content");
    let mut rng = Rng::new(args.seed);
    let res = format!("{}/sudachi/tests/resources", repo());
    let system = std::fs::read(format!("{}/system.dic.test", res)).unwrap();
    let user = std::fs::read(format!("{}/user.dic.test", res)).unwrap();
    let dir = args.work.join("res");
    let _ = std::fs::remove_dir_all(&dir);
    prepare_resources(&dir, &res).unwrap();
    // every OOV provider kind is in the shared dictionary: unk.def for the categories of the test char.def, ids inside the matrix
    std::fs::write(dir.join("unk.def"), "DEFAULT,5,5,3857,補助記号,一般,*,*,*,*\nALPHA,4,4,11633,名詞,普通名詞,一般,*,*,*\nALPHA,5,5,13620,名詞,固有名詞,一般,*,*,*\n").unwrap();
    let pos = json!(["名詞", "普通名詞", "一般", "*", "*", "*"]);
    let cfg = json!({"characterDefinitionFile": "char.def",
        "inputTextPlugin": [{"class": "com.worksap.nlp.sudachi.DefaultInputTextPlugin"},
            {"class": "com.worksap.nlp.sudachi.ProlongedSoundMarkPlugin", "prolongedSoundMarks": ["ー", "-", "〜"], "replacementSymbol": "ー"},
            {"class": "com.worksap.nlp.sudachi.IgnoreYomiganaPlugin", "leftBrackets": ["(", "（"], "rightBrackets": [")", "）"], "maxYomiganaLength": 8}],
        "oovProviderPlugin": [{"class": "com.worksap.nlp.sudachi.MeCabOovPlugin", "charDef": "char.def", "unkDef": "unk.def", "userPOS": "allow"},
            {"class": "com.worksap.nlp.sudachi.RegexOovProvider", "oovPOS": pos, "leftId": 5, "rightId": 5, "cost": 3000, "regex": "[a-z]+[0-9]*|[0-9]+%", "maxLength": 32},
            {"class": "com.worksap.nlp.sudachi.SimpleOovPlugin", "oovPOS": pos, "leftId": 8, "rightId": 8, "cost": 6000}],
        "pathRewritePlugin": [{"class": "com.worksap.nlp.sudachi.JoinNumericPlugin", "enableNormalize": true},
            {"class": "com.worksap.nlp.sudachi.JoinKatakanaOovPlugin", "oovPOS": pos, "minLength": 3}],
        "connectionCostPlugin": [{"class": "com.worksap.nlp.sudachi.InhibitConnectionPlugin", "inhibitPair": [[1, 2]]}]});
    let dict_user = Arc::new(load_dictionary(&dir, system.clone(), vec![user], &cfg).expect("dictionary"));
    // baseline instance without user dictionary; the threads of those rounds get a FRESH instance that has not analysed
    // anything yet (not even while loading: a user dictionary with automatic costs tokenizes during load), so that races on
    // lazily initialised shared state of plugins are exercised from the very first call
    let dict_plain = Arc::new(load_dictionary(&dir, system.clone(), vec![], &cfg).expect("dictionary"));
    // reference instances, one per field request, never touched by the threads and never asked for another field request:
    // what "a single-threaded run gives" must not depend on what other tokenizers of the shared dictionary asked for
    let user2 = std::fs::read(format!("{}/user.dic.test", res)).unwrap();
    let refs_user: Vec<JapaneseDictionary> = (0..NSUB).map(|_| load_dictionary(&dir, system.clone(), vec![user2.clone()], &cfg).expect("dictionary")).collect();
    let refs_plain: Vec<JapaneseDictionary> = (0..NSUB).map(|_| load_dictionary(&dir, system.clone(), vec![], &cfg).expect("dictionary")).collect();

    let rounds = if args.replay.is_some() { 0 } else { args.n(40, 400) };
    for round in 0..rounds {
        let nthreads = 2 + rng.below(7) as usize;
        let mut pool_texts = texts(&mut rng, 12);
        // every 4th round: contention on one plugin — all texts rewritten by the same input-text plugin at different offsets
        // every other 4th round: contention on the path-rewrite plugins -- numerals with well-formed and ill-formed separators
        // (the numeric joiner restarts a run without the offending separator) next to katakana OOV runs, so that per-call
        // scratch state of a rewrite plugin that is shared between tokenizers shows up (seeded change C18-m15)
        let rewrite_contention = round % 4 == 0;
        let contention = round % 4 == 2 || rewrite_contention;
        if rewrite_contention {
            let num = ["1,000", "1,23", "1.2.3", "12,345.6", "1,2", "3.14", "1.", ",5", "二千", "1,000,00", "1,000.5", "2.3.4,5", "1,000,000", "0.5", "1,,2", "三.五"];
            let sep = ["に", "円", "。", "アイウエ", "xx", " ", "と"];
            for t in pool_texts.iter_mut() {
                let k = 3 + rng.below(6);
                let mut s = String::new();
                for _ in 0..k {
                    s.push_str(*rng.pick(&num[..]));
                    s.push_str(*rng.pick(&sep[..]));
                }
                *t = s;
            }
        } else if contention {
            let pre = ["", "a", "東", "ア。", "1の"];
            let ym = ["東京(とうきょう)", "京都（きょうと）", "東（ひがし）", "都(と)", "ＡＢＣ", "ｱｲｳ", "ーーー"];
            for t in pool_texts.iter_mut() {
                // several rewritten spans per text: the threads spend most of their time inside the plugins' match loops
                let k = 3 + rng.below(6);
                let mut s = String::new();
                for _ in 0..k {
                    s.push_str(*rng.pick(&pre[..]));
                    s.push_str(*rng.pick(&ym[..]));
                }
                *t = s;
            }
        }
        let fresh = round % 2 == 1;
        // every 3rd round the threads carry different field requests (otherwise all of them ask for everything)
        let mixed = round % 3 == 0;
        let dict: Arc<JapaneseDictionary> = if fresh {
            Arc::new(load_dictionary(&dir, system.clone(), vec![], &cfg).expect("dictionary"))
        } else {
            dict_user.clone()
        };
        let modes = [Mode::A, Mode::B, Mode::C];
        // analysis id = ((text index * 3) + mode) * NSUB + field request
        let mut table: Vec<(u64, u64)> = vec![];
        for (i, t) in pool_texts.iter().enumerate() {
            for (mi, m) in modes.iter().enumerate() {
                for k in 0..NSUB {
                    if k > 0 && !mixed {
                        table.push((((i * 3 + mi) as u64) * NSUB + k, 1));
                        continue;
                    }
                    let d: &JapaneseDictionary = if fresh { &refs_plain[k as usize] } else { &refs_user[k as usize] };
                    let mut tok = StatefulTokenizer::new(d, Mode::C);
                    table.push((((i * 3 + mi) as u64) * NSUB + k, digest_c(d, &mut tok, *m, t, k)));
                }
            }
        }
        sink.tag(if fresh { "fresh_dictionary_first_calls_race" } else { "shared_warm_dictionary" });
        let slen = if contention { args.n(400, 3000) as u64 } else { rng.below(40) };
        let nthreads = if contention { 8 } else { nthreads };
        let ks: Vec<u64> = (0..nthreads).map(|ti| if mixed { (ti as u64) % NSUB } else { 0 }).collect();
        let streams: Vec<Vec<u64>> = (0..nthreads).map(|ti| (0..slen).map(|_| rng.below(36) * NSUB + ks[ti]).collect()).collect();
        if mixed {
            sink.tag("threads_with_different_field_requests");
        }
        let events: Arc<Mutex<Vec<(usize, u64)>>> = Arc::new(Mutex::new(vec![]));
        let barrier = Arc::new(Barrier::new(nthreads));
        let panics = Arc::new(AtomicUsize::new(0));
        let mut handles = vec![];
        for (ti, stream) in streams.iter().cloned().enumerate() {
            let dict = dict.clone();
            let events = events.clone();
            let barrier = barrier.clone();
            let pool_texts = pool_texts.clone();
            let panics = panics.clone();
            handles.push(std::thread::spawn(move || {
                quiet_panics_thread();
                let d: &JapaneseDictionary = &dict;
                let mut tok = StatefulTokenizer::new(d, Mode::C);
                barrier.wait();
                for id in stream {
                    let (id, k) = (id / NSUB, id % NSUB);
                    let text = &pool_texts[(id / 3) as usize];
                    let mode = [Mode::A, Mode::B, Mode::C][(id % 3) as usize];
                    match catch(|| digest(d, &mut tok, mode, text, k)) {
                        Ok(h) => events.lock().unwrap().push((ti, h)),
                        Err(_) => {
                            panics.fetch_add(1, Ordering::SeqCst);
                            events.lock().unwrap().push((ti, 0));
                            tok = StatefulTokenizer::new(d, Mode::C);
                        }
                    }
                }
            }));
        }
        for h in handles {
            let _ = h.join();
        }
        let events = events.lock().unwrap().clone();
        // dictionary unchanged: the single-threaded digests are reproduced afterwards
        let mut after_ok = true;
        {
            let d: &JapaneseDictionary = &dict;
            let mut tok = StatefulTokenizer::new(d, Mode::C);
            for (i, t) in pool_texts.iter().enumerate() {
                for (mi, m) in modes.iter().enumerate() {
                    if digest_c(d, &mut tok, *m, t, 0) != table[(i * 3 + mi) * NSUB as usize].1 {
                        after_ok = false;
                    }
                }
            }
        }
        let term = format!(
            "check_interleave {} {} {}",
            clist(table.iter().map(|(a, b)| cpair(&cn(*a), &cn(*b)))),
            clist(streams.iter().map(|s| clist(s.iter().map(|x| cn(*x))))),
            clist(events.iter().map(|(t, h)| format!("({}%nat, {})", t, cn(*h))))
        );
        sink.tag(&format!("threads={}", nthreads));
        if contention {
            sink.tag(if rewrite_contention { "contention_round_path_rewrite" } else { "contention_round" });
        }
        let nontrivial = streams.iter().filter(|s| !s.is_empty()).count() >= 2;
        let id = if contention {
            sink.case_rust_only(json!({"kind": "rust-threads-contention", "round": round, "threads": nthreads, "texts": pool_texts, "analyses_per_thread": slen}), nontrivial)
        } else {
            sink.case(term, json!({"kind": "rust-threads", "round": round, "threads": nthreads, "texts": pool_texts, "streams": streams}), nontrivial)
        };
        // Rust-side oracle: per thread, in order
        let mut pos = vec![0usize; nthreads];
        for (t, h) in &events {
            let want = table[streams[*t][pos[*t]] as usize].1;
            if *h != want {
                sink.fail(id, &format!("thread {} (field request {}) analysis #{} (text {:?}) differs from the single-threaded result", t, ks[*t], pos[*t], pool_texts[(streams[*t][pos[*t]] / NSUB / 3) as usize]), "");
                break;
            }
            pos[*t] += 1;
        }
        if panics.load(Ordering::SeqCst) > 0 {
            sink.fail(id, "an analysis panicked under concurrency", "");
        }
        if !after_ok {
            sink.fail(id, "single-threaded results changed after the concurrent run: the dictionary was modified", "");
        }
    }

    // ---------------- the long-lived shared dictionary still answers like a freshly loaded one ("never modified after loading"):
    // whatever the tokenizers of all the rounds above asked of it -- including texts that exercise rarely taken branches of
    // its plugins -- a dictionary loaded now from the same bytes and configuration must give the same analyses
    if args.replay.is_none() {
        let d: &JapaneseDictionary = &dict_user;
        {
            let mut tok = StatefulTokenizer::new(d, Mode::C);
            for t in ["。12%", "あ5%xx", "한", "𝕜", "𠁁A", "1AB", "ーー(とう)", "123,4.5", "アイウ"] {
                let _ = digest_c(d, &mut tok, Mode::C, t, 0);
            }
        }
        let user3 = std::fs::read(format!("{}/user.dic.test", res)).unwrap();
        let fresh = load_dictionary(&dir, system.clone(), vec![user3], &cfg).expect("dictionary");
        let id = sink.case_rust_only(json!({"kind": "dictionary-vs-fresh", "note": "shared dictionary after all rounds vs a freshly loaded one"}), true);
        sink.tag("dictionary_vs_fresh");
        let mut t1 = StatefulTokenizer::new(d, Mode::C);
        let mut t2 = StatefulTokenizer::new(&fresh, Mode::C);
        for t in ["xx", "xx12", "東京ab3に", "abc京都", "a", "東京xx12%", "𝕜한", "A𠁁", "東京都に行った。", "ｶﾞｶﾞ㍿", "1,000.5円", "アイウエ", "京都（きょうと）ーー"] {
            for m in [Mode::A, Mode::C] {
                let a = digest_c(d, &mut t1, m, t, 0);
                let b = digest_c(&fresh, &mut t2, m, t, 0);
                if a != b {
                    sink.fail(id, &format!("after the rounds the shared dictionary analyses {:?} differently from a freshly loaded dictionary: it was modified after loading", t), "");
                    break;
                }
            }
        }
    }

    // ---------------- sentence splitters of several threads over the shared dictionary's lexicon, each with its own window limit
    if args.replay.is_none() {
        use sudachi::sentence_splitter::{SentenceSplitter, SplitSentences};
        let d: &JapaneseDictionary = &dict_user;
        // the first splitter of the process is an ordinary one
        let first: Vec<String> = SentenceSplitter::new().with_checker(d.lexicon()).split("東京都に行った。京都。").map(|(_, s)| s.to_string()).collect();
        let long_a = format!("{}。い", "あ".repeat(250_000));
        let long_b = format!("京都。{}！東京都", "ア".repeat(180_000));
        let texts: Vec<(String, Vec<usize>)> = vec![
            ("東京都に行った。京都。".to_string(), vec![24, 33]),
            (long_a.clone(), vec![250_001 * 3, long_a.len()]),
            (long_b.clone(), vec![9, 9 + 180_001 * 3, long_b.len()]),
        ];
        let limits = [400_000usize, 300_000, 4096, 260_000];
        let results: Arc<Mutex<Vec<(usize, usize, Result<Vec<usize>, String>)>>> = Arc::new(Mutex::new(vec![]));
        std::thread::scope(|sc| {
            for (ti, lim) in limits.iter().enumerate() {
                let results = results.clone();
                let texts = &texts;
                sc.spawn(move || {
                    quiet_panics_thread();
                    for (k, (t, _)) in texts.iter().enumerate() {
                        let r = catch(|| {
                            let sp = SentenceSplitter::with_limit(*lim).with_checker(d.lexicon());
                            sp.split(t).map(|(r, _)| r.end).collect::<Vec<usize>>()
                        });
                        results.lock().unwrap().push((ti, k, r));
                    }
                });
            }
        });
        let id = sink.case_rust_only(json!({"kind": "sentence-splitter-threads", "limits": limits, "texts": ["short", "250000 x あ + 。い", "京都。+ 180000 x ア + ！東京都"]}), true);
        sink.tag("sentence-splitter-threads");
        if first != vec!["東京都に行った。".to_string(), "京都。".to_string()] {
            sink.fail(id, &format!("the first splitter of the process split the probe into {:?}", first), "");
        }
        for (ti, k, r) in results.lock().unwrap().iter() {
            match r {
                Err(p) => sink.fail(id, &format!("sentence splitter with window {} in thread {} panicked on text {} ({})", limits[*ti], ti, k, p), ""),
                Ok(ends) => {
                    // with a window that holds the whole text the sentences end exactly after the terminators; always: contiguous cover
                    let (t, want) = &texts[*k];
                    if ends.last() != Some(&t.len()) || ends.windows(2).any(|w| w[0] >= w[1]) {
                        sink.fail(id, &format!("sentence splitter with window {} in thread {}: sentence ends {:?} do not cover text {} of {} bytes", limits[*ti], ti, &ends[..ends.len().min(6)], k, t.len()), "");
                    } else if limits[*ti] > t.chars().count() && ends != want {
                        sink.fail(id, &format!("sentence splitter with window {} in thread {}: sentence ends {:?}, the single-threaded result is {:?}", limits[*ti], ti, &ends[..ends.len().min(6)], want), "");
                    }
                }
            }
        }
    }

    // ---------------- Python threads sharing one Dictionary
    let pypkg = std::env::var("VERIF_PYPKG").unwrap_or_default();
    let root = std::env::var("VERIF_ROOT").unwrap_or_else(|_| ".".into());
    let pres = format!("{}/python/tests/resources", repo());
    let nthreads = 6;
    let streams: Vec<Vec<String>> = (0..nthreads).map(|_| texts(&mut rng, args.n(150, 1500))).collect();
    std::fs::create_dir_all(&args.work).unwrap();
    let sp = args.work.join("py_streams.json");
    let op = args.work.join("py_threads_out.json");
    std::fs::write(&sp, serde_json::to_vec(&streams).unwrap()).unwrap();
    let _ = std::fs::remove_file(&op);
    let st = Command::new("timeout").arg("-k").arg("10").arg("900").arg("python3").arg(format!("{}/pyharness/run_py_threads.py", root)).arg(format!("{}/sudachi.json", pres)).arg(&pres).arg(&sp).arg(&op).env("PYTHONPATH", &pypkg).output();
    let id = sink.case_rust_only(json!({"kind": "python-threads", "threads": nthreads, "texts_per_thread": streams[0].len()}), true);
    sink.tag("python-threads");
    match st {
        Ok(o) if o.status.success() => {
            let v: Value = std::fs::read_to_string(&op).ok().and_then(|s| serde_json::from_str(&s).ok()).unwrap_or(Value::Null);
            sink.extra("python_thread_analyses", v["analyses"].clone());
            sink.extra("python_pretokenizer_adapter_calls", v["pretokenizer_calls"].clone());
            if !v["pretokenizer_note"].is_null() {
                sink.extra("python_pretokenizer_note", v["pretokenizer_note"].clone());
            }
            if v["mismatches"].as_u64().unwrap_or(1) != 0 {
                sink.fail(id, &format!("python threads: {} analyses differ from the sequential run, e.g. {}", v["mismatches"], v["example"]), "");
            }
        }
        Ok(o) => sink.fail(id, &format!("python interpreter did not complete (status {:?}): {}", o.status.code(), String::from_utf8_lossy(&o.stderr).chars().take(400).collect::<String>()), ""),
        Err(e) => sink.fail(id, &format!("cannot start python3: {}", e), ""),
    }
    let _ = std::fs::remove_dir_all(&dir);
    sink.finish();
}
