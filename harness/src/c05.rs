//! C05 — compile-then-load round trip preserves every dictionary field, deterministically.
//!
//! One case = one generated lexicon CSV (+ connection matrix) compiled by `DictBuilder`, loaded again, every entry
//! read back through `LexiconSet::get_word_info` / `get_word_param` / `Grammar`.  The Coq term compares, byte for
//! byte, header / POS table / connection matrix / word params / word-info offsets / word infos produced by the
//! implementation with the model's (`Model/Codec.v`, `Model/CodecCheck.v`), runs the reader model over the
//! implementation's bytes, and evaluates the property predicate (read-back = declared data) on the implementation's
//! read-back.  Determinism (compile twice, also in a second process) and alignment independence are checked here.
use crate::common::*;
use serde_json::{json, Value};
use std::fmt::Write as _;
use sudachi::analysis::stateless_tokenizer::DictionaryAccess;
use sudachi::config::Config;
use sudachi::dic::build::DictBuilder;
use sudachi::dic::dictionary::JapaneseDictionary;
use sudachi::dic::storage::{Storage, SudachiDicData};
use sudachi::dic::word_id::WordId;
use sudachi::dic::{DictionaryLoader, LoadedDictionary};

#[path = "c05_routes.rs"]
pub mod routes;

pub const KNOWN_USER_DICFORM: &str = "c05_user_dicform_ref";

// ---------------------------------------------------------------- compact Coq literals
pub fn cblob(b: &[u8]) -> String {
    let mut s = String::with_capacity(b.len() * 3 + 24);
    write!(s, "(B {}%N [", b.len()).unwrap();
    let mut first = true;
    for ch in b.chunks(7) {
        let mut x: u64 = 0;
        for (k, v) in ch.iter().enumerate() {
            x |= (*v as u64) << (8 * k);
        }
        if !first {
            s.push(';');
        }
        first = false;
        write!(s, "{}", x).unwrap();
    }
    s.push_str("]%uint63)");
    s
}
pub fn ctxt(t: &str) -> String {
    let mut b = Vec::with_capacity(t.len() * 3);
    let mut n = 0usize;
    for c in t.chars() {
        let c = c as u32;
        b.push((c & 0xff) as u8);
        b.push(((c >> 8) & 0xff) as u8);
        b.push(((c >> 16) & 0xff) as u8);
        n += 1;
    }
    let inner = cblob(&b);
    // (B len [..]) -> (T n [..])
    let p = inner.find('[').unwrap();
    format!("(T {}%N {}", n, &inner[p..])
}
fn cnlist(xs: &[u32]) -> String {
    clist(xs.iter().map(|x| cn(*x)))
}

// ---------------------------------------------------------------- generated lexicon
#[derive(Clone, Debug, PartialEq)]
pub enum Ref {
    Sys(u32),
    User(u32),
    /// inline reference (surface, pos, reading) aimed at entry `target` of the own (true) or system (false) lexicon
    Inline { surface: String, pos: usize, reading: String },
}
#[derive(Clone, Debug, PartialEq)]
pub enum DicForm {
    None,
    Num(u32),
    U(u32),
}
#[derive(Clone, Debug)]
pub struct Row {
    pub surface: String,
    pub left: i16,
    pub right: i16,
    pub cost: i16,
    pub headword: String,
    pub pos: usize,
    pub reading: String,
    pub norm: String,
    pub dic_form: DicForm,
    pub mode: &'static str,
    pub split_a: Vec<Ref>,
    pub split_b: Vec<Ref>,
    pub word_structure: Vec<Ref>,
    pub synonyms: Option<Vec<u32>>, // None: column absent
    pub star_lists: bool,           // empty lists written as "*" instead of ""
}
pub type Pos = [String; 6];
#[derive(Clone, Debug)]
pub struct Lex {
    pub rows: Vec<Row>,
    pub user: bool,
}
#[derive(Clone, Debug)]
pub struct Matrix {
    pub nl: u32,
    pub nr: u32,
    pub lines: Vec<(u32, u32, i16)>,
}

const HIRA: &[char] = &['あ', 'い', 'う', 'か', 'き', 'た', 'に', 'の', 'ん'];
const KANJI: &[char] = &['京', '都', '東', '行', '日', '本', '語', '一'];
const ASCII: &[char] = &['a', 'b', 'c', 'x', 'y', 'Z', '0', '7', '-', '.', ' '];
const ASTRAL: &[char] = &['𠮟', '💞', '\u{10FFFF}', '\u{10000}', '𩸽'];
const EDGE: &[char] = &['\u{7f}', '\u{80}', '\u{7ff}', '\u{800}', '\u{d7ff}', '\u{e000}', '\u{ffff}', 'é', 'Ω'];

/// texts that mean something in OTHER columns of the lexicon format (placeholder, separators, references, numbers, split
/// modes, an inline reference, quoting); in the index-form / headword / reading / normalized-form columns they are data
pub const SPECIAL: &[&str] = &[
    "*", "", "/", "U1", "U0", "0", "1", "-1", "+0", "A", "C", "BC", ",", "\"", "#", "**", "*/*", "u1", "＊", " * ", "\\", "a,b,c,d,e,f,g,h", "0/1", "NULL",
];
/// which columns of a directed row carry the special text
#[derive(Clone, Copy, Debug, PartialEq)]
pub enum SpecialCols {
    All,
    Headword,
    Reading,
    Norm,
    ReadingNorm,
    IndexForm,
}
pub const SPECIAL_COLS: &[SpecialCols] = &[SpecialCols::All, SpecialCols::Headword, SpecialCols::Reading, SpecialCols::Norm, SpecialCols::ReadingNorm, SpecialCols::IndexForm];
/// directed lexicons with long arrays: `special` = ARRAYS_BASE + variant
pub const ARRAYS_BASE: usize = 1000;
pub const ARRAY_VARIANTS: usize = 3;
pub const ARRAY_LENGTHS: &[usize] = &[0, 1, 63, 64, 65, 127];
/// rows of a directed lexicon
pub const SPECIAL_ROWS: usize = 7;
/// number of directed lexicons that together carry every (columns, special text) combination once
pub fn special_cases() -> usize {
    (SPECIAL.len() * SPECIAL_COLS.len() + SPECIAL_ROWS - 1) / SPECIAL_ROWS
}
fn special_combo(d: usize, i: usize) -> (SpecialCols, &'static str) {
    let k = (d * SPECIAL_ROWS + i) % (SPECIAL.len() * SPECIAL_COLS.len());
    (SPECIAL_COLS[k / SPECIAL.len()], SPECIAL[k % SPECIAL.len()])
}

fn gen_char(rng: &mut Rng) -> char {
    match rng.below(16) {
        0..=5 => *rng.pick(HIRA),
        6..=9 => *rng.pick(KANJI),
        10..=12 => *rng.pick(ASCII),
        13 => *rng.pick(EDGE),
        _ => *rng.pick(ASTRAL),
    }
}
fn units(s: &str) -> usize {
    s.chars().map(|c| c.len_utf16()).sum()
}
/// a string of exactly `n` UTF-16 code units
fn gen_units(rng: &mut Rng, n: usize) -> String {
    let mut s = String::new();
    let mut left = n;
    while left > 0 {
        let c = gen_char(rng);
        if c.len_utf16() <= left {
            s.push(c);
            left -= c.len_utf16();
        }
    }
    s
}
/// a string of exactly `n` UTF-8 bytes
fn gen_bytes(rng: &mut Rng, n: usize) -> String {
    let mut s = String::new();
    while s.len() < n {
        let c = gen_char(rng);
        if s.len() + c.len_utf8() <= n {
            s.push(c);
        }
    }
    s
}
fn gen_short(rng: &mut Rng) -> String {
    let n = 1 + rng.below(3) as usize;
    (0..n).map(|_| gen_char(rng)).collect()
}
/// length classes around the 1-byte / 2-byte prefix boundary; big = allow the 32766/32767 classes
fn gen_text(rng: &mut Rng, sink: &mut Sink, big: bool) -> String {
    match rng.below(40) {
        0 => {
            sink.tag("str_units_126");
            gen_units(rng, 126)
        }
        1 | 2 => {
            sink.tag("str_units_127");
            gen_units(rng, 127)
        }
        3 | 4 => {
            sink.tag("str_units_128");
            gen_units(rng, 128)
        }
        5 => {
            sink.tag("str_units_129");
            gen_units(rng, 129)
        }
        6 => {
            sink.tag("str_units_255_257");
            let n = 255 + rng.below(3) as usize;
            gen_units(rng, n)
        }
        7 if big => {
            sink.tag("str_units_32766_32767");
            let n = 32766 + rng.below(2) as usize;
            (0..n).map(|_| *rng.pick(&['a', 'b', 'q'])).collect()
        }
        _ => {
            let mut t = gen_short(rng);
            if rng.chance(1, 10) {
                // backslash sequences that are NOT escapes (the text they denote is themselves), closed by a character that
                // can complete no escape
                sink.tag("backslash_non_escape");
                t.push_str(*rng.pick(&["\\", "\\u", "\\u12", "\\u{}", "\\u{1234567}", "\\x41", "\\u{12", "\\uZZZZ", "\\U0041", "\\u{12 }", "\\u123g", "\\\\"]));
                t.push(*rng.pick(&['ん', '-', ' ', '東']));
            }
            t
        }
    }
}

/// CSV rendering of one text: some characters as \uXXXX or \u{X} escapes
fn esc(rng: &mut Rng, s: &str, sink: &mut Sink) -> String {
    if s.len() > 2000 || !rng.chance(1, 5) {
        return s.to_string();
    }
    let mut out = String::new();
    for c in s.chars() {
        if rng.chance(1, 3) {
            sink.tag("escape_used");
            let v = c as u32;
            if v <= 0xffff && rng.chance(1, 2) {
                if rng.chance(1, 2) {
                    write!(out, "\\u{:04X}", v).unwrap();
                } else {
                    write!(out, "\\u{:04x}", v).unwrap();
                }
            } else if rng.chance(1, 2) {
                write!(out, "\\u{{{:X}}}", v).unwrap();
            } else {
                write!(out, "\\u{{{:06x}}}", v).unwrap();
            }
        } else {
            out.push(c);
        }
    }
    out
}
/// a number as i16::from_str / u32::from_str read it: optional `+`, leading zeros
fn num_lit(rng: &mut Rng, v: i64, plus_ok: bool) -> String {
    match rng.below(12) {
        0 if plus_ok && v >= 0 => format!("+{}", v),
        1 => {
            if v < 0 {
                format!("-00{}", -v)
            } else {
                format!("00{}", v)
            }
        }
        _ => v.to_string(),
    }
}
fn csv_quote(s: &str) -> String {
    if s.contains(',') || s.contains('"') || s.contains('\n') || s.contains('\r') || s.starts_with('\u{feff}') {
        format!("\"{}\"", s.replace('"', "\"\""))
    } else {
        s.to_string()
    }
}

pub fn std_pos() -> Pos {
    ["名詞", "普通名詞", "一般", "*", "*", "*"].map(|s| s.to_string())
}
fn gen_pos_pool(rng: &mut Rng, sink: &mut Sink) -> Vec<Pos> {
    let mut pool = vec![std_pos()];
    let n = rng.below(4) as usize;
    for _ in 0..n {
        let mut p: Pos = ["動詞", "一般", "*", "*", "五段-カ行", "終止形-一般"].map(|s| s.to_string());
        p[0] = gen_short(rng);
        if rng.chance(1, 2) {
            p[rng.below(6) as usize] = gen_short(rng);
        }
        if rng.chance(1, 12) {
            sink.tag("pos_string_127_128");
            let n = 127 + rng.below(2) as usize;
            let k = rng.below(6) as usize;
            p[k] = gen_units(rng, n);
        }
        if rng.chance(1, 10) {
            p[rng.below(6) as usize] = String::new();
        }
        pool.push(p);
    }
    pool
}

fn render_ref(r: &Ref, pool: &[Pos], rng: &mut Rng, sink: &mut Sink) -> String {
    match r {
        Ref::Sys(n) => num_lit(rng, *n as i64, false),
        Ref::User(n) => format!("U{}", num_lit(rng, *n as i64, false)),
        Ref::Inline { surface, pos, reading } => {
            let p = &pool[*pos];
            format!(
                "{},{},{},{},{},{},{},{}",
                esc(rng, surface, sink),
                p[0],
                p[1],
                p[2],
                p[3],
                p[4],
                p[5],
                esc(rng, reading, sink)
            )
        }
    }
}
fn render_list(rs: &[Ref], star: bool, pool: &[Pos], rng: &mut Rng, sink: &mut Sink) -> String {
    if rs.is_empty() {
        return if star { "*".into() } else { String::new() };
    }
    rs.iter().map(|r| render_ref(r, pool, rng, sink)).collect::<Vec<_>>().join("/")
}
/// the fields of every row as the csv crate hands them to parse_record
pub fn render_fields(lex: &Lex, pool: &[Pos], rng: &mut Rng, sink: &mut Sink) -> Vec<Vec<String>> {
    let mut out = vec![];
    for r in &lex.rows {
        let p = &pool[r.pos];
        let mut cols: Vec<String> = vec![
            esc(rng, &r.surface, sink),
            num_lit(rng, r.left as i64, true),
            num_lit(rng, r.right as i64, true),
            num_lit(rng, r.cost as i64, true),
            esc(rng, &r.headword, sink),
        ];
        for k in 0..6 {
            cols.push(esc(rng, &p[k], sink));
        }
        cols.push(esc(rng, &r.reading, sink));
        cols.push(esc(rng, &r.norm, sink));
        cols.push(match &r.dic_form {
            DicForm::None => "*".to_string(),
            DicForm::Num(n) => num_lit(rng, *n as i64, true),
            DicForm::U(n) => format!("U{}", num_lit(rng, *n as i64, true)),
        });
        cols.push(r.mode.to_string());
        cols.push(render_list(&r.split_a, r.star_lists, pool, rng, sink));
        cols.push(render_list(&r.split_b, r.star_lists, pool, rng, sink));
        // the word-structure column is read by parse_wordid without the literal regex: a sign is accepted there
        cols.push(if r.word_structure.is_empty() {
            if r.star_lists { "*".into() } else { String::new() }
        } else {
            r.word_structure
                .iter()
                .map(|x| match x {
                    Ref::Sys(n) => num_lit(rng, *n as i64, true),
                    Ref::User(n) => format!("U{}", num_lit(rng, *n as i64, true)),
                    _ => unreachable!(),
                })
                .collect::<Vec<_>>()
                .join("/")
        });
        if let Some(sy) = &r.synonyms {
            cols.push(if sy.is_empty() {
                if r.star_lists { "*".into() } else { String::new() }
            } else {
                sy.iter().map(|x| num_lit(rng, *x as i64, true)).collect::<Vec<_>>().join("/")
            });
        }
        out.push(cols);
    }
    out
}
pub fn csv_of_fields(rows: &[Vec<String>]) -> String {
    let mut out = String::new();
    for cols in rows {
        out.push_str(&cols.iter().map(|c| csv_quote(c)).collect::<Vec<_>>().join(","));
        out.push('\n');
    }
    out
}
pub fn render_csv(lex: &Lex, pool: &[Pos], rng: &mut Rng, sink: &mut Sink) -> String {
    csv_of_fields(&render_fields(lex, pool, rng, sink))
}
pub fn render_matrix(m: &Matrix, rng: &mut Rng) -> String {
    let mut s = String::new();
    if rng.chance(1, 4) {
        s.push_str("\n  \n");
    }
    writeln!(s, "{} {}", m.nl, m.nr).unwrap();
    for (l, r, c) in &m.lines {
        if rng.chance(1, 10) {
            s.push('\n');
        }
        if rng.chance(1, 6) {
            writeln!(s, "  {}\t{}   {}  ", l, r, c).unwrap();
        } else {
            writeln!(s, "{} {} {}", l, r, c).unwrap();
        }
    }
    s
}
pub fn gen_matrix(rng: &mut Rng) -> Matrix {
    let nl = 1 + rng.below(5) as u32;
    let nr = if rng.chance(1, 2) { nl } else { 1 + rng.below(5) as u32 };
    let mut lines = vec![];
    let n = rng.below((nl * nr + 3) as u64) as usize;
    for _ in 0..n {
        let c = match rng.below(6) {
            0 => i16::MAX,
            1 => i16::MIN,
            2 => -1,
            _ => rng.range(-3000, 3000) as i16,
        };
        lines.push((rng.below(nl as u64) as u32, rng.below(nr as u64) as u32, c));
    }
    Matrix { nl, nr, lines }
}

fn gen_ids(rng: &mut Rng, n_sys: usize, n_user: usize, user: bool, sink: &mut Sink) -> Vec<Ref> {
    let k = match rng.below(24) {
        0 => {
            sink.tag("array_127_items");
            127
        }
        8 => {
            sink.tag("array_63_64_65_items");
            *rng.pick(&[63usize, 64, 65])
        }
        1..=3 => 2,
        4..=7 => 1,
        _ => 0,
    };
    (0..k)
        .map(|_| {
            if user && n_user > 0 && rng.chance(1, 2) {
                Ref::User(rng.below(n_user as u64) as u32)
            } else {
                Ref::Sys(rng.below(n_sys.max(1) as u64) as u32)
            }
        })
        .collect()
}

/// `sys`: the system lexicon a user lexicon is built against
pub fn gen_lex(rng: &mut Rng, sink: &mut Sink, pool: &[Pos], sys: Option<&Lex>, ids_below: i16, big: bool, findings: bool) -> Lex {
    gen_lex_with(rng, sink, pool, sys, ids_below, big, findings, None)
}
/// `special`: Some(d) = the d-th directed lexicon: SPECIAL_ROWS rows, row i carries special_combo(d, i)
#[allow(clippy::too_many_arguments)]
pub fn gen_lex_with(rng: &mut Rng, sink: &mut Sink, pool: &[Pos], sys: Option<&Lex>, ids_below: i16, big: bool, findings: bool, special: Option<usize>) -> Lex {
    let user = sys.is_some();
    // Some(ARRAYS_BASE + v): the directed lexicon whose rows carry arrays of ARRAY_LENGTHS items (variant v)
    let arrays = special.filter(|d| *d >= ARRAYS_BASE).map(|d| d - ARRAYS_BASE);
    let special = special.filter(|d| *d < ARRAYS_BASE);
    let n = if arrays.is_some() {
        ARRAY_LENGTHS.len()
    } else if special.is_some() {
        SPECIAL_ROWS
    } else {
        1 + rng.below(7) as usize
    };
    let n_sys = sys.map(|s| s.rows.len()).unwrap_or(n);
    let mut rows: Vec<Row> = vec![];
    for i in 0..n {
        let surface = if big && i == 0 {
            sink.tag("str_units_32766_32767");
            let n = 32766 + rng.below(2) as usize;
            (0..n).map(|_| *rng.pick(&['a', 'b', 'q'])).collect()
        } else if rng.chance(1, 14) {
            sink.tag("surface_bytes_126_128");
            let n = 126 + rng.below(3) as usize;
            gen_bytes(rng, n)
        } else {
            gen_text(rng, sink, big && i == 0)
        };
        // characters a CSV reader may treat specially when they open a record or a field: comment marks, quote, separator,
        // white space, byte-order mark, carriage return, line feed
        let surface = if surface.len() < 300 && rng.chance(1, 7) {
            sink.tag("surface_opens_with_csv_sensitive_character");
            format!("{}{}", rng.pick(&["#", "#", "\"", ",", " ", "\u{feff}", "\r", ";", "'", "\t", "//", "\n", "%", "=", "-"]), surface)
        } else {
            surface
        };
        let surface = if special.is_none() && rng.chance(1, 24) {
            sink.tag("index_form_is_a_text_special_elsewhere");
            rng.pick(&SPECIAL[..]).to_string()
        } else {
            surface
        };
        let surface = if surface.is_empty() { "*".to_string() } else { surface };
        let headword = match rng.below(40) {
            0 => String::new(),
            1..=5 => gen_text(rng, sink, false),
            6 | 7 => {
                sink.tag("headword_is_a_text_special_elsewhere");
                rng.pick(&SPECIAL[..]).to_string()
            }
            _ => surface.clone(),
        };
        let form = |rng: &mut Rng, sink: &mut Sink, headword: &str| match rng.below(10) {
            0 => {
                sink.tag("form_empty");
                String::new()
            }
            1..=4 => {
                sink.tag("form_equal_headword");
                headword.to_string()
            }
            5 => {
                sink.tag("form_is_a_text_special_elsewhere");
                rng.pick(&SPECIAL[..]).to_string()
            }
            _ => gen_text(rng, sink, false),
        };
        let reading = form(rng, sink, &headword);
        let norm = form(rng, sink, &headword);
        // directed rows: the special text in the chosen columns, the other form columns different from it
        let (surface, headword, reading, norm) = match special {
            None => (surface, headword, reading, norm),
            Some(d) => {
                let (cols, t) = special_combo(d, i);
                let t = t.to_string();
                let nonempty = if t.is_empty() { "*".to_string() } else { t.clone() };
                let other = |x: String, rng: &mut Rng| if x == t || x.is_empty() { format!("{}{}", gen_short(rng), "語") } else { x };
                sink.tag(&format!("directed:{:?}={:?}", cols, t));
                match cols {
                    SpecialCols::All => (nonempty.clone(), t.clone(), t.clone(), t),
                    SpecialCols::Headword => {
                        let s2 = other(surface, rng);
                        (s2, t, reading, norm)
                    }
                    SpecialCols::Reading => {
                        let h = other(headword, rng);
                        (surface, h, t, norm)
                    }
                    SpecialCols::Norm => {
                        let h = other(headword, rng);
                        (surface, h, reading, t)
                    }
                    SpecialCols::ReadingNorm => {
                        let h = other(headword, rng);
                        (surface, h, t.clone(), t)
                    }
                    SpecialCols::IndexForm => {
                        let h = other(headword, rng);
                        (nonempty, h, reading, norm)
                    }
                }
            }
        };
        let mode = *rng.pick(&["A", "A", "B", "C", "*", "a", "c", "BC", " A", "b\t", "\u{3000}C ", "a\u{a0}", " BC", "\u{2003}*"]);
        let modeless = mode.trim() == "A" || mode.trim() == "a";
        let mut split_a = if modeless { vec![] } else { gen_ids(rng, n_sys, n, user, sink) };
        let mut split_b = if modeless { vec![] } else { gen_ids(rng, n_sys, n, user, sink) };
        // inline references: aimed at an earlier own row or a system row whose surface equals its headword
        if !modeless && rng.chance(1, 4) {
            let mut cands: Vec<&Row> = rows.iter().filter(|r| r.surface == r.headword && !r.reading.is_empty() && r.surface.len() < 300 && r.reading.len() < 300 && !r.surface.contains(&[',', '/'][..]) && !r.reading.contains('/')).collect();
            if let Some(s) = sys {
                cands.extend(s.rows.iter().filter(|r| r.surface == r.headword && !r.reading.is_empty() && r.surface.len() < 300 && r.reading.len() < 300 && !r.surface.contains(&[',', '/'][..]) && !r.reading.contains('/')));
            }
            if !cands.is_empty() {
                let t = *rng.pick(&cands);
                let r = Ref::Inline { surface: t.surface.clone(), pos: t.pos, reading: t.reading.clone() };
                sink.tag("inline_split_ref");
                if rng.chance(1, 2) {
                    if split_a.len() < 127 {
                        split_a.push(r);
                    }
                } else if split_b.len() < 127 {
                    split_b.insert(0, r);
                }
            }
        }
        let dic_form = if user {
            if findings && rng.chance(1, 12) {
                if rng.chance(1, 2) { DicForm::U(rng.below(n as u64) as u32) } else { DicForm::Num(rng.below(n.min(n_sys) as u64) as u32) }
            } else {
                DicForm::None
            }
        } else {
            match rng.below(4) {
                0 => DicForm::Num(rng.below(n as u64) as u32),
                _ => DicForm::None,
            }
        };
        let ids = ids_below.max(1);
        let mut row = Row {
            // at least one row must be indexed (an empty index makes the trie builder panic: C06's concern)
            left: if i > 0 && rng.chance(1, 10) { -1 } else { rng.below(ids as u64) as i16 },
            right: rng.below(ids as u64) as i16,
            cost: match rng.below(8) {
                0 => i16::MAX,
                1 => i16::MIN + 1,
                2 => -1,
                _ => rng.range(-2000, 12000) as i16,
            },
            surface,
            headword,
            // the OOV plugin of the minimal configuration needs its POS in the system dictionary
            pos: if i == 0 && !user { 0 } else { rng.below(pool.len() as u64) as usize },
            reading,
            norm,
            dic_form,
            mode,
            split_a,
            split_b,
            word_structure: gen_ids(rng, n_sys, n, user, sink),
            synonyms: match rng.below(5) {
                0 => None,
                1 => Some(vec![]),
                2 => Some(vec![0, u32::MAX, rng.below(1 << 20) as u32]),
                3 => Some((0..rng.below(4)).map(|_| rng.below(1000) as u32).collect()),
                _ => Some(vec![rng.below(100) as u32]),
            },
            star_lists: rng.chance(1, 2),
        };
        // directed arrays: split A / split B / word structure / synonym groups of 0, 1, 63, 64, 65, 127 items in rotating
        // positions (4 x the item count is where a byte count leaves u8: 64 items = 256 bytes)
        if let Some(v) = arrays {
            let len = |k: usize| -> usize {
                match v % 3 {
                    0 => ARRAY_LENGTHS[(i + k) % ARRAY_LENGTHS.len()],
                    1 => ARRAY_LENGTHS[i % ARRAY_LENGTHS.len()],
                    _ => ARRAY_LENGTHS[(i + 3 - k) % ARRAY_LENGTHS.len()],
                }
            };
            let mut ids = |k: usize, rng: &mut Rng| -> Vec<Ref> {
                (0..len(k)).map(|_| if user && rng.chance(1, 2) { Ref::User(rng.below(n as u64) as u32) } else { Ref::Sys(rng.below(n_sys.max(1) as u64) as u32) }).collect()
            };
            row.mode = *rng.pick(&["C", "B", "*", "c"]);
            row.split_a = ids(0, rng);
            row.split_b = ids(1, rng);
            row.word_structure = ids(2, rng);
            row.synonyms = Some((0..len(3)).map(|j| 100_000 + 31 * j as u32 + i as u32).collect());
            sink.tag(&format!("directed:arrays A={} B={} WS={} SYN={}", len(0), len(1), len(2), len(3)));
        }
        // homonyms: a row with the index form, headword, POS and reading of an earlier own row or of a system row, so that
        // inline references meet several candidates (first own row wins, own rows win over system rows)
        if i > 0 && special.is_none() && arrays.is_none() && rng.chance(1, 7) {
            let mut cands: Vec<&Row> = rows.iter().filter(|r| r.surface.len() < 300).collect();
            if let Some(s) = sys {
                cands.extend(s.rows.iter().filter(|r| r.surface.len() < 300));
            }
            if !cands.is_empty() {
                let t = (*rng.pick(&cands)).clone();
                sink.tag("homonym_row");
                row.surface = t.surface;
                row.headword = t.headword;
                row.pos = t.pos;
                row.reading = t.reading;
            }
        }
        rows.push(row);
    }
    // inline references to LATER rows: the reference is resolved after all rows are read, but its POS is numbered when the
    // referring row is read, i.e. before the row that owns it (first occurrence in file order, split columns first)
    for i in 0..rows.len() {
        let md = rows[i].mode.trim();
        if md == "A" || md == "a" || arrays.is_some() || !rng.chance(1, 5) {
            continue;
        }
        let cands: Vec<usize> = (i + 1..rows.len())
            .filter(|j| rows[*j].surface == rows[*j].headword && !rows[*j].reading.is_empty() && rows[*j].surface.len() < 300 && rows[*j].reading.len() < 300 && !rows[*j].surface.contains(&[',', '/'][..]) && !rows[*j].reading.contains('/'))
            .collect();
        if cands.is_empty() {
            continue;
        }
        let t = rows[*rng.pick(&cands)].clone();
        let r = Ref::Inline { surface: t.surface.clone(), pos: t.pos, reading: t.reading.clone() };
        sink.tag("inline_split_ref_forward");
        if rng.chance(1, 2) {
            if rows[i].split_a.len() < 127 {
                rows[i].split_a.push(r);
            }
        } else if rows[i].split_b.len() < 127 {
            rows[i].split_b.insert(0, r);
        }
    }
    Lex { rows, user }
}

// ---------------------------------------------------------------- the oracle: what the declared data mean
#[derive(Clone, Debug)]
pub struct Expected {
    pub pos_ids: Vec<u16>,       // per row
    pub new_pos: Vec<Pos>,       // rows of the POS table of this dictionary, in id order
    pub splits_a: Vec<Vec<u32>>, // raw ids
    pub splits_b: Vec<Vec<u32>>,
    pub ws: Vec<Vec<u32>>,
    pub dic_raw: Vec<u32>,
    pub inline_pos: Vec<Vec<u16>>, // per row: POS ids of its inline references, columns 15 then 16
}
fn opt_reading<'a>(surface: &str, reading: &'a str) -> Option<&'a str> {
    if surface == reading {
        None
    } else {
        Some(reading)
    }
}
/// POS ids in order of first use (inline split POS of columns 15 and 16 come before the row's own POS), after the
/// preloaded system POS; references resolved own rows first, then system rows.
pub fn expect(lex: &Lex, pool: &[Pos], sys: Option<(&Lex, &Expected)>) -> Option<Expected> {
    let mut table: Vec<Pos> = sys.map(|(_, e)| e.new_pos.clone()).unwrap_or_default();
    let start = table.len();
    let mut pos_of = |p: &Pos, table: &mut Vec<Pos>| -> u16 {
        if let Some(i) = table.iter().position(|q| q == p) {
            i as u16
        } else {
            table.push(p.clone());
            (table.len() - 1) as u16
        }
    };
    let mut pos_ids = vec![];
    let mut inline_pos: Vec<Vec<u16>> = vec![];
    for r in &lex.rows {
        let mut ip = vec![];
        for x in r.split_a.iter().chain(r.split_b.iter()) {
            if let Ref::Inline { pos, .. } = x {
                ip.push(pos_of(&pool[*pos], &mut table));
            }
        }
        inline_pos.push(ip);
        pos_ids.push(pos_of(&pool[r.pos], &mut table));
    }
    let raw = |r: &Ref| match r {
        Ref::Sys(n) => *n,
        Ref::User(n) => (1u32 << 28) | *n,
        _ => unreachable!(),
    };
    let own_dic: u32 = if lex.user { 1 } else { 0 };
    let mut e = Expected { pos_ids: pos_ids.clone(), new_pos: table[start..].to_vec(), splits_a: vec![], splits_b: vec![], ws: vec![], dic_raw: vec![], inline_pos: inline_pos.clone() };
    if sys.is_none() {
        e.new_pos = table.clone();
    }
    for (ri, r) in lex.rows.iter().enumerate() {
        let mut k = 0usize;
        let mut resolve = |x: &Ref, k: &mut usize| -> Option<u32> {
            match x {
                Ref::Inline { surface, reading, .. } => {
                    let pid = inline_pos[ri][*k];
                    *k += 1;
                    let want = opt_reading(surface, reading);
                    for (j, o) in lex.rows.iter().enumerate() {
                        // RawDictResolver: index form, RawLexiconEntry::reading() (= the reading column)
                        if &o.surface == surface && pos_ids[j] == pid && opt_reading(&o.surface, &o.reading) == want {
                            return Some((own_dic << 28) | j as u32);
                        }
                    }
                    if let Some((s, se)) = sys {
                        for (j, o) in s.rows.iter().enumerate() {
                            // BinDictResolver: WordInfo.surface (= headword), stored reading ("" when equal to the headword)
                            let stored = if o.reading == o.headword { "" } else { o.reading.as_str() };
                            let rd = if stored.is_empty() || o.headword == stored { None } else { Some(stored) };
                            if &o.headword == surface && se.pos_ids[j] == pid && rd == want {
                                return Some(j as u32);
                            }
                        }
                    }
                    None
                }
                x => Some(raw(x)),
            }
        };
        let a: Option<Vec<u32>> = r.split_a.iter().map(|x| resolve(x, &mut k)).collect();
        let b: Option<Vec<u32>> = r.split_b.iter().map(|x| resolve(x, &mut k)).collect();
        e.splits_a.push(a?);
        e.splits_b.push(b?);
        e.ws.push(r.word_structure.iter().map(raw).collect());
        e.dic_raw.push(match r.dic_form {
            DicForm::None => u32::MAX,
            DicForm::Num(n) => n,
            DicForm::U(n) => (1 << 28) | n,
        });
    }
    Some(e)
}

// ---------------------------------------------------------------- implementation side
pub struct Sections<'a> {
    pub header: &'a [u8],
    pub pos: &'a [u8],
    pub conn: &'a [u8],
    pub trie: &'a [u8],
    pub table: &'a [u8],
    pub words_offset: usize,
    pub words: &'a [u8],
}
fn rd_u16(b: &[u8], o: usize) -> usize {
    b[o] as usize | (b[o + 1] as usize) << 8
}
fn rd_u32(b: &[u8], o: usize) -> usize {
    rd_u16(b, o) | rd_u16(b, o + 2) << 16
}
/// independent walk over the file layout (header, POS table, matrix, trie, word-id table, words section)
pub fn sections(b: &[u8]) -> Option<Sections> {
    if b.len() < 272 + 6 {
        return None;
    }
    let mut o = 272;
    let npos = rd_u16(b, o);
    o += 2;
    for _ in 0..npos * 6 {
        let b0 = *b.get(o)? as usize;
        let (len, w) = if b0 >= 128 { (((b0 & 0x7f) << 8) | *b.get(o + 1)? as usize, 2) } else { (b0, 1) };
        o += w + 2 * len;
    }
    let pos_end = o;
    let nl = rd_u16(b, o);
    let nr = rd_u16(b, o + 2);
    o += 4 + 2 * nl * nr;
    let conn_end = o;
    if b.len() < o + 4 {
        return None;
    }
    let trie_start = o + 4;
    o += 4 + 4 * rd_u32(b, o);
    let trie_end = o;
    if b.len() < o + 4 {
        return None;
    }
    let table_start = o + 4;
    o += 4 + rd_u32(b, o);
    if b.len() < o + 4 {
        return None;
    }
    Some(Sections { header: &b[..272], pos: &b[272..pos_end], conn: &b[pos_end..conn_end], trie: &b[trie_start..trie_end], table: &b[table_start..o], words_offset: o, words: &b[o..] })
}

#[derive(Clone, Debug, PartialEq)]
pub enum Readback {
    Ok {
        surface: String,
        hwlen: usize,
        pos: u16,
        norm: String,
        dfwi: i32,
        dicform: String,
        reading: String,
        a: Vec<u32>,
        b: Vec<u32>,
        ws: Vec<u32>,
        syn: Vec<u32>,
        params: (i16, i16, i16),
    },
    Fail(String),
}
impl Readback {
    pub fn coq(&self) -> String {
        match self {
            Readback::Fail(_) => "RBFail".into(),
            Readback::Ok { surface, hwlen, pos, norm, dfwi, dicform, reading, a, b, ws, syn, params } => format!(
                "(RB {} {} {} {} {} {} {} {} {} {} {} {} {} {})",
                ctxt(surface),
                cnu(*hwlen),
                cn(*pos),
                ctxt(norm),
                cz(*dfwi as i64),
                ctxt(dicform),
                ctxt(reading),
                cnlist(a),
                cnlist(b),
                cnlist(ws),
                cnlist(syn),
                cz(params.0 as i64),
                cz(params.1 as i64),
                cz(params.2 as i64)
            ),
        }
    }
}
pub fn readback<D: DictionaryAccess>(d: &D, dic: u8, n: usize) -> Vec<Readback> {
    (0..n)
        .map(|i| {
            let wid = WordId::new(dic, i as u32);
            match catch(|| {
                let wi = d.lexicon().get_word_info(wid).map_err(|e| format!("{:?}", e))?;
                let p = d.lexicon().get_word_param(wid);
                Ok::<Readback, String>(Readback::Ok {
                    surface: wi.surface().to_string(),
                    hwlen: wi.head_word_length(),
                    pos: wi.pos_id(),
                    norm: wi.normalized_form().to_string(),
                    dfwi: wi.dictionary_form_word_id(),
                    dicform: wi.dictionary_form().to_string(),
                    reading: wi.reading_form().to_string(),
                    a: wi.a_unit_split().iter().map(|w| w.as_raw()).collect(),
                    b: wi.b_unit_split().iter().map(|w| w.as_raw()).collect(),
                    ws: wi.word_structure().iter().map(|w| w.as_raw()).collect(),
                    syn: wi.synonym_group_ids().to_vec(),
                    params: p,
                })
            }) {
                Ok(Ok(r)) => r,
                Ok(Err(e)) => Readback::Fail(format!("Err {}", e)),
                Err(p) => Readback::Fail(format!("panic {}", p)),
            }
        })
        .collect()
}

/// field subsets that SKIP stored fields and request later ones: every combination of the four array fields (split A,
/// split B, word structure, synonym groups -- stored in that order at the end of a word info), alone and with text fields
pub const SKIP_SUBSETS: &[u32] = &[
    64, 128, 256, 512, 64 | 128, 64 | 256, 64 | 512, 128 | 256, 128 | 512, 256 | 512, 64 | 128 | 256, 64 | 128 | 512, 64 | 256 | 512, 128 | 256 | 512, 1 | 512, 32 | 256, 8 | 128, 16 | 512, 4 | 512, 2 | 256, 8, 32,
];
/// C05 under partial loads: every entry read with each of SKIP_SUBSETS (as every entry point does: normalized) must give,
/// for every requested field, the declared value (`expd`, what the full read-back is compared with).  Entries whose full
/// read-back already differs (`rbs`) are left out.  Returns the first difference.
pub fn subset_readback<D: DictionaryAccess>(d: &D, dic: u8, expd: &[Readback], rbs: &[Readback]) -> Option<String> {
    use sudachi::dic::subset::InfoSubset;
    for (i, x) in expd.iter().enumerate() {
        if rbs.get(i) != Some(x) {
            continue;
        }
        let (surface, hwlen, pos, norm, dfwi, dicform, reading, a, b, ws, syn) = match x {
            Readback::Ok { surface, hwlen, pos, norm, dfwi, dicform, reading, a, b, ws, syn, .. } => (surface, hwlen, pos, norm, dfwi, dicform, reading, a, b, ws, syn),
            _ => continue,
        };
        let wid = WordId::new(dic, i as u32);
        for &s in SKIP_SUBSETS {
            let req = InfoSubset::from_bits_truncate(s);
            let got = catch(|| d.lexicon().get_word_info_subset(wid, req.normalize()).map_err(|e| format!("{:?}", e)));
            let w = match got {
                Ok(Ok(w)) => w,
                Ok(Err(e)) => return Some(format!("word {} loaded with the field subset {:#b} (arrays declared: A {} B {} WS {} SYN {} items): Err {}", i, s, a.len(), b.len(), ws.len(), syn.len(), e)),
                Err(p) => return Some(format!("word {} loaded with the field subset {:#b} (arrays declared: A {} B {} WS {} SYN {} items): panic {}", i, s, a.len(), b.len(), ws.len(), syn.len(), p)),
            };
            let raw = |v: &[WordId]| -> Vec<u32> { v.iter().map(|w| w.as_raw()).collect() };
            let mut diff: Vec<String> = vec![];
            if s & 1 != 0 && w.surface() != surface {
                diff.push(format!("surface {:?}, declared {:?}", w.surface(), surface));
            }
            if s & 2 != 0 && w.head_word_length() != *hwlen {
                diff.push(format!("head word length {}, declared {}", w.head_word_length(), hwlen));
            }
            if s & 4 != 0 && w.pos_id() != *pos {
                diff.push(format!("POS id {}, declared {}", w.pos_id(), pos));
            }
            if s & 8 != 0 && w.normalized_form() != norm {
                diff.push(format!("normalized form {:?}, declared {:?}", w.normalized_form(), norm));
            }
            if s & 16 != 0 && (w.dictionary_form_word_id() != *dfwi || w.dictionary_form() != dicform) {
                diff.push(format!("dictionary form {} {:?}, declared {} {:?}", w.dictionary_form_word_id(), w.dictionary_form(), dfwi, dicform));
            }
            if s & 32 != 0 && w.reading_form() != reading {
                diff.push(format!("reading {:?}, declared {:?}", w.reading_form(), reading));
            }
            if s & 64 != 0 && &raw(w.a_unit_split()) != a {
                diff.push(format!("split A {:?}, declared {:?}", raw(w.a_unit_split()), a));
            }
            if s & 128 != 0 && &raw(w.b_unit_split()) != b {
                diff.push(format!("split B {:?}, declared {:?}", raw(w.b_unit_split()), b));
            }
            if s & 256 != 0 && &raw(w.word_structure()) != ws {
                diff.push(format!("word structure {:?}, declared {:?}", raw(w.word_structure()), ws));
            }
            if s & 512 != 0 && w.synonym_group_ids() != &syn[..] {
                diff.push(format!("synonym groups {:?}, declared {:?}", w.synonym_group_ids(), syn));
            }
            if !diff.is_empty() {
                return Some(format!("word {} loaded with the field subset {:#b} (arrays declared: A {} B {} WS {} SYN {} items): {}", i, s, a.len(), b.len(), ws.len(), syn.len(), diff.join("; ")));
            }
        }
    }
    None
}

/// the route a user takes to an entry: surface -> index lookup -> word ids.  For every row, looking its index form up
/// must yield, as the entries ending exactly there, the ids of exactly the indexed rows (of every dictionary of the
/// stack) with that index form -- its own id when it is indexed, never the id of a row declared non-indexed.
/// `stack`: (dictionary id, rows) of every lexicon the loaded dictionary consists of.
pub fn lookup_route<D: DictionaryAccess>(d: &D, stack: &[(u8, &Lex)]) -> Option<String> {
    for (_, lex) in stack {
        for r in &lex.rows {
            let key = r.surface.as_bytes();
            let got = catch(|| {
                let mut v: Vec<u32> = d.lexicon().lookup(key, 0).filter(|e| e.end as usize == key.len()).map(|e| e.word_id.as_raw()).collect();
                v.sort();
                v
            });
            let mut want: Vec<u32> = vec![];
            for (dic, l2) in stack {
                for (j, r2) in l2.rows.iter().enumerate() {
                    if r2.left >= 0 && r2.surface == r.surface {
                        want.push(((*dic as u32) << 28) | j as u32);
                    }
                }
            }
            want.sort();
            match got {
                Ok(g) if g == want => {}
                Ok(g) => return Some(format!("looking up the index form {:?} yields the word ids {:?}; the indexed rows with that index form are {:?}", r.surface, g, want)),
                Err(p) => return Some(format!("looking up the index form {:?} panicked: {}", r.surface, p)),
            }
        }
    }
    None
}

pub fn compile_system(csv: &str, matrix: &str, time: u64, descr: &str) -> Result<Vec<u8>, String> {
    match catch(|| {
        let mut b = DictBuilder::new_system();
        b.set_compile_time(std::time::UNIX_EPOCH + std::time::Duration::from_secs(time));
        b.set_description(descr);
        b.read_conn(matrix.as_bytes()).map_err(|e| format!("{:?}", e))?;
        b.read_lexicon(csv.as_bytes()).map_err(|e| format!("{:?}", e))?;
        b.resolve().map_err(|e| format!("{:?}", e))?;
        let mut out = vec![];
        b.compile(&mut out).map_err(|e| format!("{:?}", e))?;
        Ok::<Vec<u8>, String>(out)
    }) {
        Ok(r) => r,
        Err(p) => Err(format!("PANIC {}", p)),
    }
}
pub fn compile_user(sys: &LoadedDictionary, csv: &str, time: u64, descr: &str) -> Result<Vec<u8>, String> {
    match catch(|| {
        let mut b = DictBuilder::new_user(sys);
        b.set_compile_time(std::time::UNIX_EPOCH + std::time::Duration::from_secs(time));
        b.set_description(descr);
        b.read_lexicon(csv.as_bytes()).map_err(|e| format!("{:?}", e))?;
        b.resolve().map_err(|e| format!("{:?}", e))?;
        let mut out = vec![];
        b.compile(&mut out).map_err(|e| format!("{:?}", e))?;
        Ok::<Vec<u8>, String>(out)
    }) {
        Ok(r) => r,
        Err(p) => Err(format!("PANIC {}", p)),
    }
}
pub fn resources() -> String {
    format!("{}/sudachi/tests/resources", repo())
}
pub fn load_with_user(sys: Vec<u8>, user: Vec<Vec<u8>>) -> Result<JapaneseDictionary, String> {
    match catch(|| {
        let cfg = Config::minimal_at(resources());
        let mut st = SudachiDicData::new(Storage::Owned(sys));
        for u in user {
            st.add_user(Storage::Owned(u));
        }
        JapaneseDictionary::from_cfg_storage(&cfg, st).map_err(|e| format!("{:?}", e))
    }) {
        Ok(r) => r,
        Err(p) => Err(format!("PANIC {}", p)),
    }
}

// ---------------------------------------------------------------- Coq side of one dictionary
#[allow(dead_code)]
fn entries_coq(lex: &Lex, e: &Expected) -> String {
    clist(lex.rows.iter().enumerate().map(|(i, r)| {
        format!(
            "mkEntry {} {} {} {} {} {} {} {} {} {} {} {} {}",
            ctxt(&r.headword),
            cnu(r.surface.len()),
            cn(e.pos_ids[i]),
            ctxt(&r.norm),
            cn(e.dic_raw[i]),
            ctxt(&r.reading),
            cnlist(&e.splits_a[i]),
            cnlist(&e.splits_b[i]),
            cnlist(&e.ws[i]),
            cnlist(r.synonyms.as_deref().unwrap_or(&[])),
            cz(r.left as i64),
            cz(r.right as i64),
            cz(r.cost as i64)
        )
    }))
}
/// the rows as the Resolve model takes them: index form, entry without split arrays, split units as written
/// the CSV fields of every row, as texts
pub fn fields_coq(rows: &[Vec<String>]) -> String {
    clist(rows.iter().map(|r| clist(r.iter().map(|f| ctxt(f)))))
}
#[allow(dead_code)]
fn rows_coq(lex: &Lex, e: &Expected) -> String {
    clist(lex.rows.iter().enumerate().map(|(i, r)| {
        let mut k = 0usize;
        let mut unit = |x: &Ref| match x {
            Ref::Sys(n) => format!("SRef {}", cn(*n)),
            Ref::User(n) => format!("SRef {}", cn((1u32 << 28) | *n)),
            Ref::Inline { surface, reading, .. } => {
                let pid = e.inline_pos[i][k];
                k += 1;
                format!("inline_of {} {} {}", ctxt(surface), cn(pid), ctxt(reading))
            }
        };
        let a = clist(r.split_a.iter().map(|x| unit(x)).collect::<Vec<_>>());
        let b = clist(r.split_b.iter().map(|x| unit(x)).collect::<Vec<_>>());
        format!(
            "mkRow {} (mkEntry {} {} {} {} {} {} [] [] {} {} {} {} {}) {} {}",
            ctxt(&r.surface),
            ctxt(&r.headword),
            cnu(r.surface.len()),
            cn(e.pos_ids[i]),
            ctxt(&r.norm),
            cn(e.dic_raw[i]),
            ctxt(&r.reading),
            cnlist(&e.ws[i]),
            cnlist(r.synonyms.as_deref().unwrap_or(&[])),
            cz(r.left as i64),
            cz(r.right as i64),
            cz(r.cost as i64),
            a,
            b
        )
    }))
}
fn or_headword<'a>(r: &'a Row, t: &'a str) -> &'a str {
    if t.is_empty() {
        &r.headword
    } else {
        t
    }
}
fn restamp(dic: u8, ids: &[u32]) -> Vec<u32> {
    ids.iter().map(|x| if x >> 28 > 0 { ((dic as u32) << 28) | (x & 0x0fff_ffff) } else { *x }).collect()
}
/// the dictionary form the declared row asks for (None: the reference cannot be honoured by construction)
fn expected_dicform(lex: &Lex, i: usize) -> String {
    let r = &lex.rows[i];
    match r.dic_form {
        DicForm::Num(n) if n as usize != i && !lex.user => or_headword(r, &lex.rows[n as usize].headword).to_string(),
        _ => r.headword.clone(),
    }
}

pub struct Case {
    pub pool: Vec<Pos>,
    pub sys: Lex,
    pub matrix: Matrix,
    pub user: Option<Lex>,
    pub sys_csv: String,
    pub sys_fields: Vec<Vec<String>>,
    pub user_fields: Vec<Vec<String>>,
    pub matrix_text: String,
    pub user_csv: String,
    /// a second user lexicon for the same system lexicon: loaded behind the first one its words are in dictionary 2
    pub user2: Option<Lex>,
    pub user2_fields: Vec<Vec<String>>,
    pub user2_csv: String,
    pub time: u64,
    pub descr: String,
}
/// references from user words to user words of the same lexicon, DIFFERENT ones in split A, split B and word structure:
/// these are what LexiconSet re-stamps, field by field, when the dictionary is not the first user dictionary
pub fn add_user_refs(lex: &mut Lex, rng: &mut Rng, sink: &mut Sink) {
    let n = lex.rows.len() as u32;
    for (i, row) in lex.rows.iter_mut().enumerate() {
        let i = i as u32;
        let splittable = row.mode.trim() != "A" && row.mode.trim() != "a";
        if splittable && rng.chance(2, 3) {
            if row.split_a.len() < 126 {
                row.split_a.push(Ref::User((i + 1) % n));
            }
            if row.split_b.len() < 126 && rng.chance(3, 4) {
                row.split_b.push(Ref::User((i + 2) % n));
                if rng.chance(1, 2) {
                    row.split_b.push(Ref::Sys(0));
                }
            }
            sink.tag("user2_row_with_user_refs_in_splits");
        }
        if rng.chance(1, 2) && row.word_structure.len() < 126 {
            row.word_structure.push(Ref::User((i + 3) % n));
            sink.tag("user2_row_with_user_ref_in_word_structure");
        }
    }
}

pub fn gen_case(rng: &mut Rng, sink: &mut Sink, want_user: bool, big: bool, findings: bool) -> Case {
    gen_case_with(rng, sink, want_user, big, findings, None)
}
/// `special`: Some(d) = the lexicon under test (the system lexicon, or the first user lexicon when there is one) is the d-th
/// directed lexicon of gen_lex_with
pub fn gen_case_with(rng: &mut Rng, sink: &mut Sink, want_user: bool, big: bool, findings: bool, special: Option<usize>) -> Case {
    let pool = gen_pos_pool(rng, sink);
    let matrix = gen_matrix(rng);
    let ids = matrix.nl.min(matrix.nr) as i16;
    let sys = gen_lex_with(rng, sink, &pool, None, ids, big && !want_user, false, if want_user { None } else { special });
    let user = if want_user { Some(gen_lex_with(rng, sink, &pool, Some(&sys), ids, big, findings, special)) } else { None };
    let user2 = if want_user {
        let mut l = gen_lex(rng, sink, &pool, Some(&sys), ids, false, false);
        add_user_refs(&mut l, rng, sink);
        Some(l)
    } else {
        None
    };
    let sys_fields = render_fields(&sys, &pool, rng, sink);
    let sys_csv = csv_of_fields(&sys_fields);
    let user_fields = user.as_ref().map(|u| render_fields(u, &pool, rng, sink)).unwrap_or_default();
    let user_csv = csv_of_fields(&user_fields);
    let user2_fields = user2.as_ref().map(|u| render_fields(u, &pool, rng, sink)).unwrap_or_default();
    let user2_csv = csv_of_fields(&user2_fields);
    let matrix_text = render_matrix(&matrix, rng);
    let descr = match rng.below(4) {
        0 => String::new(),
        1 => "x".repeat(256),
        2 => "説明 💞 description".to_string(),
        _ => gen_short(rng),
    };
    Case { pool, sys, matrix, user, sys_csv, sys_fields, user_fields, matrix_text, user_csv, user2, user2_fields, user2_csv, time: rng.below(1 << 40), descr }
}

fn version_of(user: bool) -> u64 {
    if user {
        0xca9811756ff64fb0
    } else {
        0xce9f011a92394434
    }
}

/// runs one case; returns false when the implementation rejected the (valid) input
pub fn run_case(sink: &mut Sink, c: &Case, desc: Value, verbose: bool) {
    let nontrivial_base = c.sys.rows.len() >= 2;
    if verbose {
        println!("system csv:\n{}matrix:\n{}user csv:\n{}", c.sys_csv, c.matrix_text, c.user_csv);
    }
    let sys_bytes = match compile_system(&c.sys_csv, &c.matrix_text, c.time, &c.descr) {
        Ok(b) => b,
        Err(e) => {
            let id = sink.case_rust_only(desc, false);
            sink.fail(id, &format!("valid system lexicon rejected by the compiler: {}", e), "");
            return;
        }
    };
    // determinism, in process
    match compile_system(&c.sys_csv, &c.matrix_text, c.time, &c.descr) {
        Ok(b2) if b2 == sys_bytes => sink.tag("compiled_twice_identical"),
        _ => {
            let id = sink.case_rust_only(desc, false);
            sink.fail(id, "compiling the same system lexicon twice with the same timestamp gave different bytes", "");
            return;
        }
    }
    let sys_exp = match expect(&c.sys, &c.pool, None) {
        Some(e) => e,
        None => return,
    };
    let loaded = match catch(|| DictionaryLoader::read_system_dictionary(&sys_bytes).map(|d| d.to_loaded())) {
        Ok(Ok(Some(l))) => l,
        other => {
            let id = sink.case_rust_only(desc, false);
            sink.fail(id, &format!("compiled system dictionary does not load: {:?}", other.map(|r| r.map(|_| ()).map_err(|e| format!("{:?}", e)))), "");
            return;
        }
    };
    match &c.user {
        None => {
            let rbs = readback(&loaded, 0, c.sys.rows.len());
            // POS strings and connection costs through the public accessors
            let mut bad: Option<String> = None;
            // one word per record, and every indexed record reachable through the index under its own number
            let nwords = loaded.lexicon_set.size() as usize;
            if nwords != c.sys.rows.len() {
                bad = Some(format!("the lexicon has {} records, the loaded dictionary {} words", c.sys.rows.len(), nwords));
            } else if let Some(b) = lookup_route(&loaded, &[(0, &c.sys)]) {
                bad = Some(b);
            }
            for (i, r) in c.sys.rows.iter().enumerate() {
                if let Readback::Ok { pos, .. } = &rbs[i] {
                    let got = loaded.grammar.pos_list.get(*pos as usize);
                    if got.map(|g| g.as_slice()) != Some(&c.pool[r.pos][..]) {
                        bad = Some(format!("word {}: part of speech {:?}, declared {:?}", i, got, c.pool[r.pos]));
                    }
                }
            }
            let mut conn_reads = vec![];
            for l in 0..c.matrix.nl {
                for r in 0..c.matrix.nr {
                    match catch(|| loaded.grammar.connect_cost(l as i16, r as i16)) {
                        Ok(v) => conn_reads.push((l, r, v)),
                        Err(p) => bad = Some(format!("connect_cost({}, {}) panicked: {}", l, r, p)),
                    }
                }
            }
            // alignment independence: same bytes at an odd and an even address
            let mut shifted = vec![0u8; sys_bytes.len() + 2];
            let off = if (shifted.as_ptr() as usize) % 2 == 0 { 1 } else { 0 };
            for o in [off, off + 1] {
                shifted[o..o + sys_bytes.len()].copy_from_slice(&sys_bytes);
                let view = &shifted[o..o + sys_bytes.len()];
                let same = catch(|| {
                    let l2 = DictionaryLoader::read_system_dictionary(view).ok().and_then(|d| d.to_loaded())?;
                    let r2 = readback(&l2, 0, c.sys.rows.len());
                    let mut costs = vec![];
                    for l in 0..c.matrix.nl {
                        for r in 0..c.matrix.nr {
                            costs.push((l, r, l2.grammar.connect_cost(l as i16, r as i16)));
                        }
                    }
                    Some(r2 == rbs && costs == conn_reads && l2.grammar.pos_list == loaded.grammar.pos_list)
                });
                if same != Ok(Some(true)) {
                    bad = Some(format!("loading the same bytes at address parity {} gives different reads", (view.as_ptr() as usize) % 2));
                }
                sink.tag(if (view.as_ptr() as usize) % 2 == 1 { "loaded_unaligned" } else { "loaded_aligned" });
            }
            let term = full_term(&c.sys, &c.sys_fields, None, &c.matrix, &sys_bytes, c.time, &c.descr, 0, 0, 0, &rbs, &conn_reads);
            let expd = expected_rb(&c.sys, &sys_exp, 0);
            for (i, (x, y)) in expd.iter().zip(rbs.iter()).enumerate() {
                if x != y && bad.is_none() {
                    bad = Some(format!("word {} read back as {:?}, declared {:?}", i, y, x));
                }
            }
            // the same entries under partial loads that skip stored fields and request later ones
            if bad.is_none() {
                bad = subset_readback(&loaded, 0, &expd, &rbs);
            }
            if verbose {
                println!("system csv:\n{}matrix:\n{}", c.sys_csv, c.matrix_text);
                println!("implementation read-back: {:#?}", rbs);
                println!("declared: {:#?}", expd);
            }
            sink.tag("system_dictionary");
            sink.tag(&format!("matrix_{}", if c.matrix.nl == c.matrix.nr { "square" } else { "non_square" }));
            let id = match term {
                Some(t) => sink.case(t, desc, nontrivial_base),
                None => sink.case_rust_only(desc, false),
            };
            if let Some(b) = bad {
                sink.fail(id, &b, "");
            }
        }
        Some(user) => {
            let stack_desc = {
                let mut d = desc.clone();
                d["stack"] = json!(2);
                d["user2_csv"] = json!(if c.user2_csv.len() < 1500 { c.user2_csv.clone() } else { format!("{} bytes", c.user2_csv.len()) });
                d
            };
            let uexp = match expect(user, &c.pool, Some((&c.sys, &sys_exp))) {
                Some(e) => e,
                None => return,
            };
            let ub = match compile_user(&loaded, &c.user_csv, c.time, &c.descr) {
                Ok(b) => b,
                Err(e) => {
                    let id = sink.case_rust_only(desc, false);
                    sink.fail(id, &format!("valid user lexicon rejected by the compiler: {}", e), "");
                    return;
                }
            };
            match compile_user(&loaded, &c.user_csv, c.time, &c.descr) {
                Ok(b2) if b2 == ub => sink.tag("compiled_twice_identical"),
                _ => {
                    let id = sink.case_rust_only(desc, false);
                    sink.fail(id, "compiling the same user lexicon twice with the same timestamp gave different bytes", "");
                    return;
                }
            }
            let nsys = loaded.grammar.pos_list.len();
            let jd = match load_with_user(sys_bytes.clone(), vec![ub.clone()]) {
                Ok(d) => d,
                Err(e) => {
                    let id = sink.case_rust_only(desc, false);
                    sink.fail(id, &format!("compiled user dictionary does not load: {}", e), "");
                    return;
                }
            };
            let rbs = readback(&jd, 1, user.rows.len());
            let mut bad: Option<String> = None;
            let mut known = false;
            let nwords = jd.lexicon().size() as usize;
            if nwords != c.sys.rows.len() + user.rows.len() {
                bad = Some(format!("the lexicons have {} + {} records, the loaded dictionaries {} words", c.sys.rows.len(), user.rows.len(), nwords));
            } else if let Some(b) = lookup_route(&jd, &[(0, &c.sys), (1, user)]) {
                bad = Some(b);
            }
            for (i, r) in user.rows.iter().enumerate() {
                if let Readback::Ok { pos, .. } = &rbs[i] {
                    let got = jd.grammar().pos_list.get(*pos as usize);
                    if got.map(|g| g.as_slice()) != Some(&c.pool[r.pos][..]) {
                        bad = Some(format!("user word {}: part of speech {:?}, declared {:?}", i, got, c.pool[r.pos]));
                    }
                }
            }
            let expd = expected_rb(user, &uexp, 1);
            let has_finding_row = user.rows.iter().any(|r| r.dic_form != DicForm::None);
            for (i, (x, y)) in expd.iter().zip(rbs.iter()).enumerate() {
                if x == y {
                    continue;
                }
                // known finding: only the dictionary form of a user-dictionary row with a dictionary-form reference
                let is_known = user.rows[i].dic_form != DicForm::None
                    && match (x, y) {
                        (_, Readback::Fail(_)) => true,
                        (Readback::Ok { dicform: _, .. }, Readback::Ok { .. }) => {
                            let mut y2 = y.clone();
                            if let (Readback::Ok { dicform: d2, .. }, Readback::Ok { dicform: d1, .. }) = (&mut y2, x) {
                                *d2 = d1.clone();
                            }
                            &y2 == x
                        }
                        _ => false,
                    };
                if is_known {
                    known = true;
                } else if bad.is_none() {
                    bad = Some(format!("user word {} read back as {:?}, declared {:?}", i, y, x));
                }
            }
            if bad.is_none() {
                bad = subset_readback(&jd, 1, &expd, &rbs).map(|b| format!("user {}", b));
            }
            if verbose {
                println!("system csv:\n{}matrix:\n{}user csv:\n{}", c.sys_csv, c.matrix_text, c.user_csv);
                println!("implementation read-back: {:#?}", rbs);
                println!("declared: {:#?}", expd);
            }
            sink.tag("user_dictionary");
            let um = Matrix { nl: 0, nr: 0, lines: vec![] };
            let term = if has_finding_row {
                sections(&ub).map(|s| {
                    format!(
                        "check_c05_model_only_csv {} {} {} {} 1%N {} {} {}",
                        cnu(s.words_offset),
                        fields_coq(&c.sys_fields),
                        fields_coq(&c.user_fields),
                        cblob(s.words),
                        cnu(nsys),
                        cnu(nsys),
                        clist(rbs.iter().map(|r| r.coq()))
                    )
                })
            } else {
                full_term(user, &c.user_fields, Some(&c.sys_fields), &um, &ub, c.time, &c.descr, 1, nsys, nsys, &rbs, &[])
            };
            let id = match term {
                Some(t) => sink.case(t, desc, true),
                None => sink.case_rust_only(desc, false),
            };
            if let Some(b) = bad {
                sink.fail(id, &b, "");
            } else if known {
                sink.tag("known_user_dicform_ref");
                sink.fail(
                    id,
                    "user-dictionary row with a dictionary-form reference (U<n> or <n>): compiles, but reading the word panics or reports another entry's form",
                    KNOWN_USER_DICFORM,
                );
            }
            // the same system dictionary with BOTH user dictionaries: the rows of the second one are read back as
            // dictionary 2 (POS ids re-based behind the POS the first one added; U-references of split A, split B and
            // word structure re-stamped to 2, each field by its own rule)
            if let Some(u2) = &c.user2 {
                run_stack_case(sink, c, user, &uexp, u2, &loaded, &sys_bytes, &sys_exp, &ub, nsys, stack_desc, verbose);
            }
        }
    }
}

#[allow(clippy::too_many_arguments)]
fn run_stack_case(
    sink: &mut Sink,
    c: &Case,
    user: &Lex,
    uexp: &Expected,
    u2: &Lex,
    loaded: &LoadedDictionary,
    sys_bytes: &[u8],
    sys_exp: &Expected,
    ub: &[u8],
    nsys: usize,
    desc: Value,
    verbose: bool,
) {
    let e2 = match expect(u2, &c.pool, Some((&c.sys, sys_exp))) {
        Some(e) => e,
        None => return,
    };
    let ub2 = match compile_user(loaded, &c.user2_csv, c.time, &c.descr) {
        Ok(b) => b,
        Err(e) => {
            let id = sink.case_rust_only(desc, false);
            sink.fail(id, &format!("valid second user lexicon rejected by the compiler: {}", e), "");
            return;
        }
    };
    let jd = match load_with_user(sys_bytes.to_vec(), vec![ub.to_vec(), ub2.clone()]) {
        Ok(d) => d,
        Err(e) => {
            let id = sink.case_rust_only(desc, false);
            sink.fail(id, &format!("system dictionary with two user dictionaries does not load: {}", e), "");
            return;
        }
    };
    let rbs = readback(&jd, 2, u2.rows.len());
    // POS added by this dictionary are reported behind those the first user dictionary added
    let shift = uexp.new_pos.len() as u16;
    let expd: Vec<Readback> = expected_rb(u2, &e2, 2)
        .into_iter()
        .map(|r| match r {
            Readback::Ok { surface, hwlen, pos, norm, dfwi, dicform, reading, a, b, ws, syn, params } => {
                Readback::Ok { surface, hwlen, pos: if pos as usize >= nsys { pos + shift } else { pos }, norm, dfwi, dicform, reading, a, b, ws, syn, params }
            }
            x => x,
        })
        .collect();
    let mut bad: Option<String> = None;
    let nwords = jd.lexicon().size() as usize;
    if nwords != c.sys.rows.len() + user.rows.len() + u2.rows.len() {
        bad = Some(format!("the lexicons have {} + {} + {} records, the loaded dictionaries {} words", c.sys.rows.len(), user.rows.len(), u2.rows.len(), nwords));
    } else if let Some(b) = lookup_route(&jd, &[(0, &c.sys), (1, user), (2, u2)]) {
        bad = Some(b);
    }
    for (i, r) in u2.rows.iter().enumerate() {
        if let Readback::Ok { pos, .. } = &rbs[i] {
            let got = jd.grammar().pos_list.get(*pos as usize);
            if got.map(|g| g.as_slice()) != Some(&c.pool[r.pos][..]) && bad.is_none() {
                bad = Some(format!("word {} of the second user dictionary: part of speech {:?}, declared {:?}", i, got, c.pool[r.pos]));
            }
        }
    }
    for (i, (x, y)) in expd.iter().zip(rbs.iter()).enumerate() {
        if x != y && bad.is_none() {
            bad = Some(format!("word {} of the second user dictionary read back as {:?}, declared {:?}", i, y, x));
        }
    }
    if bad.is_none() {
        bad = subset_readback(&jd, 2, &expd, &rbs).map(|b| format!("second user dictionary: {}", b));
    }
    if verbose {
        println!("second user csv:\n{}", c.user2_csv);
        println!("implementation read-back (dictionary 2): {:#?}", rbs);
        println!("declared: {:#?}", expd);
    }
    sink.tag("user_dictionary_2_of_a_stack");
    if u2.rows.iter().any(|r| r.split_b.iter().any(|x| matches!(x, Ref::User(_)))) {
        sink.tag("user_dictionary_2_with_user_ref_in_split_b");
    }
    let um = Matrix { nl: 0, nr: 0, lines: vec![] };
    // POS of the second dictionary are re-based behind those the first one added
    let pos_offset = nsys + uexp.new_pos.len();
    let term = full_term(u2, &c.user2_fields, Some(&c.sys_fields), &um, &ub2, c.time, &c.descr, 2, nsys, pos_offset, &rbs, &[]);
    let id = match term {
        Some(t) => sink.case(t, desc, true),
        None => sink.case_rust_only(desc, false),
    };
    if let Some(b) = bad {
        sink.fail(id, &b, "");
    }
}

fn expected_rb(lex: &Lex, e: &Expected, dic: u8) -> Vec<Readback> {
    lex.rows
        .iter()
        .enumerate()
        .map(|(i, r)| Readback::Ok {
            surface: r.headword.clone(),
            hwlen: r.surface.len(),
            pos: e.pos_ids[i],
            norm: or_headword(r, &r.norm).to_string(),
            dfwi: e.dic_raw[i] as i32,
            dicform: expected_dicform(lex, i),
            reading: or_headword(r, &r.reading).to_string(),
            a: restamp(dic, &e.splits_a[i]),
            b: restamp(dic, &e.splits_b[i]),
            ws: restamp(dic, &e.ws[i]),
            syn: r.synonyms.clone().unwrap_or_default(),
            params: (r.left, r.right, r.cost),
        })
        .collect()
}

#[allow(clippy::too_many_arguments)]
fn full_term(
    lex: &Lex,
    fields: &[Vec<String>],
    sys_fields: Option<&[Vec<String>]>,
    m: &Matrix,
    bytes: &[u8],
    time: u64,
    descr: &str,
    dic: u8,
    nsys: usize,
    pos_offset: usize,
    rbs: &[Readback],
    conn_reads: &[(u32, u32, i16)],
) -> Option<String> {
    let s = sections(bytes)?;
    Some(format!(
        "check_c05_csv {} {} {} {} {} {} {} {} {} {} {} {} {} {} {} {} {} {} {} {} {}",
        cn(version_of(lex.user)),
        cn(time),
        cblob(descr.as_bytes()),
        cblob(s.header),
        cblob(s.pos),
        cn(m.nl),
        cn(m.nr),
        clist(m.lines.iter().map(|(l, r, c)| format!("({}, {}, {})", cn(*l), cn(*r), cz(*c as i64)))),
        cblob(s.conn),
        clist(conn_reads.iter().map(|(l, r, c)| format!("({}, {}, {})", cn(*l), cn(*r), cz(*c as i64)))),
        cnu(s.words_offset),
        cbool(lex.user),
        sys_fields.map(fields_coq).unwrap_or_else(|| "[]".to_string()),
        fields_coq(fields),
        cblob(s.words),
        cn(dic),
        cnu(nsys),
        cnu(pos_offset),
        clist((0..lex.rows.len()).map(|i| ctxt(&expected_dicform(lex, i)))),
        clist(rbs.iter().map(|r| r.coq())),
        // the index sections, for builder C's model of the index construction (skipped for the 32 K keys: the enumeration
        // of the trie costs nodes x 256; the lexicons with short index forms are the many)
        if s.trie.len() <= 16_384 && lex.rows.iter().all(|r| r.surface.len() < 48) {
            format!("(Some ({}, {}, {}%nat))", cblob(s.trie), cblob(s.table), lex.rows.iter().map(|r| r.surface.len()).max().unwrap_or(0) + 1)
        } else {
            "None".to_string()
        }
    ))
}

/// kind of a build error as the model names it: (code, digits of a bad escape)
fn error_kind(e: &str) -> Option<(u32, String)> {
    let i = e.find("cause: ")?;
    let c = &e[i + 7..];
    let name: String = c.chars().take_while(|ch| ch.is_alphanumeric()).collect();
    let arg = || {
        let a = c.find("(\"")? + 2;
        let b = c[a..].find('"')? + a;
        Some(c[a..b].to_string())
    };
    Some(match name.as_str() {
        "InvalidSize" => (1, String::new()),
        "InvalidCharLiteral" => {
            let d = arg()?;
            if d == "0 in surface" {
                (12, String::new())
            } else {
                (2, d)
            }
        }
        "InvalidI16Literal" => (3, String::new()),
        "InvalidU32Literal" => (4, String::new()),
        "InvalidWordId" => (5, String::new()),
        "InvalidSplit" => {
            if arg()?.starts_with("A-mode") {
                (10, String::new())
            } else {
                (6, String::new())
            }
        }
        "SplitFormatError" => (7, String::new()),
        "NoRawField" => (8, String::new()),
        "PosLimitExceeded" => (9, String::new()),
        "EmptySurface" => (11, String::new()),
        _ => return None,
    })
}

/// rows the field parsers must refuse, one defect per case (sometimes a second, later one, to pin the order in which the
/// columns are read): the model refuses them with the same kind of error
fn rejected_rows(sink: &mut Sink, rng: &mut Rng, n: usize) {
    let good: Vec<String> = "京都,0,0,5293,京都,名詞,固有名詞,地名,一般,*,*,キョウト,京都,*,C,*,*,*,*".split(',').map(|x| x.to_string()).collect();
    let long = "a".repeat(32768);
    let many = vec!["0"; 128].join("/");
    let bad_escapes = ["\\uD800", "\\udfff", "x\\u{D800}y", "\\u{110000}", "\\u{FFFFFF}", "\\uDBFF\\uDC00", "\\u0041\\ud800", "\\u{dFfF}", "\\u{00d800}"];
    let bad_i16 = ["32768", "-32769", "1.5", "", "+", "-", "--1", " 5", "5 ", "１２", "0x10", "1e3", "+-1", "99999999999999999999"];
    let bad_u32 = ["-1", "4294967296", "1//2", "a", "1/", "+", "-0", "1/ 2"];
    let bad_wid = ["268435456", "U", "Ux", "-1", "U-1", "4294967296", "**", "U268435456", "u1"];
    let bad_mode = ["D", "", "AB", "A B", "Ａ", "bc", "**"];
    let bad_inline = ["東,名詞", "x", "+3", "U", "東,名詞,普通名詞,一般,*,*,*", "U+1"];
    for k in 0..n {
        let mut row = good.clone();
        let what: String;
        match k % 14 {
            0 => {
                let c = *rng.pick(&[0usize, 4, 5, 7, 10, 11, 12]);
                row[c] = rng.pick(&bad_escapes).to_string();
                what = format!("column {}: escape naming no scalar value", c);
            }
            1 => {
                let c = *rng.pick(&[0usize, 4, 6, 11, 12]);
                row[c] = long.clone();
                what = format!("column {}: 32768 bytes", c);
            }
            2 => {
                let c = 1 + rng.below(3) as usize;
                row[c] = rng.pick(&bad_i16).to_string();
                what = format!("column {}: no i16 literal", c);
            }
            3 => {
                row[18] = rng.pick(&bad_u32).to_string();
                what = "synonym column: no u32 literal".into();
            }
            4 => {
                let c = *rng.pick(&[13usize, 17]);
                row[c] = rng.pick(&bad_wid).to_string();
                what = format!("column {}: no word id", c);
            }
            5 => {
                row[14] = rng.pick(&bad_mode).to_string();
                what = "no mode".into();
            }
            6 => {
                row[14] = rng.pick(&["A", "a", " A "]).to_string();
                row[*rng.pick(&[15usize, 16])] = "0".into();
                what = "mode A with splits".into();
            }
            7 => {
                row[0] = rng.pick(&["", "\\u0000", "a\\u{0}b"]).to_string();
                what = "empty surface / NUL in the surface".into();
            }
            8 => {
                row[*rng.pick(&[15usize, 16])] = rng.pick(&bad_inline).to_string();
                what = "inline reference with fewer than 8 fields".into();
            }
            9 => {
                row[*rng.pick(&[15usize, 16, 17, 18])] = many.clone();
                what = "list of 128 items".into();
            }
            10 => {
                row.truncate(*rng.pick(&[17usize, 5, 1, 14]));
                what = "row with too few columns".into();
            }
            11 => {
                // inline reference whose own field carries a bad escape
                row[15] = format!("東,名詞,普通名詞,{},*,*,*,ヒガシ", rng.pick(&bad_escapes));
                what = "inline reference: escape naming no scalar value".into();
            }
            12 => {
                // two defects: the earlier column decides
                row[3] = "x".into();
                row[13] = "U".into();
                row[4] = "\\uD800".into();
                what = "cost, headword and dictionary form bad: the cost is read first".into();
            }
            _ => {
                row[12] = "\\u{110000}".into();
                row[18] = "x".into();
                what = "normalised form and synonyms bad: the form is read first".into();
            }
        }
        let mut rows = vec![];
        if rng.chance(1, 2) {
            rows.push(good.clone());
        }
        rows.push(row);
        let csv = csv_of_fields(&rows);
        let desc = json!({"kind": "c05-rejected", "what": what, "fields": if csv.len() < 600 { json!(rows) } else { json!("(long)") }});
        match compile_system(&csv, "1 1\n0 0 0\n", 0, "") {
            Err(e) if !e.starts_with("PANIC") => match error_kind(&e) {
                Some((code, digits)) => {
                    sink.tag(&format!("rejected_kind_{}", code));
                    sink.case(format!("check_c05_reject {} {} {}", fields_coq(&rows), cn(code), ctxt(&digits)), desc, true);
                }
                None => {
                    let id = sink.case_rust_only(desc, false);
                    sink.fail(id, &format!("{}: refused with an error the model has no name for: {}", what, e), "");
                }
            },
            Err(_) => sink.tag("malformed_compiler_panic"), // a compiler panic on malformed input belongs to C06
            Ok(_) => {
                let id = sink.case_rust_only(desc, false);
                sink.fail(id, &format!("malformed row accepted: {}", what), "");
            }
        }
    }
}

/// inputs the compiler must reject (never a silently different dictionary)
fn malformed(sink: &mut Sink, rng: &mut Rng, n: usize) {
    let base = "京都,0,0,5293,京都,名詞,固有名詞,地名,一般,*,*,キョウト,京都,*,A,*,*,*,*\n";
    let mut rejected = 0u64;
    for k in 0..n {
        let (csv, what): (String, &str) = match k % 6 {
            0 => (format!("{},0,0,1,x,名詞,普通名詞,一般,*,*,*,x,x,*,A,*,*,*,*\n", "a".repeat(32768)), "string of 32768 bytes"),
            1 => (format!("{}東,0,0,1,東,名詞,普通名詞,一般,*,*,*,x,x,*,C,{},*,*,*\n", base, vec!["0"; 128].join("/")), "128 split items"),
            2 => (format!("{}東,0,0,1,東,名詞,普通名詞,一般,*,*,*,x,x,*,C,*,*,{},*\n", base, 2 + rng.below(100)), "word structure id out of range"),
            3 => (format!("{}東,0,0,1,\\u{{110000}},名詞,普通名詞,一般,*,*,*,x,x,*,A,*,*,*,*\n", base), "escape above U+10FFFF"),
            4 => (format!("{}東,0,0,1,東,名詞,普通名詞,一般,*,*,*,x,x,*,C,\"無,名詞,普通名詞,一般,*,*,*,ム\",*,*,*\n", base), "unresolvable inline reference"),
            _ => (format!("{}東,{},0,1,東,名詞,普通名詞,一般,*,*,*,x,x,*,A,*,*,*,*\n", base, 1 + rng.below(3)), "left id outside the matrix"),
        };
        match compile_system(&csv, "1 1\n0 0 0\n", 0, "") {
            Err(e) if !e.starts_with("PANIC") => rejected += 1,
            Err(e) => {
                sink.tag("malformed_compiler_panic");
                let _ = e; // a compiler panic on malformed input belongs to C06
            }
            Ok(_) => {
                let id = sink.case_rust_only(json!({"kind": "c05-malformed", "what": what, "csv": if csv.len() < 400 { csv.clone() } else { format!("{}…", &csv[..100]) }}), false);
                sink.fail(id, &format!("malformed lexicon accepted: {}", what), "");
            }
        }
    }
    sink.tag_n("malformed_rejected", rejected);
}

/// determinism across processes: this binary is run again in replay mode and only compiles
fn second_process(args: &Args, sink: &mut Sink, c: &Case, bytes: &[u8], k: usize) {
    let dir = args.work.join("c05_proc");
    let _ = std::fs::create_dir_all(&dir);
    let f = dir.join(format!("compile_{}.json", k));
    let out = dir.join(format!("compile_{}.bin", k));
    let _ = std::fs::remove_file(&out);
    let v = json!({"case": {"kind": "c05-compile-only", "csv": c.sys_csv, "matrix": c.matrix_text, "time": c.time, "descr": c.descr, "out": out.to_string_lossy()}});
    std::fs::write(&f, v.to_string()).unwrap();
    let st = std::process::Command::new(std::env::current_exe().unwrap())
        .args(["C05", "--seed", "0", "--tier", "quick", "--out"])
        .arg(dir.join("out"))
        .arg("--replay")
        .arg(&f)
        .output();
    let same = st.is_ok() && std::fs::read(&out).map(|b| b == bytes).unwrap_or(false);
    let id = sink.case_rust_only(json!({"kind": "c05-second-process", "csv": c.sys_csv, "matrix": c.matrix_text, "time": c.time}), true);
    sink.tag("compiled_in_second_process");
    if !same {
        sink.fail(id, "a second process compiling the same inputs with the same timestamp produced different bytes", "");
    }
}

// ---------------------------------------------------------------- the largest stack: 14 user dictionaries
/// Dictionary ids are 4 bits; 15 marks out-of-vocabulary words, so a system dictionary carries at most 14 user dictionaries.
/// n user dictionaries (2 entries each: a plain word with its own POS, reading, normalized form, synonym groups; a compound
/// whose split A / word structure refer to the plain word as U0 and to system word 0) are compiled and loaded together.
/// For n <= 14 every entry of every dictionary must come back as declared by all three public routes: the lexicon
/// (get_word_info / get_word_param), MorphemeList::lookup of its index form, and the analysis of its index form (mode C:
/// the entry itself; mode A on the compound: its two units).  n = 15 must be refused (TooManyDictionaries).
fn many_case(n: usize, st: u64, verbose: bool) -> Result<(), String> {
    use sudachi::analysis::mlist::MorphemeList;
    use sudachi::analysis::stateful_tokenizer::StatefulTokenizer;
    use sudachi::analysis::Mode;
    let mut rng = Rng(st);
    let sys_csv = "複合,0,0,100,複合,名詞,普通名詞,一般,*,*,*,フクゴウ,複合,*,A,*,*,*,*\nの,0,0,200,の,助詞,格助詞,*,*,*,*,ノ,の,*,A,*,*,*,*\n";
    let sys_bytes = compile_system(sys_csv, "1 1\n0 0 0\n", 0, "c05 many")?;
    let loaded = match catch(|| DictionaryLoader::read_system_dictionary(&sys_bytes).map(|d| d.to_loaded())) {
        Ok(Ok(Some(l))) => l,
        _ => return Err("the system dictionary of the many-dictionaries case does not load".into()),
    };
    struct Decl {
        surface: String,
        pos: Vec<String>,
        reading: String,
        norm: String,
        syn: Vec<u32>,
        cost: i16,
        a: Vec<u32>,
        ws: Vec<u32>,
    }
    let mut users: Vec<Vec<u8>> = vec![];
    let mut decls: Vec<Vec<Decl>> = vec![];
    for k in 1..=n {
        let tail: String = (0..1 + rng.below(2)).map(|_| *rng.pick(&['ぴ', 'そ', 'ぬ', 'ゑ', 'ヰ'])).collect();
        let w = format!("利用者語{}{}", k, tail);
        let pos: Vec<String> = ["名詞", "固有名詞", &format!("利用者{}", k), "*", "*", "*"].iter().map(|x| x.to_string()).collect();
        let syn = vec![k as u32, 1000 + rng.below(1000) as u32];
        let (c0, c1) = (-(100 + rng.below(100) as i16), -(3000 + rng.below(100) as i16));
        let plain = Decl { surface: w.clone(), pos: pos.clone(), reading: format!("リヨウシャ{}", k), norm: format!("利用者語{}正規", k), syn: syn.clone(), cost: c0, a: vec![], ws: vec![] };
        let uid = ((k as u32) << 28) | 0;
        let comp = Decl { surface: format!("{}複合", w), pos: pos.clone(), reading: format!("リヨウシャ{}フクゴウ", k), norm: format!("{}複合", w), syn: vec![], cost: c1, a: vec![uid, 0], ws: vec![uid, 0] };
        let csv = format!(
            "{},0,0,{},{},{},{},{},{}\n{},0,0,{},{},{},{},{},*,C,U0/0,*,U0/0,*\n",
            plain.surface, plain.cost, plain.surface, pos.join(","), plain.reading, plain.norm, format!("*,A,*,*,*,{}/{}", syn[0], syn[1]),
            comp.surface, comp.cost, comp.surface, pos.join(","), comp.reading, comp.norm
        );
        if verbose {
            println!("user dictionary {}:\n{}", k, csv);
        }
        users.push(compile_user(&loaded, &csv, 0, "c05 many")?);
        decls.push(vec![plain, comp]);
    }
    let jd = match load_with_user(sys_bytes.clone(), users) {
        Ok(d) => {
            if n > 14 {
                // what follows shows what the words of dictionary 15 come back as
                if verbose {
                    println!("{} user dictionaries were loaded", n);
                }
            }
            d
        }
        Err(e) => {
            return if n > 14 && e.contains("TooManyDictionaries") { Ok(()) } else { Err(format!("a system dictionary with {} user dictionaries does not load: {}", n, e)) };
        }
    };
    let mut first: Option<String> = None;
    let mut note = |m: String| {
        if verbose {
            println!("{}", m);
        }
        if first.is_none() {
            first = Some(m);
        }
    };
    for (k0, ds) in decls.iter().enumerate() {
        let k = k0 + 1;
        for (i, d) in ds.iter().enumerate() {
            let wid = WordId::new(k as u8, i as u32);
            let who = format!("word {} ({:?}) of user dictionary {} of {}", i, d.surface, k, n);
            // route 1: the lexicon
            match catch(|| jd.lexicon().get_word_info(wid).map(|w| (w, jd.lexicon().get_word_param(wid)))) {
                Ok(Ok((w, p))) => {
                    let pos = jd.grammar().pos_list.get(w.pos_id() as usize).cloned().unwrap_or_default();
                    let a: Vec<u32> = w.a_unit_split().iter().map(|x| x.as_raw()).collect();
                    let ws: Vec<u32> = w.word_structure().iter().map(|x| x.as_raw()).collect();
                    if w.surface() != d.surface || pos != d.pos || w.reading_form() != d.reading || w.normalized_form() != d.norm || w.synonym_group_ids() != &d.syn[..] || a != d.a || ws != d.ws || p != (0, 0, d.cost) {
                        note(format!("{}: get_word_info gives surface {:?} POS {:?} reading {:?} normalized {:?} synonyms {:?} split A {:?} word structure {:?} params {:?}; declared {:?} {:?} {:?} {:?} {:?} {:?} {:?} cost {}", who, w.surface(), pos, w.reading_form(), w.normalized_form(), w.synonym_group_ids(), a, ws, p, d.surface, d.pos, d.reading, d.norm, d.syn, d.a, d.ws, d.cost));
                    }
                }
                other => note(format!("{}: get_word_info fails: {:?}", who, other.map(|r| r.map(|_| ()).map_err(|e| format!("{:?}", e))))),
            }
            // routes 2 and 3: lookup of the index form, analysis of the index form
            type Seen = (u32, bool, Vec<String>, String, String, String, Vec<u32>, String);
            let see = |m: &sudachi::analysis::morpheme::Morpheme<&JapaneseDictionary>| -> Seen {
                (m.word_id().as_raw(), m.is_oov(), m.part_of_speech().to_vec(), m.reading_form().to_string(), m.normalized_form().to_string(), m.dictionary_form().to_string(), m.synonym_group_ids().to_vec(), m.surface().to_string())
            };
            let want: Seen = (wid.as_raw(), false, d.pos.clone(), d.reading.clone(), d.norm.clone(), d.surface.clone(), d.syn.clone(), d.surface.clone());
            match catch(|| -> Result<Vec<Seen>, String> {
                let mut ml = MorphemeList::empty(&jd);
                let cnt = ml.lookup(&d.surface, sudachi::dic::subset::InfoSubset::all()).map_err(|e| format!("{:?}", e))?;
                Ok((0..cnt).map(|j| see(&ml.get(j))).collect())
            }) {
                Ok(Ok(v)) if v == vec![want.clone()] => {}
                other => note(format!("{}: MorphemeList::lookup of its index form gives (word id, oov, POS, reading, normalized, dictionary form, synonyms, surface) {:?}; declared {:?}", who, other, want)),
            }
            let analyse = |mode: Mode| -> Result<Vec<Seen>, String> {
                match catch(|| -> Result<Vec<Seen>, String> {
                    let mut tok = StatefulTokenizer::new(&jd, mode);
                    tok.reset().push_str(&d.surface);
                    tok.do_tokenize().map_err(|e| format!("{:?}", e))?;
                    let ml = tok.into_morpheme_list().map_err(|e| format!("{:?}", e))?;
                    Ok((0..ml.len()).map(|j| see(&ml.get(j))).collect())
                }) {
                    Ok(r) => r,
                    Err(p) => Err(format!("panic {}", p)),
                }
            };
            match analyse(Mode::C) {
                Ok(v) if v == vec![want.clone()] => {}
                other => note(format!("{}: the analysis of its index form (mode C) gives (word id, oov, POS, reading, normalized, dictionary form, synonyms, surface) {:?}; declared {:?}", who, other, want)),
            }
            if i == 1 {
                // mode A: the units of split A -- the plain word of the same dictionary, then system word 0
                let p = &ds[0];
                let want_a: Vec<Seen> = vec![
                    (WordId::new(k as u8, 0).as_raw(), false, p.pos.clone(), p.reading.clone(), p.norm.clone(), p.surface.clone(), p.syn.clone(), p.surface.clone()),
                    (0, false, ["名詞", "普通名詞", "一般", "*", "*", "*"].iter().map(|x| x.to_string()).collect(), "フクゴウ".into(), "複合".into(), "複合".into(), vec![], "複合".into()),
                ];
                match analyse(Mode::A) {
                    Ok(v) if v == want_a => {}
                    other => note(format!("{}: the analysis of its index form in mode A gives {:?}; its split A declares {:?}", who, other, want_a)),
                }
            }
        }
    }
    if n > 14 {
        let m = format!("{} user dictionaries were accepted (dictionary id 15 marks out-of-vocabulary words; at most 14 fit)", n);
        return Err(match first {
            Some(f) => format!("{}; {}", m, f),
            None => m,
        });
    }
    match first {
        Some(f) => Err(f),
        None => Ok(()),
    }
}
fn many_user_dictionaries(sink: &mut Sink, rng: &mut Rng) {
    for n in [1usize, 2, 13, 14, 15, 16] {
        let st = rng.next();
        let id = sink.case_rust_only(json!({"kind": "c05-many", "n": n, "rng": st}), true);
        sink.tag(&format!("stack_of_{}_user_dictionaries", n));
        if let Err(e) = many_case(n, st, false) {
            sink.fail(id, &e, "");
        }
    }
}

// ---------------------------------------------------------------- inline references that meet ONE entry with their surface
/// An inline reference `surface,POS,reading` names the entry with exactly that surface, POS and reading: own entries first
/// (RawDictResolver), then -- for a user dictionary -- the system dictionary (BinDictResolver); no such entry = build error.
/// Directed, whatever the seed: the lexicon being compiled holds exactly ONE entry with the referenced surface, and that
/// entry differs from the reference in POS (variant bit 0) and / or reading (bit 1).
///   user, hit: the intended entry (same surface, the referenced POS and reading) is in the system dictionary -> resolved to it;
///   user, miss / system, miss: no entry matches -> the build must fail, never resolve silently.
/// Returns the case and whether a build error is expected.
fn inline_directed_case(v: usize, scratch_base: &std::path::Path) -> (Case, bool) {
    let diff = 1 + v % 3; // 1 POS, 2 reading, 3 both
    let shape = v / 3; // 0 user-hit, 1 user-miss, 2 system-miss, 3 user-hit in split B with a second reference
    let pool: Vec<Pos> = vec![std_pos(), ["動詞", "一般", "*", "*", "五段-カ行", "終止形-一般"].map(|x| x.to_string())];
    let row = |surface: &str, pos: usize, reading: &str, mode: &'static str, a: Vec<Ref>, b: Vec<Ref>| Row {
        surface: surface.to_string(),
        left: 0,
        right: 0,
        cost: 100,
        headword: surface.to_string(),
        pos,
        reading: reading.to_string(),
        norm: surface.to_string(),
        dic_form: DicForm::None,
        mode,
        split_a: a,
        split_b: b,
        word_structure: vec![],
        synonyms: Some(vec![]),
        star_lists: true,
    };
    // the referenced entry: 京都 / POS 0 / キョウト; the lone own entry with that surface differs from it
    let (own_pos, own_reading) = (if diff & 1 != 0 { 1 } else { 0 }, if diff & 2 != 0 { "ミヤコ" } else { "キョウト" });
    let reference = Ref::Inline { surface: "京都".to_string(), pos: 0, reading: "キョウト".to_string() };
    let lone = row("京都", own_pos, own_reading, "A", vec![], vec![]);
    let sys_rows = match shape {
        // the intended entry is system word 1
        0 | 3 => vec![row("東", 0, "ヒガシ", "A", vec![], vec![]), row("京都", 0, "キョウト", "A", vec![], vec![]), row("行", 1, "イ", "A", vec![], vec![])],
        1 => vec![row("東", 0, "ヒガシ", "A", vec![], vec![]), row("行", 1, "イ", "A", vec![], vec![])],
        _ => vec![row("東", 0, "ヒガシ", "A", vec![], vec![]), row("行", 1, "イ", "A", vec![], vec![]), lone.clone(), row("京都行", 0, "キョウトイキ", "C", vec![reference.clone(), Ref::Sys(1)], vec![])],
    };
    let sys = Lex { rows: sys_rows, user: false };
    let user = match shape {
        0 | 1 => Some(Lex { rows: vec![lone.clone(), row("京都行", 0, "キョウトイキ", "C", vec![reference.clone(), Ref::Sys(if shape == 0 { 2 } else { 1 })], vec![])], user: true }),
        3 => Some(Lex { rows: vec![row("京都行", 0, "キョウトイキ", "B", vec![], vec![reference.clone(), Ref::Inline { surface: "行".to_string(), pos: 1, reading: "イ".to_string() }]), lone.clone()], user: true }),
        _ => None,
    };
    let mut rng = Rng(0x1111 + v as u64);
    let scratch_dir = scratch_base.join("scratch-inline");
    let mut scratch = Sink::new("C05", &scratch_dir, &[], 0, "quick");
    let sys_fields = render_fields(&sys, &pool, &mut rng, &mut scratch);
    let user_fields = user.as_ref().map(|u| render_fields(u, &pool, &mut rng, &mut scratch)).unwrap_or_default();
    let _ = std::fs::remove_dir_all(&scratch_dir);
    let matrix = Matrix { nl: 1, nr: 1, lines: vec![(0, 0, 0)] };
    let c = Case {
        pool,
        sys_csv: csv_of_fields(&sys_fields),
        sys_fields,
        user_csv: csv_of_fields(&user_fields),
        user_fields,
        matrix_text: "1 1\n0 0 0\n".to_string(),
        matrix,
        sys,
        user,
        user2: None,
        user2_fields: vec![],
        user2_csv: String::new(),
        time: 0,
        descr: "c05 inline directed".to_string(),
    };
    (c, shape == 1 || shape == 2)
}
const INLINE_DIRECTED: usize = 12;
fn inline_directed(sink: &mut Sink, v: usize, verbose: bool) {
    let (c, want_error) = inline_directed_case(v, &sink.dir.clone());
    let desc = json!({"kind": "c05-inline-directed", "variant": v, "user": c.user.is_some(), "csv": c.sys_csv, "user_csv": c.user_csv, "matrix": c.matrix_text});
    sink.tag(&format!("directed:inline_reference_meets_one_entry_with_its_surface:{}", ["user_hit_in_system", "user_no_match", "system_no_match", "user_hit_in_system_split_b"][v / 3]));
    if !want_error {
        run_case(sink, &c, desc, verbose);
        return;
    }
    if verbose {
        println!("system csv:\n{}user csv:\n{}", c.sys_csv, c.user_csv);
    }
    let id = sink.case_rust_only(desc, true);
    let sys_built = compile_system(&c.sys_csv, &c.matrix_text, c.time, &c.descr);
    let outcome: Result<(Vec<u8>, Option<Vec<u8>>), String> = match (&c.user, sys_built) {
        (None, r) => r.map(|b| (b, None)),
        (Some(_), Err(e)) => {
            sink.fail(id, &format!("valid system lexicon rejected by the compiler: {}", e), "");
            return;
        }
        (Some(_), Ok(sb)) => match catch(|| DictionaryLoader::read_system_dictionary(&sb).map(|d| d.to_loaded())) {
            Ok(Ok(Some(l))) => compile_user(&l, &c.user_csv, c.time, &c.descr).map(|ub| (sb.clone(), Some(ub))),
            _ => {
                sink.fail(id, "compiled system dictionary does not load", "");
                return;
            }
        },
    };
    match outcome {
        Err(e) if e.starts_with("PANIC") => sink.fail(id, &format!("an inline reference that names no entry makes the compiler panic: {}", e), ""),
        Err(e) => {
            if verbose {
                println!("build error, as expected: {}", e);
            }
        }
        Ok((sb, ub)) => {
            // show what the reference was silently resolved to
            let got = match &ub {
                Some(u) => load_with_user(sb, vec![u.clone()]).ok().map(|jd| readback(&jd, 1, 2)),
                None => catch(|| DictionaryLoader::read_system_dictionary(&sb).map(|d| d.to_loaded())).ok().and_then(|r| r.ok()).flatten().map(|l| readback(&l, 0, 4)),
            };
            let splits: Vec<Vec<u32>> = got.unwrap_or_default().iter().filter_map(|r| if let Readback::Ok { a, .. } = r { Some(a.clone()) } else { None }).filter(|a| !a.is_empty()).collect();
            sink.fail(
                id,
                &format!("the inline reference 京都,{},キョウト names no entry (the only entry with that surface differs in {}), yet the build succeeded: split A read back as {:?}", c.pool[0].join(","), ["", "POS", "reading", "POS and reading"][1 + v % 3], splits),
                "",
            );
        }
    }
}

fn case_from_state(state: u64, user: bool, big: bool, findings: bool, special: Option<usize>, sink: &mut Sink) -> Case {
    let mut r = Rng(state);
    gen_case_with(&mut r, sink, user, big, findings, special)
}

pub fn run(args: &Args) {
    let mut sink = Sink::new("C05", &args.out, &["Model.Codec", "Model.CodecIO", "Model.CodecResolve", "Model.CodecCsv", "Model.CodecCheck"], args.seed, &args.tier);
    sink.shard_size = 40;
    sink.rule("random lexicons of 1..7 rows (strings of 1..3 chars or 126/127/128/129/255..257/32766/32767 UTF-16 units mixing kana, kanji, ASCII, U+7F/80/7FF/800/D7FF/E000/FFFF and astral characters, \\uXXXX and \\u{X} escapes, forms empty / equal to the headword / different, index form of 126..128 bytes, arrays of 0/1/2/63/64/65/127 ids, numeric, U-prefixed and inline references, dictionary-form references, synonym column present/absent/empty; form columns drawn from the texts that are special elsewhere in the format) x matrices 1..5 x 1..5 (non-square, duplicated and missing cells, extreme costs) x system / user dictionary; non-trivial = at least two rows (system) or a user dictionary; distinct by generated Coq term; first the directed lexicons (7 rows each: every form-column set x every special text, system and user; 6 rows each: split A / split B / word structure / synonym arrays of 0, 1, 63, 64, 65, 127 items in rotating positions, system and user); every entry is read back with all fields and with 22 field subsets that skip stored arrays / texts and request later fields, each requested field against the declared value; then the command-line and Python build routes with 2..3 lexicon files in 7 orders (non-alphabetical, repeated path, sub-directory, alphabetical) for system and user dictionaries; stacks of 1, 2, 13, 14 user dictionaries (every entry through the lexicon, MorphemeList::lookup and the analysis of its index form in modes C and A) and 15 / 16 user dictionaries, which must be refused; 12 directed lexicons whose inline reference meets exactly ONE own entry with its surface that differs in POS / reading (the intended entry in the system dictionary: resolved to it; no matching entry: build error)");
    if let Some(p) = &args.replay {
        let v: Value = serde_json::from_str(&std::fs::read_to_string(p).unwrap()).unwrap();
        let case = &v["case"];
        if case["kind"] == "c05-compile-only" {
            let b = compile_system(case["csv"].as_str().unwrap(), case["matrix"].as_str().unwrap(), case["time"].as_u64().unwrap(), case["descr"].as_str().unwrap());
            if let Ok(b) = b {
                std::fs::write(case["out"].as_str().unwrap(), b).unwrap();
            }
            sink.finish();
            return;
        }
        if case["kind"] == "c05-inline-directed" {
            inline_directed(&mut sink, case["variant"].as_u64().unwrap_or(0) as usize, true);
            sink.finish();
            return;
        }
        if case["kind"] == "c05-many" {
            println!("verdict: {:?}", many_case(case["n"].as_u64().unwrap_or(14) as usize, case["rng"].as_u64().unwrap_or(0), true));
            sink.finish();
            return;
        }
        if case["kind"] == "c05-route" {
            routes::replay_route(&mut sink, args, case);
            sink.finish();
            return;
        }
        if let Some(st) = case["rng"].as_u64() {
            let c = case_from_state(st, case["user"].as_bool().unwrap_or(false), case["big"].as_bool().unwrap_or(false), case["findings"].as_bool().unwrap_or(false), case["special"].as_u64().map(|d| d as usize), &mut sink);
            run_case(&mut sink, &c, case.clone(), true);
        } else {
            println!("this case kind has no replay: {}", case);
        }
        sink.finish();
        return;
    }
    let mut rng = Rng::new(args.seed);
    // corpus: the shipped test lexicon, compiled and read back by the implementation-side oracle only
    // (its rows are not in model vocabulary); then the generated streams
    let n = args.n(540, 9000);
    let mut procs = 0usize;
    // directed lexicons first: every (form columns, text that is special elsewhere in the format) combination, as a system
    // lexicon and as a user lexicon -- whatever the seed
    let directed_forms = 2 * special_cases();
    let directed = directed_forms + 2 * ARRAY_VARIANTS;
    for k0 in 0..directed + n {
        let special = if k0 < directed_forms {
            Some(k0 / 2)
        } else if k0 < directed {
            // arrays of 0 / 1 / 63 / 64 / 65 / 127 items in every array field
            Some(ARRAYS_BASE + (k0 - directed_forms) / 2)
        } else {
            None
        };
        let k = if k0 < directed { 0 } else { k0 - directed };
        let user = if k0 < directed { k0 % 2 == 1 } else { k % 3 == 2 };
        let big = special.is_none() && k % 97 == 6;
        let findings = special.is_none() && user && k % 2 == 0;
        let st = rng.next();
        let c = case_from_state(st, user, big, findings, special, &mut sink);
        let desc = json!({"kind": "c05", "rng": st, "user": user, "big": big, "findings": findings, "special": special,
                          "csv": if c.sys_csv.len() < 1500 { c.sys_csv.clone() } else { format!("{} bytes", c.sys_csv.len()) },
                          "matrix": c.matrix_text, "user_csv": if c.user_csv.len() < 1500 { c.user_csv.clone() } else { format!("{} bytes", c.user_csv.len()) }});
        run_case(&mut sink, &c, desc, false);
        if !user && k % 40 == 1 && procs < args.n(8, 40) {
            if let Ok(b) = compile_system(&c.sys_csv, &c.matrix_text, c.time, &c.descr) {
                second_process(args, &mut sink, &c, &b, procs);
                procs += 1;
            }
        }
    }
    for v in 0..INLINE_DIRECTED {
        inline_directed(&mut sink, v, false);
    }
    many_user_dictionaries(&mut sink, &mut rng);
    // the other public routes to the compiler (command-line tool, Python functions) with several lexicon files
    routes::run_routes(&mut sink, &mut rng, args);
    malformed(&mut sink, &mut rng, args.n(12, 60));
    rejected_rows(&mut sink, &mut rng, args.n(140, 1400));
    sink.finish();
}
