//! C09 — modes A and B refine mode C with exactly the dictionary's split units.
//!
//! Generated system + user dictionaries with A/B split declarations (system->system, user->system, user->user; id and
//! inline references; units of 1..4 byte code points; a rewrite.def whose rules change the byte length) are compiled with
//! the real DictBuilder; texts are tokenised in C, A and B and every C token is split on demand.  The Coq model
//! (Model/Split.v) recomputes A, B and every split_into from the C path and the property predicates are evaluated on
//! the implementation's output.
use crate::common::*;
use serde_json::{json, Value};
use std::rc::Rc;
use sudachi::analysis::stateful_tokenizer::StatefulTokenizer;
use sudachi::config::ConfigBuilder;
use sudachi::dic::build::DictBuilder;
use sudachi::dic::dictionary::JapaneseDictionary;
use sudachi::dic::storage::{Storage, SudachiDicData};
use sudachi::dic::DictionaryLoader;
use sudachi::input_text::InputTextIndex;
use sudachi::prelude::*;

pub type Dict = Rc<JapaneseDictionary>;
pub const POS: &str = "名詞,普通名詞,一般,*,*,*";
pub const POS_NUM: &str = "名詞,数詞,*,*,*,*";
pub const ATOMS: [&str; 15] = ["a", "b", "é", "あ", "い", "京", "都", "𠮷", "キ", "ロ", "ア", "ス", "1", "2", "3"];
/// POS of a generated word: numerals (keys of ASCII digits) are 名詞,数詞 -- the POS JoinNumericPlugin joins -- the rest common nouns
pub fn pos_of_key(key: &str) -> &'static str {
    if !key.is_empty() && key.chars().all(|c| c.is_ascii_digit()) {
        POS_NUM
    } else {
        POS
    }
}
pub fn is_katakana(key: &str) -> bool {
    !key.is_empty() && key.chars().all(|c| ('\u{30A1}'..='\u{30FF}').contains(&c))
}
pub const REWRITE_DEF: &str = "# replace list: every rule changes the byte length\nq\tあい\nzz\t京\nぁ\ta\n";

#[derive(Clone, Debug)]
pub struct Word {
    pub dic: usize, // 0 = system, k = k-th user dictionary (its id once loaded)
    pub idx: u32,
    pub key: String,  // CSV column 0: the indexed string, what the word occupies in the normalised text
    pub head: String, // CSV column 4: the headword (WordInfo::surface); any string, often of another byte length
    pub cost: i32,
    pub indexed: bool,
    pub shadow_of: Option<(usize, u32)>, // an exact duplicate (key, headword, POS, reading) of that word of the system dictionary
    pub a: Vec<(usize, u32, bool)>, // (dictionary of the unit, index, written as inline reference)
    pub b: Vec<(usize, u32, bool)>,
}

#[derive(Clone, Debug, Default)]
pub struct Lexica {
    pub words: Vec<Word>, // all dictionaries
    pub ndics: usize,
    pub ill_formed: Option<(usize, u32)>, // a word whose declaration is ill-formed on purpose
    pub ill_long: bool,                   // ... by a first unit longer than the whole word (else: unit list too short)
}

impl Lexica {
    pub fn get(&self, dic: usize, idx: u32) -> &Word {
        self.words.iter().find(|w| w.dic == dic && w.idx == idx).unwrap()
    }
    /// the generated word behind a word id; None for OOV / special ids and for the ids path-rewrite plugins give merged tokens
    pub fn word_of(&self, wid: u32) -> Option<&Word> {
        let (d, i) = ((wid >> 28) as usize, wid & 0x0fff_ffff);
        if d >= 15 {
            return None;
        }
        self.words.iter().find(|w| w.dic == d && w.idx == i)
    }
    pub fn raw_wid(dic: usize, idx: u32) -> u32 {
        ((dic as u32) << 28) | idx
    }
    pub fn reading_of(w: &Word) -> String {
        Self::reading(w)
    }
    fn reading(w: &Word) -> String {
        let (d, i) = w.shadow_of.unwrap_or((w.dic, w.idx));
        format!("ヨ{}x{}", d, i)
    }
    fn unit_text(&self, owner: usize, u: &(usize, u32, bool)) -> String {
        let w = self.get(u.0, u.1);
        if u.2 {
            // inline references to words of the dictionary being built are resolved by key (RawDictResolver), those to
            // the system dictionary from a user dictionary by the headword read back from it (BinDictResolver)
            let surface = if u.0 == owner { &w.key } else { &w.head };
            format!("{},{},{}", surface, pos_of_key(&w.key), Self::reading(w))
        } else if u.0 == 0 || owner == 0 {
            format!("{}", u.1)
        } else {
            format!("U{}", u.1)
        }
    }
    pub fn csv(&self, dic: usize) -> String {
        let mut s = String::new();
        for w in self.words.iter().filter(|w| w.dic == dic) {
            let units = |us: &Vec<(usize, u32, bool)>| -> String {
                if us.is_empty() {
                    "*".to_string() // replaced below by one of the two spellings of "none"
                } else {
                    format!("\"{}\"", us.iter().map(|u| self.unit_text(dic, u)).collect::<Vec<_>>().join("/"))
                }
            };
            let lr = if w.indexed { 0 } else { -1 };
            let mode = if w.a.is_empty() && w.b.is_empty() { "A" } else { "C" };
            // the lexicon format has two spellings of "no units / no structure / no synonyms": `*` and the empty column
            // (parse_splits, parse_wordid_list, parse_u32_list accept both); which one a row uses follows from its position
            let none = |col: usize| -> &'static str { if (w.idx as usize + w.dic + col) % 2 == 0 { "" } else { "*" } };
            let col = |c: usize, us: &Vec<(usize, u32, bool)>| -> String { if us.is_empty() { none(c).to_string() } else { units(us) } };
            s.push_str(&format!(
                "{},{},{},{},{},{},{},{},*,{},{},{},{},{}\n",
                w.key, lr, 0, w.cost, w.head, pos_of_key(&w.key), Self::reading(w), w.key, mode, col(15, &w.a), col(16, &w.b), none(17), none(18)
            ));
        }
        s
    }
}

/// headword of a generated word: the key itself, or a spelling whose UTF-8 length differs from the key's (kana key with
/// kanji headword, half-width key with full-width headword, ...); the headword never occupies text, only the key does
pub fn gen_head(rng: &mut Rng, key: &str) -> String {
    match rng.below(5) {
        0 | 1 => key.to_string(),
        2 => key.chars().map(|c| match c.len_utf8() { 1 => 'Ａ', 2 => 'e', 3 => '𠮷', _ => '亜' }).collect(),
        3 => format!("{}々", key),
        _ => {
            let mut h: String = key.chars().skip(1).collect();
            h.push('h');
            h
        }
    }
}

fn visible<'a>(lx: &'a Lexica, dic: usize) -> Vec<&'a Word> {
    lx.words.iter().filter(|w| w.dic == 0 || w.dic == dic).collect()
}

/// generate the lexica: system dictionary and 0..2 user dictionaries
/// `bias`: 0 none, 1 katakana, 2 numerals, 3 both: which kind of words compounds are preferably made of (dictionaries that
/// are analysed under JoinKatakanaOovPlugin / JoinNumericPlugin need katakana / numeral words declaring A/B units)
pub fn gen_lexica(rng: &mut Rng, want_ill_formed: bool, bias: u8) -> Lexica {
    let mut lx = Lexica::default();
    let nuser = match rng.below(6) {
        0 => 0,
        1..=3 => 1,
        _ => 2,
    };
    lx.ndics = 1 + nuser;
    for dic in 0..=nuser {
        let mut idx = 0u32;
        // atoms
        let natoms = if dic == 0 { 6 + rng.below(5) as usize } else { 1 + rng.below(4) as usize };
        let mut pool: Vec<&str> = ATOMS.to_vec();
        if dic == 0 {
            // the system dictionary always has a numeral, so that the POS JoinNumericPlugin looks up at set-up exists
            pool.retain(|k| *k != "1");
            lx.words.push(Word { dic, idx, key: "1".to_string(), head: gen_head(rng, "1"), cost: 2000 + rng.below(500) as i32, indexed: true, shadow_of: None, a: vec![], b: vec![] });
            idx += 1;
        }
        if bias & 1 != 0 {
            pool.retain(|k| is_katakana(k) || rng.chance(1, 2));
        }
        if bias & 2 != 0 {
            pool.retain(|k| pos_of_key(k) == POS_NUM || rng.chance(1, 2));
        }
        for _ in 0..natoms {
            if pool.is_empty() {
                break;
            }
            let k = rng.below(pool.len() as u64) as usize;
            let key = pool.remove(k);
            lx.words.push(Word { dic, idx, key: key.to_string(), head: gen_head(rng, key), cost: 2000 + rng.below(500) as i32, indexed: !rng.chance(1, 6), shadow_of: None, a: vec![], b: vec![] });
            idx += 1;
        }
        // compounds
        let ncomp = 3 + rng.below(6) as usize;
        for _ in 0..ncomp {
            let vis: Vec<Word> = visible(&lx, dic).into_iter().cloned().collect();
            let k = 2 + rng.below(2) as usize;
            let mut parts: Vec<Word> = vec![];
            for _ in 0..k {
                // user dictionaries prefer their own words and mix in system words
                let mut cands: Vec<&Word> = if dic > 0 && rng.chance(1, 2) { vis.iter().filter(|w| w.dic == dic).collect() } else { vis.iter().collect() };
                if bias != 0 && rng.chance(3, 4) {
                    let want_kata = bias == 1 || (bias == 3 && rng.chance(1, 2));
                    let pref: Vec<&Word> = cands.iter().filter(|w| if want_kata { is_katakana(&w.key) } else { pos_of_key(&w.key) == POS_NUM }).cloned().collect();
                    if !pref.is_empty() {
                        cands = pref;
                    }
                }
                if cands.is_empty() {
                    continue;
                }
                parts.push((*rng.pick(&cands)).clone());
            }
            if parts.len() < 2 {
                continue;
            }
            let key: String = parts.iter().map(|p| p.key.as_str()).collect();
            if key.chars().count() > 9 {
                continue;
            }
            let inline = |rng: &mut Rng| rng.chance(1, 4);
            let bunits: Vec<(usize, u32, bool)> = parts.iter().map(|p| (p.dic, p.idx, inline(rng))).collect();
            // A units: parts, each possibly expanded by its own A declaration
            let mut aunits = vec![];
            for p in &parts {
                if p.a.len() >= 2 && rng.chance(2, 3) {
                    for u in &p.a {
                        aunits.push((u.0, u.1, inline(rng)));
                    }
                } else {
                    aunits.push((p.dic, p.idx, inline(rng)));
                }
            }
            let (a, b) = match rng.below(8) {
                0 => (vec![], bunits),
                1 => (aunits, vec![]),
                2 => (vec![], vec![]),
                _ => (aunits, bunits),
            };
            let cost = if rng.chance(1, 8) { 9000 } else { 50 + rng.below(300) as i32 };
            let head = gen_head(rng, &key);
            lx.words.push(Word { dic, idx, key, head, cost, indexed: true, shadow_of: None, a, b });
            idx += 1;
        }
        // a user dictionary may repeat a system word exactly (same key, headword, POS and reading): DictBuilder::resolve
        // looks an inline reference up among the rows being compiled first and only then in the system dictionary, so
        // every inline reference of this dictionary that names such a word denotes the user's copy
        if dic > 0 && rng.chance(1, 2) {
            let cands: Vec<Word> = lx.words.iter().filter(|w| w.dic == 0 && w.head == w.key).cloned().collect();
            if !cands.is_empty() {
                let t = rng.pick(&cands).clone();
                lx.words.push(Word { dic, idx, key: t.key.clone(), head: t.head.clone(), cost: 2000 + rng.below(500) as i32, indexed: true, shadow_of: Some((0, t.idx)), a: vec![], b: vec![] });
                let sidx = idx;
                idx += 1;
                for w in lx.words.iter_mut().filter(|w| w.dic == dic) {
                    for u in w.a.iter_mut().chain(w.b.iter_mut()) {
                        if u.2 && u.0 == 0 && u.1 == t.idx {
                            *u = (dic, sidx, true);
                        }
                    }
                }
                // and a compound of this dictionary that refers to it inline, so that the order of look-up matters
                let own: Vec<Word> = visible(&lx, dic).into_iter().cloned().collect();
                let other = rng.pick(&own).clone();
                let key = format!("{}{}", t.key, other.key);
                if key.chars().count() <= 9 {
                    let head = gen_head(rng, &key);
                    let units = vec![(dic, sidx, true), (other.dic, other.idx, rng.chance(1, 2) && !(other.dic == 0 && other.idx == t.idx))];
                    lx.words.push(Word { dic, idx, key, head, cost: 30, indexed: true, shadow_of: None, a: units.clone(), b: if rng.chance(1, 2) { units } else { vec![] } });
                    idx += 1;
                }
            }
        }
        // a word with exactly one declared unit: a cheaper homograph pointing at an existing word
        if rng.chance(1, 3) {
            let own: Vec<Word> = visible(&lx, dic).into_iter().cloned().collect();
            let tgt = rng.pick(&own).clone();
            lx.words.push(Word { dic, idx, key: tgt.key.clone(), head: gen_head(rng, &tgt.key), cost: 10, indexed: true, shadow_of: None, a: vec![(tgt.dic, tgt.idx, false)], b: if rng.chance(1, 2) { vec![(tgt.dic, tgt.idx, false)] } else { vec![] } });
            idx += 1;
        }
        let _ = idx;
    }
    if want_ill_formed {
        // malformed stream: drop the last declared unit of a 3+-unit declaration (the last remaining one inherits the
        // parent's end) or put a unit first whose key is longer than the whole parent
        let cands: Vec<usize> = (0..lx.words.len()).filter(|&i| lx.words[i].a.len() >= 2).collect();
        if !cands.is_empty() {
            let i = *rng.pick(&cands);
            let parent_len = lx.words[i].key.len();
            let dic = lx.words[i].dic;
            let longer: Vec<(usize, u32)> = lx.words.iter().filter(|w| (w.dic == 0 || w.dic == dic) && w.key.len() > parent_len && !(w.dic == dic && w.idx >= lx.words[i].idx)).map(|w| (w.dic, w.idx)).collect();
            if lx.words[i].a.len() >= 3 && rng.chance(1, 2) {
                lx.words[i].a.pop();
                lx.words[i].cost = 5;
                lx.ill_formed = Some((lx.words[i].dic, lx.words[i].idx));
            } else if !longer.is_empty() {
                let l = *rng.pick(&longer);
                lx.words[i].a[0] = (l.0, l.1, false);
                lx.words[i].cost = 5;
                lx.ill_formed = Some((lx.words[i].dic, lx.words[i].idx));
                lx.ill_long = true;
            }
        }
    }
    lx
}

/// resource directory with char.def (the repository's test file) and our rewrite.def
pub fn prepare_resources(work: &std::path::Path) -> std::path::PathBuf {
    let dir = work.join("res");
    std::fs::create_dir_all(&dir).unwrap();
    let cd = std::fs::read(format!("{}/sudachi/tests/resources/char.def", repo())).expect("char.def of the repository");
    std::fs::write(dir.join("char.def"), cd).unwrap();
    std::fs::write(dir.join("rewrite.def"), REWRITE_DEF).unwrap();
    dir
}

pub fn config_json(res: &std::path::Path, path_rewrite: &str) -> String {
    format!(
        r#"{{"path": "{}", "characterDefinitionFile": "char.def",
 "inputTextPlugin": [{{"class": "com.worksap.nlp.sudachi.DefaultInputTextPlugin"}}],
 "oovProviderPlugin": [{{"class": "com.worksap.nlp.sudachi.SimpleOovPlugin", "oovPOS": ["名詞", "普通名詞", "一般", "*", "*", "*"], "leftId": 0, "rightId": 0, "cost": 30000}}],
 "pathRewritePlugin": [{}]}}"#,
        res.display(),
        path_rewrite
    )
}

/// compile system + user dictionaries from CSV with the real builder and load them
pub fn build_dict(sys_csv: &str, user_csvs: &[String], cfg_json: &str) -> Result<JapaneseDictionary, String> {
    let mut sys = DictBuilder::new_system();
    sys.read_conn("1 1\n0 0 0\n".as_bytes()).map_err(|e| format!("conn: {}", e))?;
    sys.read_lexicon(sys_csv.as_bytes()).map_err(|e| format!("system lexicon: {}", e))?;
    sys.resolve().map_err(|e| format!("system resolve: {}", e))?;
    let mut sys_bytes = Vec::new();
    sys.compile(&mut sys_bytes).map_err(|e| format!("system compile: {}", e))?;
    let sys_copy = sys_bytes.clone();
    let mut data = SudachiDicData::new(Storage::Owned(sys_bytes));
    if !user_csvs.is_empty() {
        let base = DictionaryLoader::read_system_dictionary(&sys_copy).map_err(|e| format!("reload: {}", e))?.to_loaded().ok_or("to_loaded")?;
        for u in user_csvs {
            let mut ub = DictBuilder::new_user(&base);
            ub.read_lexicon(u.as_bytes()).map_err(|e| format!("user lexicon: {}", e))?;
            ub.resolve().map_err(|e| format!("user resolve: {}", e))?;
            let mut bytes = Vec::new();
            ub.compile(&mut bytes).map_err(|e| format!("user compile: {}", e))?;
            data.add_user(Storage::Owned(bytes));
        }
    }
    let cfg = ConfigBuilder::from_bytes(cfg_json.as_bytes()).map_err(|e| format!("config: {}", e))?.build();
    JapaneseDictionary::from_cfg_storage(&cfg, data).map_err(|e| format!("load: {}", e))
}

/// Other JapaneseDictionary instances over the same system dictionary: without user dictionaries, and -- when there are
/// user dictionaries -- with user dictionaries that have other words (other key lengths, no units) at the same ids.
/// Result lists built for them are targets of on-demand splits: the parts must not depend on the target's dictionary.
pub fn other_dicts(sys_csv: &str, user_csvs: &[String], cfg_json: &str) -> Vec<Dict> {
    let mut v = vec![];
    if let Ok(d) = build_dict(sys_csv, &[], cfg_json) {
        v.push(Rc::new(d));
    }
    if !user_csvs.is_empty() {
        let fake: Vec<String> = user_csvs
            .iter()
            .map(|u| (0..u.lines().count()).map(|i| format!("ズ{k}ズ,0,0,9000,ズ{k}ズ,{p},ヨz{k},ズ{k}ズ,*,A,*,*,*,*\n", k = i, p = POS)).collect::<String>())
            .collect();
        if let Ok(d) = build_dict(sys_csv, &fake, cfg_json) {
            v.push(Rc::new(d));
        }
    }
    v
}

/// pre-normalisation spellings: (normalised, original)
const VARIANTS: [(&str, &str); 10] = [("a", "A"), ("a", "Ａ"), ("a", "ぁ"), ("b", "B"), ("b", "Ｂ"), ("é", "É"), ("あい", "q"), ("京", "zz"), ("キロ", "㌔"), ("é", "é")];

pub fn denormalise(rng: &mut Rng, norm: &str, p_num: u64, p_den: u64) -> String {
    let mut out = String::new();
    let mut rest = norm;
    while !rest.is_empty() {
        let mut done = false;
        if rng.chance(p_num, p_den) {
            let cands: Vec<&(&str, &str)> = VARIANTS.iter().filter(|v| rest.starts_with(v.0)).collect();
            if !cands.is_empty() {
                let v = rng.pick(&cands);
                out.push_str(v.1);
                rest = &rest[v.0.len()..];
                done = true;
            }
        }
        if !done {
            let c = rest.chars().next().unwrap();
            out.push(c);
            rest = &rest[c.len_utf8()..];
        }
    }
    out
}

pub fn gen_text(rng: &mut Rng, lx: &Lexica) -> String {
    gen_text_opt(rng, lx, true)
}

/// `respell`: allow pre-normalisation spellings (otherwise the text is its own normalised form)
pub fn gen_text_opt(rng: &mut Rng, lx: &Lexica, respell: bool) -> String {
    let nseg = 1 + rng.below(4);
    let mut norm = String::new();
    let comps: Vec<&Word> = lx.words.iter().filter(|w| w.indexed && (!w.a.is_empty() || !w.b.is_empty())).collect();
    let all: Vec<&Word> = lx.words.iter().collect();
    for _ in 0..nseg {
        match rng.below(10) {
            0..=5 if !comps.is_empty() => norm.push_str(&rng.pick(&comps).key),
            6..=7 => norm.push_str(&rng.pick(&all).key),
            8 => norm.push_str(*rng.pick(&["x", "w", "。", "漢", " ", "ヌ", "ヌヌ", "5", ".", ",", "キ", "1"])),
            _ => norm.push_str(*rng.pick(&ATOMS)),
        }
    }
    if !respell || rng.chance(1, 3) {
        norm
    } else {
        denormalise(rng, &norm, 1, 3)
    }
}

#[derive(Clone, Debug, PartialEq)]
pub struct Tok {
    pub wid: u32,
    pub begin: usize,
    pub end: usize,
    pub sb: usize,
    pub se: usize,
}

pub fn observe(list: &MorphemeList<Dict>) -> Vec<Tok> {
    let whole = list.surface();
    let base = whole.as_ptr() as usize;
    let mut v = vec![];
    for m in list.iter() {
        let s = m.surface();
        let sb = s.as_ptr() as usize - base;
        v.push(Tok { wid: m.word_id().as_raw(), begin: m.begin(), end: m.end(), sb, se: sb + s.len() });
    }
    v
}

fn ctok(t: &Tok) -> String {
    format!("({}, ({}, {}, ({}, {})))", cn(t.wid), cnu(t.begin), cnu(t.end), cnu(t.sb), cnu(t.se))
}
fn ctoks(v: &Option<Vec<Tok>>) -> String {
    copt(v.as_ref().map(|l| clist(l.iter().map(ctok))))
}
fn csplit(v: &Option<(bool, Vec<Tok>)>) -> String {
    copt(v.as_ref().map(|(b, l)| cpair(cbool(*b), &clist(l.iter().map(ctok)))))
}

pub struct CRun {
    pub modified: String,
    pub m2o: Vec<usize>,
    pub cpath: Vec<(usize, usize, u32)>, // char begin, char end, word id
    pub ctoks: Vec<Tok>,
    pub stored: Vec<(Vec<u32>, Vec<u32>)>,
    pub list: MorphemeList<Dict>,
    pub how: String, // provenance of the mode-C tokenizer
}

/// A tokenizer that is in mode `target` now, with the default field request.  Its provenance is drawn from `hrng`:
/// freshly created in that mode, or created in some mode and switched 1..3 times with set_mode -- possibly analysing
/// the text in between, like the per-call mode override of the Python binding -- and finally switched to `target`
/// (also when it already is in that mode).  The property speaks of "tokenising in mode X" and "a C-mode morpheme",
/// not of freshly created tokenizers, so every way of getting into the mode must behave alike.
pub fn tokenizer_in_mode(dict: &Dict, text: &str, target: Mode, hrng: Option<&mut Rng>) -> (StatefulTokenizer<Dict>, String) {
    let modes = [Mode::A, Mode::B, Mode::C];
    let hrng = match hrng {
        Some(r) => r,
        None => return (StatefulTokenizer::new(dict.clone(), target), "fresh".to_string()),
    };
    if hrng.below(4) == 0 {
        return (StatefulTokenizer::new(dict.clone(), target), "fresh".to_string());
    }
    let start = *hrng.pick(&modes);
    let mut tok = StatefulTokenizer::new(dict.clone(), start);
    let mut how = format!("new({:?})", start);
    for _ in 0..(1 + hrng.below(3)) {
        if hrng.chance(1, 2) {
            tok.reset().push_str(text);
            let _ = tok.do_tokenize();
            how.push_str(";analyse");
        }
        let m = *hrng.pick(&modes);
        tok.set_mode(m);
        how.push_str(&format!(";set_mode({:?})", m));
    }
    tok.set_mode(target);
    how.push_str(&format!(";set_mode({:?})", target));
    (tok, how)
}

/// tokenise in mode C, keep the list and everything needed to express the path in model vocabulary
pub fn run_c(dict: &Dict, text: &str, hrng: Option<&mut Rng>) -> Result<CRun, String> {
    let (mut tok, how) = tokenizer_in_mode(dict, text, Mode::C, hrng);
    tok.reset().push_str(text);
    tok.do_tokenize().map_err(|e| format!("{}", e))?;
    let (modified, m2o) = {
        let inp = tok.verif_input();
        let modified = inp.current().to_string();
        let m2o: Vec<usize> = (0..=modified.len()).map(|i| inp.to_orig(i..i).start).collect();
        (modified, m2o)
    };
    let mut list = MorphemeList::empty(dict.clone());
    list.collect_results(&mut tok).map_err(|e| format!("{}", e))?;
    let ctoks = observe(&list);
    let mut cpath = vec![];
    let mut stored = vec![];
    // when normalisation changed nothing, modified-text offsets are original-text offsets and every token -- also one a
    // path-rewrite plugin merged, whose word info does not tell how many bytes it occupies -- is placed by begin()/end();
    // otherwise the chain is rebuilt from key lengths (dictionary words) and OOV surfaces
    let identity = modified == text && m2o.iter().enumerate().all(|(i, o)| i == *o);
    let mut boff = 0usize;
    for m in list.iter() {
        let wi = m.get_word_info();
        let merged = m.word_id().word() == 0x0fff_ffff || m.word_id().as_raw() == u32::MAX;
        if merged && !identity {
            return Err("a merged token in a text that normalisation changed: its modified-text range cannot be reconstructed".to_string());
        }
        let blen = if identity { m.end() - m.begin() } else if m.is_oov() { wi.surface().len() } else { wi.head_word_length() };
        if identity && m.begin() != boff {
            return Err(format!("C path is not contiguous at byte {}", boff));
        }
        let e = boff + blen;
        if e > modified.len() || !modified.is_char_boundary(boff) || !modified.is_char_boundary(e) {
            return Err(format!("cannot express the C path in modified-text coordinates at byte {}", boff));
        }
        let cb = modified[..boff].chars().count();
        let ce = modified[..e].chars().count();
        cpath.push((cb, ce, m.word_id().as_raw()));
        stored.push((wi.a_unit_split().iter().map(|w| w.as_raw()).collect(), wi.b_unit_split().iter().map(|w| w.as_raw()).collect()));
        boff = e;
    }
    if boff != modified.len() {
        return Err(format!("C path covers {} of {} modified bytes", boff, modified.len()));
    }
    Ok(CRun { modified, m2o, cpath, ctoks, stored, list, how })
}

pub fn run_mode(dict: &Dict, text: &str, mode: Mode) -> Option<Vec<Tok>> {
    run_mode_subset(dict, text, mode, None, None)
}

/// tokenise with a fresh tokenizer of the given mode, optionally after restricting the field request
pub fn run_mode_subset(dict: &Dict, text: &str, mode: Mode, subset: Option<sudachi::dic::subset::InfoSubset>, hrng: Option<&mut Rng>) -> Option<Vec<Tok>> {
    catch(|| {
        let (mut tok, _) = tokenizer_in_mode(dict, text, mode, hrng);
        if let Some(ss) = subset {
            tok.set_subset(ss);
        }
        tok.reset().push_str(text);
        tok.do_tokenize().expect("tokenisation error");
        let mut list = MorphemeList::empty(dict.clone());
        list.collect_results(&mut tok).expect("collect");
        observe(&list)
    })
    .ok()
}

pub fn run_split(list: &MorphemeList<Dict>, i: usize, mode: Mode) -> Option<(bool, Vec<Tok>)> {
    catch(|| {
        if (i + if mode == Mode::A { 0 } else { 1 }) % 2 == 0 {
            // output list sharing the input of the source list
            let mut out = list.empty_clone();
            let b = list.get(i).split_into(mode, &mut out).expect("split_into error");
            (b, observe(&out))
        } else {
            // unrelated output list (split_into must make it point at the source's input); splitting twice into it
            // must append the same sub-tokens again, since the list is not cleared
            let mut out = MorphemeList::empty(list.dict().clone());
            let b = list.get(i).split_into(mode, &mut out).expect("split_into error");
            let once = observe(&out);
            let b2 = list.get(i).split_into(mode, &mut out).expect("split_into error");
            let twice = observe(&out);
            let mut exp = once.clone();
            exp.extend(once.iter().cloned());
            if b2 != b || twice != exp {
                panic!("second split_into into the same list: {} {:?}, first: {} {:?}", b2, twice, b, once);
            }
            (b, once)
        }
    })
    .ok()
}

/// dictionary view for the model: the words on the path and, transitively, their units
fn dview(lx: &Lexica, cpath: &[(usize, usize, u32)]) -> (String, Value) {
    let mut need: Vec<(usize, u32)> = vec![];
    let mut stack: Vec<(usize, u32)> = cpath.iter().filter(|c| (c.2 >> 28) < 15).map(|c| ((c.2 >> 28) as usize, c.2 & 0x0fff_ffff)).collect();
    while let Some(x) = stack.pop() {
        if need.contains(&x) || !lx.words.iter().any(|w| w.dic == x.0 && w.idx == x.1) {
            continue;
        }
        need.push(x);
        let w = lx.get(x.0, x.1);
        for u in w.a.iter().chain(w.b.iter()) {
            stack.push((u.0, u.1));
        }
    }
    need.sort();
    let raw = |owner: usize, u: &(usize, u32, bool)| -> u32 {
        // the builder stores 0 for a system word and 1 for "this user dictionary"
        if u.0 == 0 || owner == 0 {
            Lexica::raw_wid(0, u.1)
        } else {
            Lexica::raw_wid(1, u.1)
        }
    };
    let mut entries = vec![];
    let mut js = vec![];
    for x in &need {
        let w = lx.get(x.0, x.1);
        let a: Vec<u32> = w.a.iter().map(|u| raw(w.dic, u)).collect();
        let b: Vec<u32> = w.b.iter().map(|u| raw(w.dic, u)).collect();
        entries.push(format!(
            "({}, ({}, ({}, {})))",
            cn(Lexica::raw_wid(w.dic, w.idx)),
            ctext(&w.key),
            clist(a.iter().map(|x| cn(*x))),
            clist(b.iter().map(|x| cn(*x)))
        ));
        js.push(json!([Lexica::raw_wid(w.dic, w.idx), w.key, a, b]));
    }
    (clist(entries), Value::Array(js))
}

/// independent of the Coq model: the sub-tokens reported by split_into for a C token with >= 2 declared units cover,
/// in order, exactly the keys (CSV column 0) of the declared units: sub-token j spans the modified-text bytes
/// [start + len(key_0..j-1), start + len(key_0..j)), mapped to the original text through m2o
fn key_range_oracle(lx: &Lexica, c: &CRun, sa: &[Option<(bool, Vec<Tok>)>], sb: &[Option<(bool, Vec<Tok>)>]) -> Option<String> {
    for (i, p) in c.cpath.iter().enumerate() {
        let word = match lx.word_of(p.2) {
            Some(w) => w,
            None => continue,
        };
        let start: usize = c.modified.chars().take(p.0).map(|ch| ch.len_utf8()).sum();
        for (name, units, sp) in [("A", &word.a, &sa[i]), ("B", &word.b, &sb[i])] {
            if units.len() < 2 {
                continue;
            }
            let subs = match sp {
                Some((true, subs)) if subs.len() == units.len() => subs,
                other => return Some(format!("split_into({}) of token {} ({:?}) with {} declared units answered {:?}", name, i, word.key, units.len(), other)),
            };
            let mut off = start;
            for (j, u) in units.iter().enumerate() {
                let klen = lx.get(u.0, u.1).key.len();
                if off + klen >= c.m2o.len() {
                    return Some(format!("unit keys of {:?} run past the text", word.key));
                }
                let (eb, ee) = (c.m2o[off], c.m2o[off + klen]);
                if subs[j].begin != eb || subs[j].end != ee || subs[j].sb != eb || subs[j].se != ee {
                    return Some(format!(
                        "split_into({}) of token {} (key {:?}): sub-token {} is reported at {}..{} (surface bytes {}..{}) but the key {:?} of its unit occupies {}..{} of the original text",
                        name, i, word.key, j, subs[j].begin, subs[j].end, subs[j].sb, subs[j].se, lx.get(u.0, u.1).key, eb, ee
                    ));
                }
                off += klen;
            }
        }
    }
    None
}

fn rust_oracle(c: &CRun, declared: &[(Vec<u32>, Vec<u32>)], a: &Option<Vec<Tok>>, b: &Option<Vec<Tok>>, sa: &[Option<(bool, Vec<Tok>)>], sb: &[Option<(bool, Vec<Tok>)>]) -> Option<String> {
    for (name, ab, sp, sel) in [("A", a, sa, 0usize), ("B", b, sb, 1usize)] {
        let ab = match ab {
            Some(x) => x,
            None => continue,
        };
        let mut bounds: Vec<usize> = vec![];
        for t in ab {
            bounds.push(t.begin);
            bounds.push(t.end);
        }
        for t in &c.ctoks {
            if !bounds.contains(&t.begin) || !bounds.contains(&t.end) {
                return Some(format!("mode {}: boundary of C token {:?} is not a boundary of the {} tokenisation {:?}", name, t, name, ab));
            }
        }
        // C + split_into must reproduce the A/B tokenisation (no word with exactly one unit on the path)
        let single = declared.iter().any(|s| (if sel == 0 { &s.0 } else { &s.1 }).len() == 1);
        if !single {
            let mut re = vec![];
            for (i, t) in c.ctoks.iter().enumerate() {
                match &sp[i] {
                    Some((true, l)) => re.extend(l.iter().cloned()),
                    Some((false, l)) => {
                        if !l.is_empty() {
                            return Some(format!("split_into({}) of token {} answered false but wrote {:?}", name, i, l));
                        }
                        re.push(t.clone())
                    }
                    None => return Some(format!("split_into({}) of token {} panicked although tokenising in mode {} did not", name, i, name)),
                }
            }
            if &re != ab {
                return Some(format!("mode {}: tokenising directly gives {:?} but C + split_into gives {:?}", name, ab, re));
            }
        }
        for (i, t) in c.ctoks.iter().enumerate() {
            let units = if sel == 0 { &declared[i].0 } else { &declared[i].1 };
            if units.is_empty() && !ab.contains(t) {
                return Some(format!("mode {}: C token {:?} declares no unit but does not appear unchanged", name, t));
            }
            if let Some((flag, subs)) = &sp[i] {
                if *flag != !units.is_empty() {
                    return Some(format!("split_into({}) of token {} answered {} for {} declared units", name, i, flag, units.len()));
                }
                if *flag && &subs.iter().map(|s| s.wid).collect::<Vec<_>>() != units {
                    return Some(format!("split_into({}) of token {}: sub-token ids {:?} differ from the declared units {:?}", name, i, subs, units));
                }
            }
        }
    }
    None
}

pub struct CaseIn {
    pub sys_csv: String,
    pub user_csvs: Vec<String>,
    pub text: String,
    pub path_rewrite: String, // JSON of the configured path-rewrite plugins ("" = none)
    pub others: Vec<Dict>,    // other dictionary instances over the same system dictionary (no / different user dictionaries)
}

fn run_case(sink: &mut Sink, lx: &Lexica, dict: &Dict, ci: &CaseIn, ill_formed: bool, verbose: bool) {
    // field request of the extra A/B runs: derived from the text so that a replay uses the same one
    let restricted_bits: u32 = (hash_of(&ci.text) % 1024) as u32 & !1; // never SURFACE: most interesting for the split iterator

    let desc0 = json!({"kind": "c09", "text": ci.text, "system_csv": ci.sys_csv, "user_csvs": ci.user_csvs, "rewrite_def": REWRITE_DEF, "ill_formed": ill_formed, "path_rewrite": ci.path_rewrite,
                       "lexica": lx.words.iter().map(|w| json!([w.dic, w.idx, w.key, w.cost, w.indexed, w.a, w.b, w.head, w.shadow_of])).collect::<Vec<_>>()});
    // provenance of the tokenizers (fresh / switched between modes): drawn from the text so that a replay repeats it;
    // dictionaries with ill-formed declarations use fresh ones (an analysis inside the history could panic)
    let mut hrng = Rng::new(hash_of(&ci.text) ^ 0xC09);
    let mut hc = if ill_formed { None } else { Some(hrng.fork()) };
    let mut ha = if ill_formed { None } else { Some(hrng.fork()) };
    let mut hb = if ill_formed { None } else { Some(hrng.fork()) };
    let c = match catch(|| run_c(dict, &ci.text, hc.as_mut())) {
        Ok(Ok(c)) => c,
        Ok(Err(e)) => {
            let id = sink.case_rust_only(desc0, false);
            sink.fail(id, &format!("mode C analysis of {:?} failed: {}", ci.text, e), "");
            return;
        }
        Err(p) => {
            let id = sink.case_rust_only(desc0, false);
            sink.fail(id, &format!("mode C analysis of {:?} panicked: {}", ci.text, p), "");
            return;
        }
    };
    let a = run_mode_subset(dict, &ci.text, Mode::A, None, ha.as_mut());
    let b = run_mode_subset(dict, &ci.text, Mode::B, None, hb.as_mut());
    let sa: Vec<_> = (0..c.ctoks.len()).map(|i| run_split(&c.list, i, Mode::A)).collect();
    let sb: Vec<_> = (0..c.ctoks.len()).map(|i| run_split(&c.list, i, Mode::B)).collect();
    // on-demand splits into result lists of OTHER dictionary instances (same system dictionary, no or other user
    // dictionaries): once into an empty list per call, once into one list that first receives that dictionary's own
    // analysis of the text and then every split in turn (never cleared): (k, with prior contents, per token (prior length, outcome))
    let mut foreign: Vec<(usize, bool, Vec<(usize, Option<(bool, Vec<Tok>)>)>, Vec<(usize, Option<(bool, Vec<Tok>)>)>)> = vec![];
    for (k, od) in ci.others.iter().enumerate() {
        let mut fa = vec![];
        let mut fb = vec![];
        for i in 0..c.ctoks.len() {
            for (m, dst) in [(Mode::A, &mut fa), (Mode::B, &mut fb)] {
                dst.push((0usize, catch(|| {
                    let mut out = MorphemeList::empty(od.clone());
                    let flag = c.list.get(i).split_into(m, &mut out).expect("split_into error");
                    (flag, observe(&out))
                }).ok()));
            }
        }
        foreign.push((k, false, fa, fb));
        let filled = catch(|| {
            let mut tok = StatefulTokenizer::new(od.clone(), Mode::C);
            tok.reset().push_str(&ci.text);
            tok.do_tokenize().expect("tokenisation error");
            let mut out = MorphemeList::empty(od.clone());
            out.collect_results(&mut tok).expect("collect");
            out
        });
        if let Ok(mut out) = filled {
            let mut fa = vec![];
            let mut fb = vec![];
            let mut broken = false;
            for i in 0..c.ctoks.len() {
                for (m, dst) in [(Mode::A, &mut fa), (Mode::B, &mut fb)] {
                    let before = out.len();
                    let r = if broken { None } else { catch(|| {
                        let flag = c.list.get(i).split_into(m, &mut out).expect("split_into error");
                        (flag, observe(&out)[before..].to_vec())
                    }).ok() };
                    broken = broken || r.is_none();
                    dst.push((before, r));
                }
            }
            if !broken {
                foreign.push((k, true, fa, fb));
            }
        }
    }
    if verbose {
        println!("text      : {:?}\nmodified  : {:?}\nm2o       : {:?}", ci.text, c.modified, c.m2o);
        println!("C tokenizer: {}", c.how);
        println!("C path    : {:?}\nC tokens  : {:?}\nstored    : {:?}", c.cpath, c.ctoks, c.stored);
        println!("A tokens  : {:?}\nB tokens  : {:?}", a, b);
        println!("split A   : {:?}\nsplit B   : {:?}", sa, sb);
    }
    let (dv, dvj) = dview(lx, &c.cpath);
    // the rows of every dictionary as the author wrote them, in the vocabulary of the C05 codec model: from them the
    // model computes the declared units and `rows_units_ok` itself (Model/SplitSource.v check_source)
    let pos_id = |w: &Word| -> u16 {
        dict.lexicon().get_word_info_subset(sudachi::dic::word_id::WordId::new(w.dic as u8, w.idx), sudachi::dic::subset::InfoSubset::POS_ID).map(|i| i.pos_id()).unwrap_or(u16::MAX)
    };
    let srcs = clist((0..lx.ndics).map(|d| {
        clist(lx.words.iter().filter(|w| w.dic == d).map(|w| {
            let units = |us: &Vec<(usize, u32, bool)>| -> String {
                clist(us.iter().map(|u| {
                    let t = lx.get(u.0, u.1);
                    if u.2 {
                        // written surface: the key for a word of the dictionary being built, the headword for a system word
                        format!("uinl {} {} {}", ctext(if u.0 == d { &t.key } else { &t.head }), cn(pos_id(t)), ctext(&Lexica::reading_of(t)))
                    } else if u.0 == 0 || d == 0 {
                        format!("uref {}", cn(u.1))
                    } else {
                        format!("uref {}", cn((1u32 << 28) | u.1))
                    }
                }))
            };
            format!("row {} {} {} {} {} {}", ctext(&w.key), ctext(&w.head), ctext(&Lexica::reading_of(w)), cn(pos_id(w)), units(&w.a), units(&w.b))
        }))
    }));
    // the foreign targets as Coq cases: the target's dictionary view (the ids the source's view mentions, as THAT dictionary
    // resolves them) goes to Model/SplitLists.v check_foreign next to the source's
    let foreign_terms: String = foreign
        .iter()
        .map(|(k, _, fa, fb)| {
            let df = clist(dvj.as_array().unwrap().iter().filter_map(|e| {
                let raw = e[0].as_u64().unwrap() as u32;
                if raw >> 28 == 0 {
                    let nums = |x: &Value| clist(x.as_array().unwrap().iter().map(|u| cn(u.as_u64().unwrap() as u32)));
                    Some(format!("({}, ({}, ({}, {})))", cn(raw), ctext(e[1].as_str().unwrap()), nums(&e[2]), nums(&e[3])))
                } else if *k == 1 {
                    Some(format!("({}, ({}, ([], [])))", cn(raw), ctext(&format!("ズ{}ズ", raw & 0x0fff_ffff))))
                } else {
                    None
                }
            }));
            let col = |f: &Vec<(usize, Option<(bool, Vec<Tok>)>)>| clist(f.iter().map(|(p, r)| format!("({}%nat, {})", p, csplit(r))));
            format!(" && check_foreign dv {} t m2o cp {} {}", df, col(fa), col(fb))
        })
        .collect();
    let term = format!(
        "let dv := {} in let t := {} in let m2o := {} in let cp := {} in let iu := {} in let sa := {} in let sb := {} in check_case dv t m2o cp {} iu {} {} sa sb && check_source {} t m2o cp iu sa sb{}",
        dv,
        ctext(&c.modified),
        clist(c.m2o.iter().map(|x| cnu(*x))),
        clist(c.cpath.iter().map(|x| format!("({}, {}, {})", cnu(x.0), cnu(x.1), cn(x.2)))),
        clist(c.stored.iter().map(|s| cpair(&clist(s.0.iter().map(|x| cn(*x))), &clist(s.1.iter().map(|x| cn(*x)))))),
        clist(sa.iter().map(csplit)),
        clist(sb.iter().map(csplit)),
        clist(c.ctoks.iter().map(ctok)),
        ctoks(&a),
        ctoks(&b),
        srcs,
        foreign_terms
    );
    if c.cpath.iter().filter_map(|p| lx.word_of(p.2)).any(|w| {
        w.a.iter().chain(w.b.iter()).any(|u| u.2 && lx.get(u.0, u.1).shadow_of.is_some())
    }) {
        sink.tag("inline_ref_matching_own_and_system_row");
    }
    // the author's condition, recomputed here only for the histogram: keys of the declared units concatenate to the key
    for w in c.cpath.iter().filter_map(|p| lx.word_of(p.2)) {
        for us in [&w.a, &w.b] {
            if !us.is_empty() {
                let cat: String = us.iter().map(|u| lx.get(u.0, u.1).key.as_str()).collect();
                sink.tag(if cat == w.key { "token_mode_pairs_with_rows_units_ok" } else { "token_mode_pairs_with_ill-formed_rows" });
            }
        }
    }
    // histogram
    let max_units = c.stored.iter().map(|s| s.0.len().max(s.1.len())).max().unwrap_or(0);
    let nontrivial = max_units >= 2;
    sink.tag(if nontrivial { "some_token_has_2+_units" } else { "no_token_splits" });
    let differs = c.cpath.iter().filter_map(|p| lx.word_of(p.2)).any(|w| {
        [&w.a, &w.b].iter().any(|us| us.len() >= 2 && us[..us.len() - 1].iter().any(|u| lx.get(u.0, u.1).head.len() != lx.get(u.0, u.1).key.len()))
    });
    if c.cpath.iter().any(|p| p.2 & 0x0fff_ffff == 0x0fff_ffff) {
        sink.tag("C_path_has_token_merged_by_plugin");
        if c.cpath.iter().zip(c.ctoks.iter()).any(|(p, t)| p.2 & 0x0fff_ffff == 0x0fff_ffff && lx.words.iter().any(|w| (w.a.len() >= 2 || w.b.len() >= 2) && c.modified[t.begin..].starts_with(&w.key))) {
            sink.tag("merged_token_starts_with_a_word_declaring_units");
        }
    }
    sink.tag(if ci.path_rewrite.is_empty() { "plugins=none" } else if ci.path_rewrite.contains("Numeric") && ci.path_rewrite.contains("Katakana") { "plugins=numeric+katakana" } else if ci.path_rewrite.contains("Numeric") { "plugins=numeric" } else { "plugins=katakana" });
    sink.tag(if c.how == "fresh" { "C_tokenizer=fresh" } else if c.how.contains("analyse") { "C_tokenizer=switched_modes_with_analyses" } else { "C_tokenizer=switched_modes" });
    if differs {
        sink.tag("non-last_unit_headword_length_differs_from_key");
    }
    if c.stored.iter().any(|s| s.0.len() == 1 || s.1.len() == 1) {
        sink.tag("token_with_exactly_one_unit");
    }
    if c.m2o.iter().enumerate().any(|(i, o)| i != *o) {
        sink.tag("normalisation_changes_offsets");
    }
    if c.modified.len() != ci.text.len() {
        sink.tag("normalised_length_differs");
    }
    for (i, p) in c.cpath.iter().enumerate() {
        let d = p.2 >> 28;
        for u in c.stored[i].0.iter().chain(c.stored[i].1.iter()) {
            let ud = u >> 28;
            sink.tag(match (d, ud) {
                (0, 0) => "ref_system->system",
                (_, 0) => "ref_user->system",
                _ => "ref_user->user",
            });
            if d >= 2 && ud == d {
                sink.tag("ref_user->user_restamped_to_dic2");
            }
        }
        if d < 15 && d > 0 {
            sink.tag("user_word_on_path");
        }
    }
    let mut widths = [false; 5];
    for ch in c.modified.chars() {
        widths[ch.len_utf8()] = true;
    }
    sink.tag(&format!("byte_widths={}", (1..5).filter(|w| widths[*w]).map(|w| w.to_string()).collect::<Vec<_>>().join("")));
    if a.is_none() || b.is_none() {
        sink.tag("split_panics(ill-formed declaration)");
    }
    if ill_formed {
        sink.tag("malformed_stream");
    }
    let mut desc = desc0;
    desc["dict_view"] = dvj;
    let id = sink.case(term, desc, nontrivial);
    // independent of the model: the unit ids a token carries are the ones its word declares (system units as declared,
    // every other unit in the dictionary the word itself was read from); a token that is not a dictionary word -- OOV, or
    // merged by a path-rewrite plugin -- declares none
    let declared: Vec<(Vec<u32>, Vec<u32>)> = c
        .cpath
        .iter()
        .map(|p| match lx.word_of(p.2) {
            None => (vec![], vec![]),
            Some(word) => {
                let d = word.dic;
                let exp = |us: &Vec<(usize, u32, bool)>| -> Vec<u32> { us.iter().map(|u| Lexica::raw_wid(if u.0 == 0 { 0 } else { d }, u.1)).collect() };
                (exp(&word.a), exp(&word.b))
            }
        })
        .collect();
    for (i, p) in c.cpath.iter().enumerate() {
        if declared[i] != c.stored[i] {
            let what = match lx.word_of(p.2) {
                Some(w) => format!("word ({}, {}) {:?}", w.dic, w.idx, w.key),
                None => format!("token {} {:?} (word id {:#x}: not a dictionary word)", i, &c.modified[c.modified.char_indices().nth(p.0).map_or(c.modified.len(), |x| x.0)..c.modified.char_indices().nth(p.1).map_or(c.modified.len(), |x| x.0)], p.2),
            };
            sink.fail(id, &format!("{}: carries the unit lists {:?} but declares A={:?} B={:?}", what, c.stored[i], declared[i].0, declared[i].1), "");
            break;
        }
    }
    if !ill_formed {
        if a.is_none() || b.is_none() || sa.iter().chain(sb.iter()).any(|x| x.is_none()) {
            sink.fail(id, &format!("splitting panicked on well-formed declarations for {:?}", ci.text), "");
        } else if let Some(w) = rust_oracle(&c, &declared, &a, &b, &sa, &sb) {
            sink.fail(id, &w, "");
        } else if let Some(w) = key_range_oracle(lx, &c, &sa, &sb) {
            sink.fail(id, &w, "");
        } else {
            // boundaries, word ids and on-demand splits must not depend on which word-info fields are requested (what
            // splitting needs is added by the tokenizer itself): the directed requests -- nothing, one field only -- and
            // two drawn from the text, each in both call orders (mode at creation then set_subset; set_subset on a mode-C
            // tokenizer then set_mode), directly in modes A / B and through split_into on a mode-C result
            use sudachi::dic::subset::InfoSubset;
            let cover = if ci.path_rewrite.is_empty() {
                InfoSubset::empty()
            } else {
                // the request must cover what the configured path-rewrite plugins read (the restriction C10/C11 state):
                // JoinNumericPlugin decides on the POS and the normalised form
                InfoSubset::POS_ID | InfoSubset::NORMALIZED_FORM | InfoSubset::SURFACE
            };
            let mut requests: Vec<u32> = vec![0, 1, 2, 4, 8, 32, 64, 128, 512, restricted_bits, ((hash_of(&ci.text) >> 10) % 1024) as u32];
            requests.sort();
            requests.dedup();
            'outer: for rbits in requests {
                let ss = InfoSubset::from_bits_truncate(rbits) | cover;
                for (m, full) in [(Mode::A, &a), (Mode::B, &b)] {
                    for subset_first in [false, true] {
                        let r = catch(|| {
                            let mut tok = if subset_first { StatefulTokenizer::new(dict.clone(), Mode::C) } else { StatefulTokenizer::new(dict.clone(), m) };
                            tok.set_subset(ss);
                            if subset_first {
                                tok.set_mode(m);
                            }
                            tok.reset().push_str(&ci.text);
                            tok.do_tokenize().expect("tokenisation error");
                            let mut list = MorphemeList::empty(dict.clone());
                            list.collect_results(&mut tok).expect("collect");
                            observe(&list)
                        })
                        .ok();
                        if &r != full {
                            let how = if subset_first { "new(C); set_subset; set_mode" } else { "new(mode); set_subset" };
                            sink.fail(id, &format!("mode {:?} with field request {:?} ({}) gives {:?}, with all fields {:?}", m, ss, how, r, full), "");
                            break 'outer;
                        }
                    }
                }
                // on demand: a mode-C result under the request plus the split lists
                let want = ss | InfoSubset::SPLIT_A | InfoSubset::SPLIT_B;
                let lr = catch(|| {
                    let mut tok = StatefulTokenizer::new(dict.clone(), Mode::C);
                    tok.set_subset(want);
                    tok.reset().push_str(&ci.text);
                    tok.do_tokenize().expect("tokenisation error");
                    let mut list = MorphemeList::empty(dict.clone());
                    list.collect_results(&mut tok).expect("collect");
                    list
                });
                match lr {
                    Ok(list) if list.len() == c.ctoks.len() => {
                        for i in 0..list.len() {
                            for (m, exp) in [(Mode::A, &sa[i]), (Mode::B, &sb[i])] {
                                let got = run_split(&list, i, m);
                                if &got != exp {
                                    sink.fail(id, &format!("split_into({:?}) of token {} of a mode-C result with field request {:?} gives {:?}, with all fields {:?}", m, i, want, got, exp), "");
                                    break 'outer;
                                }
                            }
                        }
                    }
                    Ok(list) => {
                        sink.fail(id, &format!("mode C with field request {:?} gives {} tokens, with all fields {}", want, list.len(), c.ctoks.len()), "");
                        break 'outer;
                    }
                    Err(p) => {
                        sink.fail(id, &format!("mode C with field request {:?} panicked: {}", want, p), "");
                        break 'outer;
                    }
                }
            }
            // one result list shared by several tokenizers over the dictionary (what `out=` of the bindings does), each with
            // its own mode and field request, collecting in turn -- narrow requests first, every tokenizer more than once:
            // what each call leaves in the list must be the tokenisation of its mode
            let narrow = InfoSubset::from_bits_truncate(if hash_of(&ci.text) % 3 == 0 { 0 } else { 1 }) | cover;
            let drawn = InfoSubset::from_bits_truncate(((hash_of(&ci.text) >> 20) % 1024) as u32) | cover;
            let shared = catch(|| {
                let mut toks = vec![
                    (Mode::C, { let mut t = StatefulTokenizer::new(dict.clone(), Mode::C); t.set_subset(narrow); t }),
                    (Mode::A, StatefulTokenizer::new(dict.clone(), Mode::A)),
                    (Mode::B, { let mut t = StatefulTokenizer::new(dict.clone(), Mode::B); t.set_subset(drawn); t }),
                    (Mode::A, { let mut t = StatefulTokenizer::new(dict.clone(), Mode::C); t.set_subset(drawn); t.set_mode(Mode::A); t }),
                ];
                let order: [usize; 10] = [0, 1, 1, 2, 0, 2, 3, 1, 3, 2];
                let mut list = MorphemeList::empty(dict.clone());
                let mut seen = vec![];
                for k in order {
                    let (m, tok) = &mut toks[k];
                    tok.reset().push_str(&ci.text);
                    tok.do_tokenize().expect("tokenisation error");
                    list.collect_results(tok).expect("collect");
                    seen.push((k, *m, observe(&list)));
                }
                seen
            });
            // on-demand split into a result list that belongs to ANOTHER dictionary instance (same system dictionary, no or
            // other user dictionaries): the parts come from the dictionary of the list that owns the morpheme
            'others: for (k, filled, fa, fb) in foreign.iter() {
                for i in 0..c.ctoks.len() {
                    for (m, exp, got) in [(Mode::A, &sa[i], &fa[i].1), (Mode::B, &sb[i], &fb[i].1)] {
                        if got != exp {
                            sink.fail(id, &format!("split_into({:?}) of token {} into a result list of another dictionary instance ({}; {}) gives {:?}, into a list of its own dictionary {:?}", m, i, if *k == 0 { "same system dictionary, no user dictionary" } else { "same system dictionary, other user dictionaries" }, if *filled { "holding that dictionary's analysis and the earlier splits: parts appended" } else { "empty" }, got, exp), "");
                            break 'others;
                        }
                    }
                }
                sink.tag(if *filled { "split_into_foreign_list_with_contents" } else { "split_into_foreign_empty_list" });
            }
            match shared {
                Err(p) => sink.fail(id, &format!("tokenizers sharing one result list: panic: {}", p), ""),
                Ok(seen) => {
                    for (n, (k, m, got)) in seen.iter().enumerate() {
                        let exp: &Vec<Tok> = match m {
                            Mode::A => a.as_ref().unwrap(),
                            Mode::B => b.as_ref().unwrap(),
                            Mode::C => &c.ctoks,
                        };
                        if got != exp {
                            sink.fail(id, &format!("tokenizers sharing one result list (0: mode C request {:?}, 1: mode A all fields, 2: mode B request {:?}, 3: mode A request {:?}; calls 0 1 1 2 0 2 3 1 3 2): call {} (tokenizer {}, mode {:?}) leaves {:?}, the mode's tokenisation is {:?}", narrow, drawn, drawn, n, k, m, got, exp), "");
                            break;
                        }
                    }
                }
            }
        }
    }
}

fn lexica_from_json(v: &Value) -> Lexica {
    let mut lx = Lexica::default();
    let units = |x: &Value| -> Vec<(usize, u32, bool)> { x.as_array().unwrap().iter().map(|u| (u[0].as_u64().unwrap() as usize, u[1].as_u64().unwrap() as u32, u[2].as_bool().unwrap())).collect() };
    for w in v.as_array().unwrap() {
        lx.words.push(Word {
            dic: w[0].as_u64().unwrap() as usize,
            idx: w[1].as_u64().unwrap() as u32,
            key: w[2].as_str().unwrap().to_string(),
            head: w[7].as_str().unwrap_or(w[2].as_str().unwrap()).to_string(),
            cost: w[3].as_i64().unwrap() as i32,
            indexed: w[4].as_bool().unwrap(),
            shadow_of: w[8].as_array().map(|x| (x[0].as_u64().unwrap() as usize, x[1].as_u64().unwrap() as u32)),
            a: units(&w[5]),
            b: units(&w[6]),
        });
    }
    lx.ndics = 1 + lx.words.iter().map(|w| w.dic).max().unwrap_or(0);
    lx
}

/// head_word_length = byte length of the key, at the boundaries of the writer's length prefix (one byte below 127, two
/// bytes up to i16::MAX, build error above: C09_head_word_length_is_key_length states exactly this condition): a
/// compound "K" + "é" with units K / é where K is a key of L bytes; the loaded head_word_length of K must be L and the
/// A-mode split must put the boundary at byte L.  Headword, reading and normalised form are short, so only the key's
/// length is at its limit.
fn key_length_boundary(sink: &mut Sink, cfg: &str) {
    use sudachi::dic::word_id::WordId;
    for l in [1usize, 126, 127, 128, 255, 256, 257, 16383, 16384, 32764, 32765, 32766, 32767, 32768, 40000] {
        let k = "a".repeat(l);
        let csv = format!(
            "{k},0,0,100,h,{p},ヨa,n,*,A,*,*,*,*\né,0,0,100,é,{p},ヨb,é,*,A,*,*,*,*\n{k}é,0,0,-100,hh,{p},ヨc,nn,*,C,0/1,0/1,*,*\n",
            k = k,
            p = POS
        );
        let desc = json!({"kind": "c09-key-length", "key_bytes": l});
        let id = sink.case_rust_only(desc, true);
        sink.tag("key_length_boundary");
        match catch(|| build_dict(&csv, &[], cfg)) {
            Err(p) => sink.fail(id, &format!("key of {} bytes: the builder panicked: {}", l, p), ""),
            Ok(Err(e)) => {
                // the compound key is l + 2 bytes: the writer must refuse exactly when that exceeds i16::MAX
                if l + 2 <= 32767 {
                    sink.fail(id, &format!("key of {} bytes was rejected: {}", l, e), "");
                } else {
                    sink.tag("key_length_rejected_by_builder");
                }
            }
            Ok(Ok(d)) => {
                if l + 2 > 32767 {
                    sink.fail(id, &format!("compound key of {} bytes (> i16::MAX) was accepted", l + 2), "");
                    continue;
                }
                let dict: Dict = Rc::new(d);
                let hw: Vec<usize> = (0..3).map(|i| dict.lexicon().get_word_info(WordId::new(0, i)).map(|w| w.head_word_length()).unwrap_or(usize::MAX)).collect();
                if hw != vec![l, 2, l + 2] {
                    sink.fail(id, &format!("keys of {} / 2 / {} bytes are loaded with head_word_length {:?}", l, l + 2, hw), "");
                    continue;
                }
                let text = format!("{}é", k);
                let a = run_mode(&dict, &text, Mode::A);
                let exp = Some(vec![Tok { wid: 0, begin: 0, end: l, sb: 0, se: l }, Tok { wid: 1, begin: l, end: l + 2, sb: l, se: l + 2 }]);
                if text.len() <= 49149 && a != exp {
                    sink.fail(id, &format!("key of {} bytes: mode A gives {:?}", l, a.map(|v| v.iter().map(|t| (t.wid, t.begin, t.end)).collect::<Vec<_>>())), "");
                }
            }
        }
    }
}

// ---------------------------------------------------------------- the split API of the Python binding
// `Dictionary.create(mode=C, fields=F)` + `Morpheme.split(X)` against `Dictionary.create(mode=X, fields=F)` on a
// dictionary whose words declare A units only, B units only and both: whenever F asks for the split list of X (all fields,
// or the documented name split_a / split_b) splitting every C-mode morpheme on demand must give the direct tokenisation.
fn py_split_sessions() -> Vec<(Value, String, &'static str)> {
    let field_sets: Vec<Value> = vec![
        Value::Null,
        json!([]),
        json!(["split_a"]),
        json!(["split_b"]),
        json!(["split_a", "split_b"]),
        json!(["pos", "split_b"]),
        json!(["pos_id", "split_a"]),
        json!(["surface", "normalized_form", "dictionary_form", "reading_form", "word_structure", "synonym_group_id", "split_b"]),
        json!(["surface", "pos", "normalized_form", "dictionary_form", "reading_form", "word_structure", "synonym_group_id", "split_a"]),
    ];
    let mut v = vec![];
    for f in field_sets {
        for text in ["abbaaabb", "ba", "xbbab"] {
            for x in ["A", "B"] {
                v.push((f.clone(), text.to_string(), x));
            }
        }
    }
    v
}

fn python_split_stage(sink: &mut Sink, args: &Args, res: &std::path::Path, replay: Option<&Value>) {
    let pypkg = std::env::var("VERIF_PYPKG").unwrap_or_default();
    let root = std::env::var("VERIF_ROOT").unwrap_or_else(|_| ".".into());
    if pypkg.is_empty() {
        sink.tag("python_split_stage_skipped(module not staged)");
        return;
    }
    // the dictionary: ab (A = B = a/b), ba (B = b/a only), bb (B = b/b only), aa (A = a/a only); a, b not indexed
    let mut lx = Lexica::default();
    lx.ndics = 1;
    let mk = |idx: u32, key: &str, indexed: bool, a: Vec<(usize, u32, bool)>, b: Vec<(usize, u32, bool)>| Word { dic: 0, idx, key: key.into(), head: key.to_uppercase(), cost: if indexed { 900 } else { 1000 }, indexed, shadow_of: None, a, b };
    lx.words.push(mk(0, "ab", true, vec![(0, 1, false), (0, 2, false)], vec![(0, 1, false), (0, 2, false)]));
    lx.words.push(mk(1, "a", false, vec![], vec![]));
    lx.words.push(mk(2, "b", false, vec![], vec![]));
    lx.words.push(mk(3, "ba", true, vec![], vec![(0, 2, false), (0, 1, false)]));
    lx.words.push(mk(4, "bb", true, vec![], vec![(0, 2, false), (0, 2, false)]));
    lx.words.push(mk(5, "aa", true, vec![(0, 1, false), (0, 1, false)], vec![]));
    let csv = lx.csv(0);
    let bytes = (|| -> Result<Vec<u8>, String> {
        let mut sys = DictBuilder::new_system();
        sys.read_conn("1 1\n0 0 0\n".as_bytes()).map_err(|e| e.to_string())?;
        sys.read_lexicon(csv.as_bytes()).map_err(|e| e.to_string())?;
        sys.resolve().map_err(|e| e.to_string())?;
        let mut out = vec![];
        sys.compile(&mut out).map_err(|e| e.to_string())?;
        Ok(out)
    })();
    let bytes = match bytes {
        Ok(b) => b,
        Err(e) => {
            let id = sink.case_rust_only(json!({"kind": "py-split-build"}), false);
            sink.fail(id, &format!("dictionary of the python split stage was not built: {}", e), "");
            return;
        }
    };
    std::fs::write(res.join("c09_system.dic"), bytes).unwrap();
    let cfg_path = res.join("c09_sudachi.json");
    let cfgj: Value = serde_json::from_str(&config_json(res, "")).unwrap();
    let mut cfgj = cfgj;
    cfgj["systemDict"] = json!("c09_system.dic");
    std::fs::write(&cfg_path, cfgj.to_string()).unwrap();
    let cases: Vec<(Value, String, String)> = match replay {
        Some(c) => vec![(c["fields"].clone(), c["text"].as_str().unwrap().to_string(), c["split_mode"].as_str().unwrap().to_string())],
        None => py_split_sessions().into_iter().map(|(f, t, x)| (f, t, x.to_string())).collect(),
    };
    let mut sessions = vec![];
    for (f, text, x) in &cases {
        let mut ops = vec![json!({"op": "tokenize", "text": text, "mode": null, "out": false})];
        for i in 0..8 {
            ops.push(json!({"op": "split", "index": i, "mode": x, "out": false, "add_single": true}));
        }
        sessions.push(json!({"mode": "C", "fields": f, "projection": null, "ops": ops}));
        sessions.push(json!({"mode": x, "fields": f, "projection": null, "ops": [{"op": "tokenize", "text": text, "mode": null, "out": false}]}));
    }
    let sp = args.work.join("c09_sessions.json");
    let op = args.work.join("c09_py_out.json");
    std::fs::write(&sp, serde_json::to_vec(&sessions).unwrap()).unwrap();
    let _ = std::fs::remove_file(&op);
    let st = std::process::Command::new("python3").arg(format!("{}/pyharness/run_py.py", root)).arg(&cfg_path).arg(res).arg(&sp).arg(&op).env("PYTHONPATH", &pypkg).output();
    let py: Option<Value> = std::fs::read_to_string(&op).ok().and_then(|s| serde_json::from_str(&s).ok());
    let py = match (&st, py) {
        (Ok(o), Some(py)) if o.status.success() => py,
        (st, _) => {
            let id = sink.case_rust_only(json!({"kind": "py-split-run"}), false);
            let why = match st {
                Ok(o) => String::from_utf8_lossy(&o.stderr).chars().rev().take(400).collect::<String>().chars().rev().collect::<String>(),
                Err(e) => e.to_string(),
            };
            sink.fail(id, &format!("the python sessions did not complete: {}", why), "");
            return;
        }
    };
    let key = |m: &Value| json!([m["surface"], m["begin"], m["end"], m["word_id"]]);
    for (k, (f, text, x)) in cases.iter().enumerate() {
        let c = py["results"][2 * k].as_array().cloned().unwrap_or_default();
        let d = py["results"][2 * k + 1].as_array().cloned().unwrap_or_default();
        let covered = f.is_null() || f.as_array().map_or(false, |a| a.iter().any(|n| n == if x == "A" { "split_a" } else { "split_b" }));
        sink.tag("py-split-session");
        sink.tag(if covered { "py:split_list_requested" } else { "py:split_list_not_requested(not compared)" });
        let id = sink.case_rust_only(json!({"kind": "py-split", "fields": f, "text": text, "split_mode": x, "lexicon": csv}), covered);
        let ctoks = c.get(0).and_then(|o| o["morphemes"].as_array().cloned()).unwrap_or_default();
        let direct: Vec<Value> = d.get(0).and_then(|o| o["morphemes"].as_array().cloned()).unwrap_or_default().iter().map(key).collect();
        let mut on_demand: Vec<Value> = vec![];
        for i in 0..ctoks.len().min(8) {
            if let Some(ms) = c.get(1 + i).and_then(|o| o["morphemes"].as_array()) {
                on_demand.extend(ms.iter().map(key));
            }
        }
        if replay.is_some() {
            println!("fields {} text {:?} mode {}:\n  C tokens        : {:?}\n  split on demand : {:?}\n  direct          : {:?}", f, text, x, ctoks.iter().map(key).collect::<Vec<_>>(), on_demand, direct);
        }
        if !c.iter().chain(d.iter()).all(|o| o["ok"] == true) {
            sink.fail(id, &format!("sudachipy fields={} text {:?}: a call raised: {:?}", f, text, c.iter().chain(d.iter()).find(|o| o["ok"] != true)), "");
        } else if covered && on_demand != direct {
            sink.fail(id, &format!("sudachipy create(mode=C, fields={}) + Morpheme.split({}) on {:?} gives {} where create(mode={}) gives {}", f, x, text, Value::Array(on_demand), x, Value::Array(direct)), "");
        }
    }
}

pub fn run(args: &Args) {
    let mut sink = Sink::new("C09", &args.out, &["Model.Split", "Model.SplitSource", "Model.SplitLists"], args.seed, &args.tier);
    sink.shard_size = 100;
    sink.rule("generated system + 0..2 user dictionaries (atoms of 1/2/3/4-byte code points, headwords (column 4) often of another byte length than the key, compounds declaring A and B units by id, U-id or inline reference: system->system, user->system, user->user; no-units columns written as `*` or as the empty column; homographs; user copies of system words (same key, headword, POS, reading) referenced inline, so that the own-rows-first look-up order matters; words with exactly one unit; unindexed unit targets) compiled by DictBuilder and loaded with DefaultInputTextPlugin + a rewrite.def whose rules change byte lengths, under path-rewrite stacks {none, JoinKatakanaOovPlugin minLength 1..4, JoinNumericPlugin, both} over dictionaries whose katakana / numeral words declare units (a token merged by a plugin declares none: unchanged in A/B, split_into false); texts = 1..4 dictionary words / stray characters, randomly re-spelt in pre-normalisation form (upper case, full width, ㌔, rewrite rules); per text: C, A, B tokenisation by tokenizers that are fresh or were switched between modes (set_mode history, with analyses in between) before, A and B again under restricted field requests (nothing, single fields, two drawn from the text; both orders of set_subset / set_mode; directly and through split_into on a mode-C result), and split_into(A/B) of every C token (sub-token ranges also checked against the unit key lengths); one result list shared by four tokenizers of different modes and field requests collecting in turn; split_into into result lists of other dictionary instances (same system dictionary, no / other user dictionaries); plus sudachipy sessions: create(mode=C, fields=F) + Morpheme.split(A/B) of every morpheme against create(mode=A/B, fields=F) for field sets with and without split_a / split_b; non-trivial = some C token declares >= 2 units; a separate malformed stream uses ill-formed declarations (unit list too short / first unit longer than the text)");
    let res = prepare_resources(&args.work);
    let cfg = config_json(&res, "");
    if let Some(p) = &args.replay {
        let v: Value = serde_json::from_str(&std::fs::read_to_string(p).unwrap()).unwrap();
        let case = &v["case"];
        if case["kind"] == "py-split" || case["kind"] == "py-split-run" {
            python_split_stage(&mut sink, args, &res, if case["kind"] == "py-split" { Some(case) } else { None });
            sink.finish();
            return;
        }
        let ci = CaseIn {
            sys_csv: case["system_csv"].as_str().unwrap().to_string(),
            user_csvs: case["user_csvs"].as_array().unwrap().iter().map(|x| x.as_str().unwrap().to_string()).collect(),
            text: case["text"].as_str().unwrap().to_string(),
            path_rewrite: case["path_rewrite"].as_str().unwrap_or("").to_string(),
            others: vec![],
        };
        let ci = CaseIn { others: other_dicts(&ci.sys_csv, &ci.user_csvs, &config_json(&res, &ci.path_rewrite)), ..ci };
        let lx = lexica_from_json(&case["lexica"]);
        println!("system lexicon:\n{}", ci.sys_csv);
        for (i, u) in ci.user_csvs.iter().enumerate() {
            println!("user lexicon {}:\n{}", i + 1, u);
        }
        println!("path rewrite plugins: [{}]", ci.path_rewrite);
        let dict: Dict = Rc::new(build_dict(&ci.sys_csv, &ci.user_csvs, &config_json(&res, &ci.path_rewrite)).expect("dictionary of the replayed case"));
        run_case(&mut sink, &lx, &dict, &ci, case["ill_formed"].as_bool().unwrap_or(false), true);
        sink.finish();
        return;
    }
    let mut rng = Rng::new(args.seed);
    // corpus first: the repository's own split test dictionary
    {
        let mut lx = Lexica::default();
        lx.ndics = 1;
        lx.words.push(Word { dic: 0, idx: 0, key: "ab".into(), head: "AB".into(), cost: 1000, indexed: true, shadow_of: None, a: vec![(0, 1, false), (0, 2, false)], b: vec![(0, 1, false), (0, 2, false)] });
        lx.words.push(Word { dic: 0, idx: 1, key: "a".into(), head: "A".into(), cost: 1000, indexed: false, shadow_of: None, a: vec![], b: vec![] });
        lx.words.push(Word { dic: 0, idx: 2, key: "b".into(), head: "B".into(), cost: 1000, indexed: false, shadow_of: None, a: vec![], b: vec![] });
        // B units only; its split-a column is written as the empty string (idx 3: see Lexica::csv), that of word 4 as `*`
        lx.words.push(Word { dic: 0, idx: 3, key: "ba".into(), head: "BA".into(), cost: 900, indexed: true, shadow_of: None, a: vec![], b: vec![(0, 2, false), (0, 1, false)] });
        lx.words.push(Word { dic: 0, idx: 4, key: "bb".into(), head: "BB".into(), cost: 900, indexed: true, shadow_of: None, a: vec![], b: vec![(0, 2, false), (0, 2, false)] });
        lx.words.push(Word { dic: 0, idx: 5, key: "aa".into(), head: "AA".into(), cost: 900, indexed: true, shadow_of: None, a: vec![(0, 1, false), (0, 1, false)], b: vec![] });
        let sys_csv = lx.csv(0);
        let dict: Dict = Rc::new(build_dict(&sys_csv, &[], &cfg).expect("corpus dictionary"));
        let corpus_others = other_dicts(&sys_csv, &[], &cfg);
        for text in ["ＡＢ", "ab", "AB", "abab", "xＡb。", "", "ba", "bbaa", "xbaab"] {
            let ci = CaseIn { sys_csv: sys_csv.clone(), user_csvs: vec![], text: text.to_string(), path_rewrite: String::new(), others: corpus_others.clone() };
            run_case(&mut sink, &lx, &dict, &ci, false, false);
            sink.tag("corpus_split_alpha");
        }
    }
    // ... and a fixed system + user dictionary pair: a user compound whose units are a system word and a user word
    {
        let mut lx = Lexica::default();
        lx.ndics = 2;
        lx.words.push(Word { dic: 0, idx: 0, key: "1".into(), head: "1".into(), cost: 3000, indexed: true, shadow_of: None, a: vec![], b: vec![] });
        lx.words.push(Word { dic: 0, idx: 1, key: "a".into(), head: "A".into(), cost: 2000, indexed: true, shadow_of: None, a: vec![], b: vec![] });
        lx.words.push(Word { dic: 1, idx: 0, key: "é".into(), head: "é".into(), cost: 2000, indexed: true, shadow_of: None, a: vec![], b: vec![] });
        lx.words.push(Word { dic: 1, idx: 1, key: "aé".into(), head: "aé".into(), cost: 100, indexed: true, shadow_of: None, a: vec![(0, 1, false), (1, 0, false)], b: vec![(0, 1, false), (1, 0, true)] });
        let (sys_csv, user_csvs) = (lx.csv(0), vec![lx.csv(1)]);
        let dict: Dict = Rc::new(build_dict(&sys_csv, &user_csvs, &cfg).expect("corpus dictionary with a user dictionary"));
        let others = other_dicts(&sys_csv, &user_csvs, &cfg);
        for text in ["aé", "1aéa", "Ａé"] {
            let ci = CaseIn { sys_csv: sys_csv.clone(), user_csvs: user_csvs.clone(), text: text.to_string(), path_rewrite: String::new(), others: others.clone() };
            run_case(&mut sink, &lx, &dict, &ci, false, false);
            sink.tag("corpus_user_dictionary");
        }
    }
    key_length_boundary(&mut sink, &cfg);
    let ndict = args.n(45, 900);
    let per = args.n(26, 40);
    let mut built = 0u64;
    let mut rejected = 0u64;
    for d in 0..ndict {
        let ill = d % 9 == 8;
        // path-rewrite stack of this dictionary: none, JoinKatakanaOovPlugin (minLength 1..4), JoinNumericPlugin, or both
        // (the order of the default configuration); the dictionaries analysed under a plugin prefer katakana / numeral
        // words as parts of their compounds, so that words the plugins merge declare A/B units
        let kat = |rng: &mut Rng| format!(r#"{{"class": "com.worksap.nlp.sudachi.JoinKatakanaOovPlugin", "oovPOS": ["名詞", "普通名詞", "一般", "*", "*", "*"], "minLength": {}}}"#, 1 + rng.below(4));
        let num = |rng: &mut Rng| format!(r#"{{"class": "com.worksap.nlp.sudachi.JoinNumericPlugin", "enableNormalize": {}}}"#, rng.chance(1, 2));
        let (path_rewrite, bias) = if ill {
            (String::new(), 0)
        } else {
            match d % 4 {
                0 => (String::new(), 0),
                1 => (kat(&mut rng), 1),
                2 => (num(&mut rng), 2),
                _ => (format!("{}, {}", num(&mut rng), kat(&mut rng)), 3),
            }
        };
        let cfg = config_json(&res, &path_rewrite);
        let lx = gen_lexica(&mut rng, ill, bias);
        let ill = lx.ill_formed.is_some();
        let sys_csv = lx.csv(0);
        let user_csvs: Vec<String> = (1..lx.ndics).map(|k| lx.csv(k)).collect();
        let dict: Dict = match catch(|| build_dict(&sys_csv, &user_csvs, &cfg)) {
            Ok(Ok(d)) => Rc::new(d),
            Ok(Err(e)) if e.contains("was not in the dictionary, user-defined POS are forbidden") && !sys_csv.contains(POS) => {
                // the generated SYSTEM lexicon happens to hold no word with the part of speech the configured OOV provider
                // names (plugins are set up against the system dictionary, before user dictionaries are merged): the loader
                // refuses such a configuration by its documented rule, so it is no input of this property; counted in the evidence
                sink.tag("generated_configuration_refused:oov_pos_not_in_system_dictionary");
                continue;
            }
            Ok(Err(e)) => {
                rejected += 1;
                let id = sink.case_rust_only(json!({"kind": "c09-build", "system_csv": sys_csv, "user_csvs": user_csvs, "error": e}), false);
                sink.fail(id, &format!("generated dictionary was rejected: {}", e), "");
                continue;
            }
            Err(p) => {
                rejected += 1;
                let id = sink.case_rust_only(json!({"kind": "c09-build", "system_csv": sys_csv, "user_csvs": user_csvs}), false);
                sink.fail(id, &format!("building the generated dictionary panicked: {}", p), "");
                continue;
            }
        };
        built += 1;
        let others = if ill { vec![] } else { other_dicts(&sys_csv, &user_csvs, &cfg) };
        for k in 0..per {
            let text = match lx.ill_formed {
                // a first unit longer than the text: the word alone (anywhere else the sub-token ranges would be
                // reversed and the accessors, not the split, would fail)
                Some((dic, idx)) if lx.ill_long => {
                    if k >= 3 {
                        break;
                    }
                    let w = lx.get(dic, idx).key.clone();
                    if k == 0 {
                        w
                    } else {
                        denormalise(&mut rng, &w, 1, 2)
                    }
                }
                Some((dic, idx)) if k % 2 == 0 => format!("{}{}", gen_text(&mut rng, &lx), lx.get(dic, idx).key),
                // under a path-rewrite plugin the text is its own normalised form: a merged token is placed by its
                // original-text offsets
                _ => gen_text_opt(&mut rng, &lx, path_rewrite.is_empty()),
            };
            let ci = CaseIn { sys_csv: sys_csv.clone(), user_csvs: user_csvs.clone(), text, path_rewrite: path_rewrite.clone(), others: others.clone() };
            run_case(&mut sink, &lx, &dict, &ci, ill, false);
        }
    }
    python_split_stage(&mut sink, args, &res, None);
    sink.tag_n("dictionaries_built", built);
    sink.tag_n("dictionaries_rejected", rejected);
    sink.finish();
}
