//! C10 — results do not depend on what a tokenizer or result list processed before.
//!
//! Random operation sequences {set_mode, set_subset, analyse (short / long / empty / oversized / failing late), new list,
//! collect into a reused list, split_into, lookup} on one StatefulTokenizer, followed by a probe (analyse + collect),
//! compared field by field with a freshly created tokenizer of the same mode and field request; the Coq model
//! (Model/TokState.v) replays the same operations over an environment recorded from fresh tokenizers.
use crate::c09::*;
use crate::common::*;
use serde_json::{json, Value};
use std::rc::Rc;
use sudachi::analysis::node::ResultNode;
use sudachi::analysis::lattice::Lattice;
use sudachi::analysis::stateful_tokenizer::StatefulTokenizer;
use sudachi::analysis::stateless_tokenizer::DictionaryAccess;
use sudachi::config::Config;
use sudachi::dic::dictionary::JapaneseDictionary;
use sudachi::dic::grammar::Grammar;
use sudachi::dic::lexicon_set::LexiconSet;
use sudachi::input_text::{InputBuffer, InputTextIndex};
use sudachi::plugin::input_text::InputTextPlugin;
use sudachi::plugin::oov::OovProviderPlugin;
use sudachi::plugin::path_rewrite::PathRewritePlugin;
use sudachi::prelude::*;

pub struct FailingRewrite;
impl PathRewritePlugin for FailingRewrite {
    fn set_up(&mut self, _s: &serde_json::Value, _c: &Config, _g: &Grammar) -> SudachiResult<()> {
        Ok(())
    }
    fn rewrite(&self, text: &InputBuffer, path: Vec<ResultNode>, _l: &Lattice) -> SudachiResult<Vec<ResultNode>> {
        if text.current().contains('!') {
            Err(SudachiError::InvalidRange(0, 0))
        } else {
            Ok(path)
        }
    }
}
pub struct WrapDict {
    pub inner: JapaneseDictionary,
    pub prw: Option<Vec<Box<dyn PathRewritePlugin + Sync + Send>>>, // None: the plugins the dictionary was configured with
}
impl DictionaryAccess for WrapDict {
    fn grammar(&self) -> &Grammar<'_> {
        self.inner.grammar()
    }
    fn lexicon(&self) -> &LexiconSet<'_> {
        self.inner.lexicon()
    }
    fn input_text_plugins(&self) -> &[Box<dyn InputTextPlugin + Sync + Send>] {
        self.inner.input_text_plugins()
    }
    fn oov_provider_plugins(&self) -> &[Box<dyn OovProviderPlugin + Sync + Send>] {
        self.inner.oov_provider_plugins()
    }
    fn path_rewrite_plugins(&self) -> &[Box<dyn PathRewritePlugin + Sync + Send>] {
        match &self.prw {
            Some(p) => p,
            None => self.inner.path_rewrite_plugins(),
        }
    }
}

use sudachi::dic::subset::InfoSubset;
type WD = Rc<WrapDict>;

#[derive(Clone, Debug)]
enum Op {
    SetMode(u8),
    SetSubset(u32),
    Analyse(usize), // index into the text pool
    NewList,
    Collect(usize),
    SplitInto(u8, usize, usize, usize),
    Lookup(usize, usize, u32),
    /// another tokenizer (mode, field request) analyses a pool text and collects into list k: one result list shared by
    /// two tokenizers.  Not part of the Coq run: a later collect of our tokenizer overwrites everything the list shows.
    OtherCollect(usize, usize, u8, u32),
}

fn mode_of(m: u8) -> Mode {
    match m {
        0 => Mode::A,
        1 => Mode::B,
        _ => Mode::C,
    }
}
fn cmode(m: u8) -> &'static str {
    match m {
        0 => "MA",
        1 => "MB",
        _ => "MC",
    }
}

const BIG: usize = 16384; // "あ" x 16384 = 49152 bytes > MAX_LENGTH

#[derive(Clone, Debug)]
enum Txt {
    Plain(String),
    Oversized,       // rejected by start_build
    CommitOverflow,  // 'q' x 20000 -> 120000 bytes after rewriting: rejected by commit
}
impl Txt {
    fn get(&self) -> String {
        match self {
            Txt::Plain(s) => s.clone(),
            Txt::Oversized => "あ".repeat(BIG),
            Txt::CommitOverflow => "q".repeat(20000),
        }
    }
    fn coq(&self) -> String {
        match self {
            Txt::Plain(s) => ctext(s),
            Txt::Oversized => format!("(repeat 12354%N (N.to_nat {}%N))", BIG),
            Txt::CommitOverflow => "[]".to_string(),
        }
    }
    fn json(&self) -> Value {
        match self {
            Txt::Plain(s) => json!(s),
            Txt::Oversized => json!({"oversized": BIG}),
            Txt::CommitOverflow => json!({"commit_overflow": 20000}),
        }
    }
}

/// (char begin, char end, byte begin, byte end, word id) of every node, from key lengths (dictionary words) and the
/// modified-text surface kept in the word info (OOV); no access to the list's input buffer
fn nodes_of(list: &MorphemeList<WD>, lx: &Lexica) -> Vec<(usize, usize, usize, usize, u32)> {
    let mut v = vec![];
    let (mut c, mut b) = (0usize, 0usize);
    for m in list.iter() {
        let w = m.word_id();
        let key: String = if w.is_oov() { m.get_word_info().surface().to_string() } else { lx.get(w.dic() as usize, w.word()).key.clone() };
        let (c2, b2) = (c + key.chars().count(), b + key.len());
        v.push((c, c2, b, b2, w.as_raw()));
        c = c2;
        b = b2;
    }
    v
}

#[derive(Clone, Debug, PartialEq)]
struct Field {
    begin: usize,
    end: usize,
    begin_c: usize,
    end_c: usize,
    surface: String,
    wid: u32,
    dic: i32,
    cost: i32,
    requested: Vec<String>,
}

/// every accessor of every morpheme, restricted to the requested fields
fn fields_of(list: &MorphemeList<WD>, req: InfoSubset) -> Vec<Field> {
    fields_from(list, 0, req)
}

/// ... of the morphemes from position `from` on
fn fields_from(list: &MorphemeList<WD>, from: usize, req: InfoSubset) -> Vec<Field> {
    list.iter()
        .skip(from)
        .map(|m| {
            let wi = m.get_word_info();
            let mut r = vec![];
            if req.contains(InfoSubset::SURFACE) {
                r.push(format!("surface={}", wi.surface()));
            }
            if req.contains(InfoSubset::HEAD_WORD_LENGTH) {
                r.push(format!("hwl={}", wi.head_word_length()));
            }
            if req.contains(InfoSubset::POS_ID) {
                r.push(format!("pos={}/{:?}", m.part_of_speech_id(), m.part_of_speech()));
            }
            if req.contains(InfoSubset::NORMALIZED_FORM) {
                r.push(format!("norm={}", m.normalized_form()));
            }
            if req.contains(InfoSubset::DIC_FORM_WORD_ID) {
                r.push(format!("dicform_id={}", wi.dictionary_form_word_id()));
            }
            if req.contains(InfoSubset::READING_FORM) {
                r.push(format!("reading={}", m.reading_form()));
            }
            if req.contains(InfoSubset::SPLIT_A) {
                r.push(format!("a={:?}", wi.a_unit_split()));
            }
            if req.contains(InfoSubset::SPLIT_B) {
                r.push(format!("b={:?}", wi.b_unit_split()));
            }
            if req.contains(InfoSubset::WORD_STRUCTURE) {
                r.push(format!("ws={:?}", wi.word_structure()));
            }
            if req.contains(InfoSubset::SYNONYM_GROUP_ID) {
                r.push(format!("syn={:?}", m.synonym_group_ids()));
            }
            Field { begin: m.begin(), end: m.end(), begin_c: m.begin_c(), end_c: m.end_c(), surface: m.surface().to_string(), wid: m.word_id().as_raw(), dic: m.dictionary_id(), cost: m.total_cost(), requested: r }
        })
        .collect()
}

/// on-demand split (split_into) of every morpheme in every mode whose split field is requested
fn splits_of(list: &MorphemeList<WD>, req: InfoSubset) -> Vec<String> {
    let mut v = vec![];
    for i in 0..list.len() {
        for (m, bit) in [(Mode::A, InfoSubset::SPLIT_A), (Mode::B, InfoSubset::SPLIT_B)] {
            if !req.contains(bit) {
                continue;
            }
            let r = catch(|| {
                let mut out = MorphemeList::empty(list.dict().clone());
                let flag = list.get(i).split_into(m, &mut out).map_err(|e| e.to_string());
                (flag, out.iter().map(|x| (x.word_id().as_raw(), x.begin(), x.end(), x.surface().to_string())).collect::<Vec<_>>())
            });
            v.push(format!("morpheme {} split_into({:?}) -> {:?}", i, m, r));
        }
    }
    v
}

/// split morpheme i of `src` into `out` (which is not cleared): the answer and what was appended, in the requested fields
fn parts_into(src: &MorphemeList<WD>, i: usize, mode: Mode, out: &mut MorphemeList<WD>, req: InfoSubset) -> String {
    let r = catch(|| {
        let n0 = out.len();
        let flag = src.get(i).split_into(mode, out).map_err(|e| e.to_string());
        (flag, fields_from(out, n0, req))
    });
    format!("{:?}", r)
}

/// The TARGET list of an on-demand split has a history too: every other list of the run -- collected into by this or
/// another tokenizer under whatever request, looked up into, split into -- receives the parts of a probe morpheme (first
/// as it is, then after clear()); the parts must be those a fresh source list puts into a fresh target, in every field
/// the source list's request covers.
fn split_targets_with_history(hist: &mut [MorphemeList<WD>], src_idx: usize, fresh_src: &MorphemeList<WD>, req: InfoSubset) -> Option<String> {
    let modes: Vec<Mode> = [(Mode::A, InfoSubset::SPLIT_A), (Mode::B, InfoSubset::SPLIT_B)].iter().filter(|x| req.contains(x.1)).map(|x| x.0).collect();
    if modes.is_empty() || fresh_src.len() == 0 {
        return None;
    }
    let wd = fresh_src.dict().clone();
    for j in 0..hist.len() {
        if j == src_idx {
            continue;
        }
        for round in 0..2 {
            if round == 1 {
                hist[j].clear();
            }
            for k in 0..modes.len() {
                let m = modes[(k + j) % modes.len()];
                // a morpheme that really splits in this mode (the first one; else morpheme 0)
                let i = (0..fresh_src.len()).find(|i| fresh_src.get(*i).split_into(m, &mut MorphemeList::empty(wd.clone())).unwrap_or(false)).unwrap_or(0);
                let exp = parts_into(fresh_src, i, m, &mut MorphemeList::empty(wd.clone()), req);
                let got = {
                    let (src, tgt) = if src_idx < j {
                        let (x, y) = hist.split_at_mut(j);
                        (&x[src_idx], &mut y[0])
                    } else {
                        let (x, y) = hist.split_at_mut(src_idx);
                        (&y[0], &mut x[j])
                    };
                    parts_into(src, i, m, tgt, req)
                };
                if got != exp {
                    return Some(format!("split_into({:?}) of probe morpheme {} into result list {} of the run ({}) gives {}, into a fresh list {}", m, i, j, if round == 0 { "as the history left it" } else { "after clear()" }, got, exp));
                }
            }
        }
    }
    None
}

/// compare the probe result of the history tokenizer with the one of a fresh tokenizer on the requested fields and on
/// the on-demand splits
fn compare_lists(what: &str, hist: &MorphemeList<WD>, fresh: &MorphemeList<WD>, req: InfoSubset) -> Option<String> {
    match (catch(|| fields_of(hist, req)), catch(|| fields_of(fresh, req))) {
        (Ok(a), Ok(b)) => {
            if a != b {
                let k = a.iter().zip(b.iter()).position(|(x, y)| x != y).unwrap_or(0);
                return Some(format!("morpheme {} differs in a requested field ({}, fields {:?}): {:?} after the history, {:?} on a fresh tokenizer", k, what, req, a.get(k), b.get(k)));
            }
        }
        (a, b) => {
            if a.is_err() != b.is_err() {
                return Some(format!("reading the fields panics only on one side ({}; history: {:?}, fresh: {:?})", what, a.err(), b.err()));
            }
            return None;
        }
    }
    let (a, b) = (splits_of(hist, req), splits_of(fresh, req));
    if a != b {
        let k = a.iter().zip(b.iter()).position(|(x, y)| x != y).unwrap_or(0);
        return Some(format!("on-demand split differs ({}, fields {:?}): {:?} after the history, {:?} on a fresh tokenizer", what, req, a.get(k), b.get(k)));
    }
    None
}

type Ev = (u8, u8, Vec<(usize, usize, u32)>);

struct Impl {
    tok: StatefulTokenizer<WD>,
    lists: Vec<MorphemeList<WD>>,
    events: Vec<Ev>,
    count_only: bool, // collect events carry only the number of nodes (dictionaries not described by a Lexica)
}

fn analyse(tok: &mut StatefulTokenizer<WD>, text: &str) -> u8 {
    match catch(|| {
        tok.reset().push_str(text);
        tok.do_tokenize()
    }) {
        Ok(Ok(())) => 0,
        Ok(Err(_)) => 1,
        Err(_) => 2,
    }
}

fn exec(im: &mut Impl, wd: &WD, lx: &Lexica, pool: &[Txt], op: &Op) {
    match op {
        Op::SetMode(m) => {
            im.tok.set_mode(mode_of(*m));
        }
        Op::SetSubset(x) => {
            im.tok.set_subset(InfoSubset::from_bits_truncate(*x));
        }
        Op::Analyse(t) => {
            let f = analyse(&mut im.tok, &pool[*t].get());
            if !matches!(pool[*t], Txt::CommitOverflow) {
                im.events.push((0, f, vec![]));
            }
        }
        Op::NewList => im.lists.push(MorphemeList::empty(wd.clone())),
        Op::Collect(k) => {
            let tok = &mut im.tok;
            let l = &mut im.lists[*k];
            match catch(|| l.collect_results(tok)) {
                Ok(Ok(())) => {
                    let n = if im.count_only { vec![(0, 0, 0); im.lists[*k].len()] } else { nodes_of(&im.lists[*k], lx).iter().map(|x| (x.0, x.1, x.4)).collect() };
                    im.events.push((1, 0, n))
                }
                _ => im.events.push((1, 2, vec![])),
            }
        }
        Op::SplitInto(m, src, i, out) => {
            if src != out && *src < im.lists.len() && *out < im.lists.len() && *i < im.lists[*src].len() {
                let (a, b) = if src < out {
                    let (x, y) = im.lists.split_at_mut(*out);
                    (&x[*src], &mut y[0])
                } else {
                    let (x, y) = im.lists.split_at_mut(*src);
                    (&y[0], &mut x[*out])
                };
                let _ = catch(|| a.split_into(mode_of(*m), *i, b));
            }
        }
        Op::Lookup(k, q, ss) => {
            let l = &mut im.lists[*k];
            let q = pool[*q].get();
            let _ = catch(|| l.lookup(&q, InfoSubset::from_bits_truncate(*ss)));
        }
        Op::OtherCollect(k, t, m, ss) => {
            let mut other = StatefulTokenizer::new(wd.clone(), mode_of(*m));
            other.set_subset(InfoSubset::from_bits_truncate(*ss));
            if analyse(&mut other, &pool[*t].get()) == 0 {
                let l = &mut im.lists[*k];
                let _ = catch(|| l.collect_results(&mut other));
            }
        }
    }
}

fn cop(op: &Op, pool: &[Txt]) -> Option<String> {
    Some(match op {
        Op::SetMode(m) => format!("OSetMode {}", cmode(*m)),
        Op::SetSubset(x) => format!("OSetSubset {}", cn(*x)),
        Op::Analyse(t) => {
            if matches!(pool[*t], Txt::CommitOverflow) {
                return None;
            }
            format!("OAnalyse {}", pool[*t].coq())
        }
        Op::NewList => "ONewList".to_string(),
        Op::Collect(k) => format!("OCollect {}%nat", k),
        Op::SplitInto(m, s, i, o) => format!("OSplitInto {} {}%nat {}%nat {}%nat", cmode(*m), s, i, o),
        Op::Lookup(k, q, ss) => {
            if !matches!(pool[*q], Txt::Plain(_)) {
                return None;
            }
            format!("OLookup {}%nat {} {}", k, pool[*q].coq(), cn(*ss))
        }
        Op::OtherCollect(..) => return None,
    })
}

fn cev(e: &Ev) -> String {
    format!("({}, {}, {})", cn(e.0), cn(e.1), clist(e.2.iter().map(|x| format!("({}, {}, {})", cnu(x.0), cnu(x.1), cn(x.2)))))
}

/// table row of one text, recorded from fresh tokenizers over the dictionary without the failing plugin
fn row(plain: &WD, lx: &Lexica, text: &str) -> Result<String, String> {
    let node = |x: &(usize, usize, usize, usize, u32)| format!("Model.Split.mkNode {} {} {} {} {}", cnu(x.0), cnu(x.1), cnu(x.2), cnu(x.3), cn(x.4));
    let mut paths = vec![];
    let mut norm = "None".to_string();
    for m in [Mode::C, Mode::A, Mode::B] {
        let mut tok = StatefulTokenizer::new(plain.clone(), m);
        tok.reset().push_str(text);
        tok.do_tokenize().map_err(|e| format!("{}", e))?;
        if m == Mode::C {
            let inp = tok.verif_input();
            let md = inp.current().to_string();
            let m2o: Vec<usize> = (0..=md.len()).map(|i| inp.to_orig(i..i).start).collect();
            if md != text || m2o.iter().enumerate().any(|(i, o)| i != *o) {
                norm = format!("(Some ({}, {}))", ctext(&md), clist(m2o.iter().map(|x| cnu(*x))));
            }
        }
        let mut l = MorphemeList::empty(plain.clone());
        l.collect_results(&mut tok).map_err(|e| format!("{}", e))?;
        paths.push(clist(nodes_of(&l, lx).iter().map(|x| format!("({})", node(x)))));
    }
    Ok(format!("mkRow {} {} false {} {} (Some {}) (Some {})", ctext(text), norm, cbool(text.contains('!')), paths[0], paths[1], paths[2]))
}

fn op_json(op: &Op) -> Value {
    match op {
        Op::SetMode(m) => json!(["set_mode", m]),
        Op::SetSubset(x) => json!(["set_subset", x]),
        Op::Analyse(t) => json!(["analyse", t]),
        Op::NewList => json!(["new_list"]),
        Op::Collect(k) => json!(["collect", k]),
        Op::SplitInto(m, s, i, o) => json!(["split_into", m, s, i, o]),
        Op::Lookup(k, q, ss) => json!(["lookup", k, q, ss]),
        Op::OtherCollect(k, t, m, ss) => json!(["other_collect", k, t, m, ss]),
    }
}
fn op_from(v: &Value) -> Op {
    let n = |i: usize| v[i].as_u64().unwrap();
    match v[0].as_str().unwrap() {
        "set_mode" => Op::SetMode(n(1) as u8),
        "set_subset" => Op::SetSubset(n(1) as u32),
        "analyse" => Op::Analyse(n(1) as usize),
        "new_list" => Op::NewList,
        "collect" => Op::Collect(n(1) as usize),
        "split_into" => Op::SplitInto(n(1) as u8, n(2) as usize, n(3) as usize, n(4) as usize),
        "other_collect" => Op::OtherCollect(n(1) as usize, n(2) as usize, n(3) as u8, n(4) as u32),
        _ => Op::Lookup(n(1) as usize, n(2) as usize, n(3) as u32),
    }
}

/// a field request: everything, a random subset, or a narrow one (few fields)
fn gen_subset(rng: &mut Rng) -> u32 {
    match rng.below(4) {
        0 => 1023,
        1 => rng.below(1024) as u32,
        2 => 1 << rng.below(10),
        _ => (1 << rng.below(10)) | (1 << rng.below(10)),
    }
}

/// "calls": what a client of a binding does -- change the request (set_subset / set_mode) now and then, analyse, collect
/// into a result list that is mostly the same one; sometimes another tokenizer fills the shared list in between
fn gen_calls(rng: &mut Rng, pool: &[Txt]) -> Vec<Op> {
    let mut ops = vec![Op::NewList];
    let mut nlists = 1usize;
    let plain = |rng: &mut Rng| 3 + rng.below((pool.len() - 3) as u64) as usize;
    for _ in 0..(2 + rng.below(4)) {
        match rng.below(6) {
            0 | 1 => ops.push(Op::SetSubset(gen_subset(rng))),
            2 => ops.push(Op::SetMode(rng.below(3) as u8)),
            3 => {
                ops.push(Op::SetSubset(gen_subset(rng)));
                ops.push(Op::SetMode(rng.below(3) as u8));
            }
            _ => {}
        }
        if rng.chance(1, 6) {
            ops.push(Op::NewList);
            nlists += 1;
        }
        let k = if rng.chance(2, 3) { 0 } else { rng.below(nlists as u64) as usize };
        if rng.chance(1, 5) {
            ops.push(Op::OtherCollect(k, plain(rng), rng.below(3) as u8, gen_subset(rng)));
        }
        ops.push(Op::Analyse(if rng.chance(1, 8) { rng.below(pool.len() as u64) as usize } else { plain(rng) }));
        if !matches!(ops.last(), Some(Op::Analyse(t)) if matches!(pool[*t], Txt::CommitOverflow)) {
            ops.push(Op::Collect(k));
        }
    }
    ops
}

fn gen_ops(rng: &mut Rng, pool: &[Txt]) -> Vec<Op> {
    if rng.chance(1, 2) {
        return gen_calls(rng, pool);
    }
    let mut ops = vec![Op::NewList];
    let mut nlists = 1usize;
    let n = 1 + rng.below(9) as usize;
    let mut last_analyse = false;
    for _ in 0..n {
        let op = match rng.below(16) {
            0..=1 => Op::SetMode(rng.below(3) as u8),
            2 => Op::SetSubset(gen_subset(rng)),
            3..=8 => Op::Analyse(rng.below(pool.len() as u64) as usize),
            9 => {
                nlists += 1;
                Op::NewList
            }
            10..=12 if last_analyse => Op::Collect(rng.below(nlists as u64) as usize),
            13 => Op::SplitInto(rng.below(2) as u8, rng.below(nlists as u64) as usize, rng.below(3) as usize, rng.below(nlists as u64) as usize),
            14 if rng.chance(1, 3) => Op::OtherCollect(rng.below(nlists as u64) as usize, 3 + rng.below((pool.len() - 3) as u64) as usize, rng.below(3) as u8, gen_subset(rng)),
            14 => Op::Lookup(rng.below(nlists as u64) as usize, rng.below(pool.len() as u64) as usize, if rng.chance(1, 2) { 1023 } else { rng.below(1024) as u32 }),
            _ => Op::Analyse(rng.below(pool.len() as u64) as usize),
        };
        // (the analysis that overflows in commit has no counterpart in the Coq run: nothing is collected right after it)
        last_analyse = matches!(op, Op::Analyse(t) if !matches!(pool[t], Txt::CommitOverflow));
        ops.push(op);
    }
    ops
}

struct World {
    lx: Lexica,
    sys_csv: String,
    user_csvs: Vec<String>,
    wd: WD,    // with the path rewrite plugin that fails on '!'
    plain: WD, // without it (to record what the text analyses to)
}

fn world(lx: Lexica, cfg: &str) -> Result<World, String> {
    let sys_csv = lx.csv(0);
    let user_csvs: Vec<String> = (1..lx.ndics).map(|k| lx.csv(k)).collect();
    let wd = Rc::new(WrapDict { inner: build_dict(&sys_csv, &user_csvs, cfg)?, prw: Some(vec![Box::new(FailingRewrite)]) });
    let plain = Rc::new(WrapDict { inner: build_dict(&sys_csv, &user_csvs, cfg)?, prw: Some(vec![]) });
    Ok(World { lx, sys_csv, user_csvs, wd, plain })
}

fn run_case(sink: &mut Sink, w: &World, pool: &[Txt], m0: u8, ops: &[Op], probe: usize, probe_list: usize, verbose: bool) {
    let mut im = Impl { tok: StatefulTokenizer::new(w.wd.clone(), mode_of(m0)), lists: vec![], events: vec![], count_only: false };
    let mut all: Vec<Op> = ops.to_vec();
    all.push(Op::Analyse(probe));
    all.push(Op::Collect(probe_list));
    let mut mode_now = m0;
    let mut request = InfoSubset::all(); // what the user asked for: the default, or the last set_subset
    for op in &all {
        if let Op::SetMode(m) = op {
            mode_now = *m;
        }
        if let Op::SetSubset(x) = op {
            request = InfoSubset::from_bits_truncate(*x);
        }
        exec(&mut im, &w.wd, &w.lx, pool, op);
        if verbose {
            println!("{:?} -> events so far {:?}", op, im.events.last());
        }
    }
    let probe_text = pool[probe].get();
    let hist_flag = im.events[im.events.len() - 2].1;
    let hist_collect = im.events[im.events.len() - 1].clone();
    let accum = im.lists[probe_list].subset();
    // the same probe on a freshly created tokenizer with the same mode and field request
    let mut ftok = StatefulTokenizer::new(w.wd.clone(), mode_of(mode_now));
    ftok.set_subset(accum);
    let fflag = analyse(&mut ftok, &probe_text);
    let mut flist = MorphemeList::empty(w.wd.clone());
    let fcollect: Ev = match catch(|| flist.collect_results(&mut ftok)) {
        Ok(Ok(())) => (1, 0, nodes_of(&flist, &w.lx).iter().map(|x| (x.0, x.1, x.4)).collect()),
        _ => (1, 2, vec![]),
    };
    let fresh_events: Vec<Ev> = vec![(0, fflag, vec![]), fcollect.clone()];
    let mut bad: Option<String> = None;
    if hist_flag != fflag {
        bad = Some(format!("probe {:?}: outcome {} after the history, {} on a fresh tokenizer (0 Ok, 1 Err, 2 panic)", pool[probe].json(), hist_flag, fflag));
    } else if hist_collect != fcollect {
        bad = Some(format!("probe {:?}: collected {:?} after the history, {:?} on a fresh tokenizer", pool[probe].json(), hist_collect, fcollect));
    } else if hist_flag == 0 && hist_collect.1 == 0 {
        // (1) fresh tokenizer carrying the history tokenizer's accumulated field set
        bad = compare_lists("same accumulated field set", &im.lists[probe_list], &flist, accum).map(|m| format!("probe {:?}: {}", pool[probe].json(), m));
        // (2) fresh tokenizer created the way a user would: same mode, same field request (the default "all fields" or
        //     the argument of the last set_subset); earlier mode changes may leave extra fields loaded in the history
        //     tokenizer, so only the requested fields (and the split field of the current mode) are compared
        if bad.is_none() {
            let mode_bit = match mode_of(mode_now) {
                Mode::A => InfoSubset::SPLIT_A,
                Mode::B => InfoSubset::SPLIT_B,
                _ => InfoSubset::empty(),
            };
            let req = request | mode_bit;
            let mut utok = StatefulTokenizer::new(w.wd.clone(), mode_of(mode_now));
            utok.set_subset(request);
            let uflag = analyse(&mut utok, &probe_text);
            let mut ulist = MorphemeList::empty(w.wd.clone());
            let ucollect: Ev = match catch(|| ulist.collect_results(&mut utok)) {
                Ok(Ok(())) => (1, 0, nodes_of(&ulist, &w.lx).iter().map(|x| (x.0, x.1, x.4)).collect()),
                _ => (1, 2, vec![]),
            };
            if uflag != hist_flag || ucollect != hist_collect {
                bad = Some(format!("probe {:?}: {:?} after the history, outcome {} / {:?} on a fresh tokenizer with field request {:?}", pool[probe].json(), hist_collect, uflag, ucollect, request));
            } else {
                bad = compare_lists("same field request", &im.lists[probe_list], &ulist, req).map(|m| format!("probe {:?}: {}", pool[probe].json(), m));
                if bad.is_none() {
                    bad = split_targets_with_history(&mut im.lists, probe_list, &ulist, req).map(|m| format!("probe {:?}: {}", pool[probe].json(), m));
                }
            }
            if verbose {
                println!("user request  : {:?}\nhistory splits: {:?}\nfresh splits  : {:?}", request, splits_of(&im.lists[probe_list], req), splits_of(&ulist, req));
            }
        }
    }
    if verbose {
        println!("history events: {:?}\nfresh probe   : {:?}\nfield request : {:?}", im.events, fresh_events, accum);
        if hist_flag == 0 && hist_collect.1 == 0 {
            println!("history fields: {:?}\nfresh fields  : {:?}", catch(|| fields_of(&im.lists[probe_list], accum)), catch(|| fields_of(&flist, accum)));
        }
    }
    // table rows for every plain text that is analysed or looked up
    let mut used: Vec<usize> = vec![];
    for op in &all {
        if let Op::Analyse(t) = op {
            if matches!(pool[*t], Txt::Plain(_)) && !used.contains(t) {
                used.push(*t);
            }
        }
    }
    let mut rows = vec![];
    let mut table_err = None;
    for t in &used {
        match catch(|| row(&w.plain, &w.lx, &pool[*t].get())) {
            Ok(Ok(r)) => rows.push(format!("({})", r)),
            Ok(Err(e)) => table_err = Some(e),
            Err(e) => table_err = Some(e),
        }
    }
    let desc = json!({"kind": "c10", "system_csv": w.sys_csv, "user_csvs": w.user_csvs,
        "lexica": w.lx.words.iter().map(|x| json!([x.dic, x.idx, x.key, x.cost, x.indexed, x.a, x.b, x.head, x.shadow_of])).collect::<Vec<_>>(),
        "pool": pool.iter().map(|t| t.json()).collect::<Vec<_>>(), "initial_mode": m0,
        "ops": ops.iter().map(op_json).collect::<Vec<_>>(), "probe": probe, "probe_list": probe_list});
    let cops: Vec<String> = all.iter().filter_map(|o| cop(o, pool)).map(|s| format!("({})", s)).collect();
    let term = format!("check_case {} {} {} {} {}", clist(rows), cmode(m0), clist(cops), clist(im.events.iter().map(cev)), clist(fresh_events.iter().map(cev)));
    // histogram / non-triviality: the history contains at least one earlier analysis and the probe yields tokens
    let n_an = ops.iter().filter(|o| matches!(o, Op::Analyse(_))).count();
    let nontrivial = n_an >= 1 && !hist_collect.2.is_empty();
    sink.tag(&format!("history_analyses={}", n_an.min(6)));
    for op in ops {
        sink.tag(match op {
            Op::SetMode(_) => "op_set_mode",
            Op::SetSubset(_) => "op_set_subset",
            Op::Analyse(t) => match pool[*t] {
                Txt::Oversized => "op_analyse_oversized(start_build)",
                Txt::CommitOverflow => "op_analyse_oversized(commit)",
                Txt::Plain(ref s) if s.is_empty() => "op_analyse_empty",
                Txt::Plain(ref s) if s.contains('!') => "op_analyse_late_failure",
                _ => "op_analyse",
            },
            Op::NewList => "op_new_list",
            Op::Collect(_) => "op_collect",
            Op::SplitInto(..) => "op_split_into",
            Op::Lookup(..) => "op_lookup",
            Op::OtherCollect(..) => "op_other_tokenizer_collects_into_shared_list",
        });
    }
    sink.tag(match hist_flag {
        0 => "probe_ok",
        1 => "probe_err",
        _ => "probe_panic",
    });
    if ops.iter().any(|o| matches!(o, Op::Collect(k) if *k == probe_list)) {
        sink.tag("probe_list_reused");
    }
    let id = if table_err.is_some() { sink.case_rust_only(desc, nontrivial) } else { sink.case(term, desc, nontrivial) };
    if let Some(e) = table_err {
        sink.fail(id, &format!("a fresh tokenizer fails on a pool text: {}", e), "");
    }
    if let Some(b) = bad {
        sink.fail(id, &b, "");
    }
}

fn gen_pool(rng: &mut Rng, lx: &Lexica) -> Vec<Txt> {
    let mut pool = vec![Txt::Plain(String::new()), Txt::Oversized, Txt::CommitOverflow];
    for _ in 0..5 {
        pool.push(Txt::Plain(gen_text(rng, lx)));
    }
    // a long and a short one, and two on which the harness's path rewrite plugin fails after the lattice was resolved
    let mut long = String::new();
    for _ in 0..6 {
        long.push_str(&gen_text(rng, lx));
    }
    pool.push(Txt::Plain(long));
    pool.push(Txt::Plain(rng.pick(&ATOMS).to_string()));
    pool.push(Txt::Plain(format!("{}!", gen_text(rng, lx))));
    pool.push(Txt::Plain("!".to_string()));
    pool
}

// ---------------------------------------------------------------- Python binding (python/src/tokenizer.rs)
const PY_FIELDS: [&str; 9] = ["surface", "pos", "normalized_form", "dictionary_form", "reading_form", "word_structure", "split_a", "split_b", "synonym_group_id"];
const PY_TEXTS: [&str; 8] = ["東京都に行った", "東京都", "京都", "", "東京都東京都", "に行った東京都", "特a東京都", "東"];

/// one history session of the sudachipy Tokenizer: 1..5 tokenize calls (per-call mode override, out= reuse, texts that
/// are rejected as too long) followed by the probe call without a mode argument
fn gen_py_history(rng: &mut Rng) -> Value {
    let modes = ["A", "B", "C"];
    let fields: Value = if rng.chance(1, 2) { Value::Null } else { json!(PY_FIELDS.iter().filter(|_| rng.chance(1, 3)).collect::<Vec<_>>()) };
    let mut ops = vec![];
    for _ in 0..(1 + rng.below(5)) {
        let text = if rng.chance(1, 4) { "あ".repeat(20000) } else { rng.pick(&PY_TEXTS).to_string() };
        ops.push(json!({"op": "tokenize", "text": text, "mode": if rng.chance(2, 3) { json!(*rng.pick(&modes[..])) } else { Value::Null }, "out": rng.chance(1, 2)}));
    }
    // Morpheme.split / Dictionary.lookup with reused output lists in between
    let mut ops2 = vec![];
    for o in ops {
        ops2.push(o);
        if rng.chance(1, 3) {
            ops2.push(json!({"op": "split", "index": rng.below(4), "mode": *rng.pick(&modes[..]), "out": rng.chance(2, 3), "add_single": rng.chance(1, 2)}));
        }
        if rng.chance(1, 6) {
            ops2.push(json!({"op": "lookup", "query": *rng.pick(&["東京都", "京都", "に", ""][..]), "out": rng.chance(1, 2)}));
        }
    }
    let mut ops = ops2;
    if rng.chance(1, 2) {
        // probe: a plain tokenize call
        ops.push(json!({"op": "tokenize", "text": *rng.pick(&PY_TEXTS[..]), "mode": Value::Null, "out": rng.chance(1, 2)}));
    } else {
        // probe: an on-demand split (any of the three modes, reused output list or not, add_single or not) of a morpheme
        // of the last tokenize call; the fresh session repeats that call and the split
        ops.push(json!({"op": "tokenize", "text": *rng.pick(&PY_TEXTS[..]), "mode": if rng.chance(1, 3) { json!(*rng.pick(&modes[..])) } else { Value::Null }, "out": rng.chance(1, 2)}));
        for _ in 0..rng.below(3) {
            ops.push(json!({"op": "split", "index": rng.below(4), "mode": *rng.pick(&modes[..]), "out": true, "add_single": rng.chance(1, 2)}));
        }
        ops.push(json!({"op": "split", "index": rng.below(4), "mode": *rng.pick(&modes[..]), "out": rng.chance(3, 4), "add_single": rng.chance(1, 2)}));
    }
    json!({"mode": *rng.pick(&modes[..]), "fields": fields, "projection": Value::Null, "ops": ops})
}

/// The Python Tokenizer wraps one StatefulTokenizer and switches its mode for single calls: every history session is
/// run in the module built from the working tree next to a session that creates a fresh Tokenizer (same mode, same
/// fields) and only makes the probe call; both probe observations (boundaries, surfaces, word ids, the requested fields of every morpheme,
/// tokenizer.mode) must be equal.
fn python_stage(sink: &mut Sink, args: &Args, rng: &mut Rng, replay: Option<Value>) {
    let pypkg = std::env::var("VERIF_PYPKG").unwrap_or_default();
    let root = std::env::var("VERIF_ROOT").unwrap_or_else(|_| ".".into());
    if pypkg.is_empty() {
        sink.tag("python_stage_skipped(module not staged)");
        return;
    }
    let res = format!("{}/python/tests/resources", repo());
    let cfg_path = format!("{}/sudachi.json", res);
    let hist: Vec<Value> = match replay {
        Some(s) => vec![s],
        None => {
            let mut v = vec![
                json!({"mode": "C", "fields": null, "projection": null, "ops": [{"op": "tokenize", "text": "東京都", "mode": "A", "out": false}, {"op": "tokenize", "text": "東京都", "mode": null, "out": false}]}),
                json!({"mode": "A", "fields": null, "projection": null, "ops": [{"op": "tokenize", "text": "あ".repeat(20000), "mode": null, "out": true}, {"op": "tokenize", "text": "東京都に行った", "mode": null, "out": true}]}),
                // a reused output list of Morpheme.split that is not empty when the probe split (every mode, with and without
                // add_single) is made
                json!({"mode": "C", "fields": null, "projection": null, "ops": [{"op": "tokenize", "text": "東京都に行った", "mode": null, "out": false},
                    {"op": "split", "index": 0, "mode": "A", "out": true, "add_single": true}, {"op": "split", "index": 0, "mode": "C", "out": true, "add_single": true}]}),
                json!({"mode": "C", "fields": null, "projection": null, "ops": [{"op": "tokenize", "text": "東京都に行った", "mode": null, "out": false},
                    {"op": "split", "index": 0, "mode": "A", "out": true, "add_single": true}, {"op": "split", "index": 1, "mode": "C", "out": true, "add_single": false}]}),
                json!({"mode": "C", "fields": null, "projection": null, "ops": [{"op": "tokenize", "text": "東京都に行った", "mode": null, "out": true},
                    {"op": "split", "index": 0, "mode": "A", "out": true, "add_single": true}, {"op": "split", "index": 1, "mode": "B", "out": true, "add_single": true}]}),
                json!({"mode": "B", "fields": ["pos"], "projection": null, "ops": [{"op": "tokenize", "text": "東京都に行った", "mode": null, "out": true},
                    {"op": "split", "index": 0, "mode": "A", "out": true, "add_single": false}, {"op": "split", "index": 1, "mode": "A", "out": true, "add_single": false}]}),
            ];
            for _ in 0..args.n(150, 3000) {
                v.push(gen_py_history(rng));
            }
            v
        }
    };
    let mut sessions = vec![];
    for h in &hist {
        let hops = h["ops"].as_array().unwrap();
        let probe = hops.last().unwrap().clone();
        let mut fops = vec![];
        if probe["op"] == "split" {
            // the call whose result the probe splits: repeated on the fresh Tokenizer
            if let Some(t) = hops.iter().rev().find(|o| o["op"] == "tokenize") {
                fops.push(t.clone());
            }
        }
        fops.push(probe);
        sessions.push(h.clone());
        sessions.push(json!({"mode": h["mode"], "fields": h["fields"], "projection": h["projection"], "ops": fops}));
    }
    std::fs::create_dir_all(&args.work).unwrap();
    let sp = args.work.join("c10_sessions.json");
    let op = args.work.join("c10_py_out.json");
    std::fs::write(&sp, serde_json::to_vec(&sessions).unwrap()).unwrap();
    let _ = std::fs::remove_file(&op);
    let st = std::process::Command::new("timeout").arg("-k").arg("10").arg("900").arg("python3").arg(format!("{}/pyharness/run_py.py", root)).arg(&cfg_path).arg(&res).arg(&sp).arg(&op).env("PYTHONPATH", &pypkg).output();
    let py: Option<Value> = std::fs::read_to_string(&op).ok().and_then(|s| serde_json::from_str(&s).ok());
    let py = match (&st, py) {
        (Ok(o), Some(py)) if o.status.success() => py,
        (st, _) => {
            let id = sink.case_rust_only(json!({"kind": "py-history-run"}), false);
            let why = match st {
                Ok(o) => String::from_utf8_lossy(&o.stderr).chars().rev().take(400).collect::<String>().chars().rev().collect::<String>(),
                Err(e) => e.to_string(),
            };
            sink.fail(id, &format!("the python sessions did not complete: {}", why), "");
            return;
        }
    };
    for (i, h) in hist.iter().enumerate() {
        // only requested fields are compared: per-call mode overrides legitimately leave extra fields loaded
        let requested = |name: &str| h["fields"].is_null() || h["fields"].as_array().map_or(false, |f| f.iter().any(|x| x == name));
        let restrict = |mut o: Value| -> Value {
            if let Some(ms) = o["morphemes"].as_array_mut() {
                for m in ms.iter_mut() {
                    let m = m.as_object_mut().unwrap();
                    for (field, keys) in [("pos", &["pos", "pos_id"][..]), ("dictionary_form", &["dictionary_form"][..]), ("normalized_form", &["normalized_form"][..]),
                                          ("reading_form", &["reading_form"][..]), ("synonym_group_id", &["synonym_group_ids"][..])] {
                        if !requested(field) {
                            for k in keys {
                                m.remove(*k);
                            }
                        }
                    }
                }
            }
            o
        };
        let a = restrict(py["results"][2 * i].as_array().and_then(|v| v.last().cloned()).unwrap_or(Value::Null));
        let b = restrict(py["results"][2 * i + 1].as_array().and_then(|v| v.last().cloned()).unwrap_or(Value::Null));
        let ops = h["ops"].as_array().unwrap();
        let nontrivial = ops.len() >= 2 && a["morphemes"].as_array().map_or(false, |m| !m.is_empty());
        sink.tag("py-history-session");
        if ops.last().unwrap()["op"] == "split" {
            sink.tag("py:probe_is_Morpheme.split");
            if ops[..ops.len() - 1].iter().any(|o| o["op"] == "split" && o["out"] == true) && ops.last().unwrap()["out"] == true {
                sink.tag("py:probe_split_into_reused_non-fresh_list");
            }
        }
        if ops[..ops.len() - 1].iter().any(|o| o["op"] == "tokenize" && !o["mode"].is_null()) {
            sink.tag("py:per-call_mode_override");
        }
        if ops[..ops.len() - 1].iter().any(|o| o["text"].as_str().map_or(false, |t| t.len() > 49149)) {
            sink.tag("py:failing_call_in_history");
        }
        if ops[..ops.len() - 1].iter().any(|o| o["op"] == "tokenize" && !o["mode"].is_null() && o["text"].as_str().map_or(false, |t| t.len() > 49149)) {
            sink.tag("py:failing_call_with_mode_override");
        }
        let id = sink.case_rust_only(json!({"kind": "py-history", "session": h}), nontrivial);
        if args.replay.is_some() {
            println!("python probe after the history : {}\npython probe, fresh Tokenizer   : {}", a, b);
        }
        // an on-demand split in mode A / B reads the split list of that mode: comparable only when the request covers it
        // (all fields, the split field itself, or the tokenizer's own mode) -- earlier per-call modes legitimately leave it loaded
        let pr = ops.last().unwrap();
        if pr["op"] == "split" && pr["mode"] != "C" {
            let f = if pr["mode"] == "A" { "split_a" } else { "split_b" };
            if !(requested(f) || h["mode"] == pr["mode"]) {
                sink.tag("py:split_probe_outside_the_request(not compared)");
                continue;
            }
        }
        if a != b {
            let what = if a["ok"] != b["ok"] {
                format!("ok={} after the history, ok={} on a fresh Tokenizer", a["ok"], b["ok"])
            } else if a["tok_mode"] != b["tok_mode"] {
                format!("tokenizer.mode is {} after the history, {} on a fresh Tokenizer", a["tok_mode"], b["tok_mode"])
            } else {
                let (ma, mb) = (a["morphemes"].as_array().cloned().unwrap_or_default(), b["morphemes"].as_array().cloned().unwrap_or_default());
                let k = ma.iter().zip(mb.iter()).position(|(x, y)| x != y).unwrap_or(ma.len().min(mb.len()));
                format!("{} morphemes after the history, {} fresh; first difference at {}: {} vs {}", ma.len(), mb.len(), k, ma.get(k).unwrap_or(&Value::Null), mb.get(k).unwrap_or(&Value::Null))
            };
            let pr = ops.last().unwrap();
            let pdesc = if pr["op"] == "split" { format!("Morpheme.split(index {}, mode {}, out={}, add_single={})", pr["index"], pr["mode"], pr["out"], pr["add_single"]) } else { format!("tokenize({})", pr["text"]) };
            sink.fail(id, &format!("sudachipy Tokenizer(mode {}), probe {} after {} earlier calls: {}", h["mode"], pdesc, ops.len() - 1, what), "");
        }
    }
}

// ---------------------------------------------------------------- the INSTANTIATED machine (Proofs/TokStateConcrete.v)
// Small dictionaries and texts of at most 12 characters, shipped as tables the way the end-to-end stream of C01 ships
// them (harness/src/c01.rs e2e_case): trie + word-id table bytes, word parameters, word infos, character classes,
// connection matrix, OOV / path-rewrite plugin settings.  The Coq side runs the state machine whose stages are the
// concrete models over the whole history and compares outcomes, collected lengths and the probe (byte ranges + word ids).
fn conc_csv(rng: &mut Rng) -> (String, Vec<String>) {
    let pool = ["東京", "都", "に", "行", "く", "キロ", "アイ", "ab", "c", "大学", "ー", "さ", "府", "é"];
    let digits = ["1", "2", "0"];
    let noun = "名詞,普通名詞,一般,*,*,*";
    let num = "名詞,数詞,*,*,*,*";
    let mut rows: Vec<String> = vec![];
    let mut words: Vec<String> = vec![];
    let mut base: Vec<(usize, String)> = vec![];
    let push = |rows: &mut Vec<String>, key: &str, pos: &str, cost: i64, l: u64, r: u64, mode: &str, a: &str, b: &str| {
        rows.push(format!("{k},{l},{r},{c},{k},{p},ヨミ,{k},*,{m},{a},{b},*,*", k = key, l = l, r = r, c = cost, p = pos, m = mode, a = a, b = b));
    };
    for d in digits.iter().take(1 + rng.below(3) as usize) {
        base.push((rows.len(), d.to_string()));
        push(&mut rows, d, num, 2000 + rng.below(1000) as i64, 9, 9, "A", "*", "*");
        words.push(d.to_string());
    }
    for _ in 0..3 + rng.below(5) {
        let w = *rng.pick(&pool);
        if base.iter().any(|(_, x)| x == w) {
            continue;
        }
        base.push((rows.len(), w.to_string()));
        push(&mut rows, w, noun, 1000 + rng.below(5000) as i64, rng.below(9), rng.below(9), "A", "*", "*");
        words.push(w.to_string());
    }
    for _ in 0..2 + rng.below(3) {
        let k = 2 + rng.below(2) as usize;
        let units: Vec<(usize, String)> = (0..k).map(|_| rng.pick(&base).clone()).collect();
        let surface: String = units.iter().map(|u| u.1.as_str()).collect();
        if words.iter().any(|w| *w == surface) || surface.chars().count() > 6 {
            continue;
        }
        let a = units.iter().map(|u| u.0.to_string()).collect::<Vec<_>>().join("/");
        let b = if rng.chance(1, 2) { a.clone() } else { "*".to_string() };
        let pos = if surface.chars().all(|c| c.is_ascii_digit()) { num } else { noun };
        push(&mut rows, &surface, pos, rng.below(3000) as i64, rng.below(9), rng.below(9), "C", &a, &b);
        words.push(surface);
    }
    (rows.join("\n"), words)
}

fn conc_text(rng: &mut Rng, words: &[String]) -> String {
    let extra = ["ーー", "アイウ", "カ", "12", "1,2", "x", "に", " ", "キロメ"];
    loop {
        let mut s = String::new();
        for _ in 0..1 + rng.below(4) {
            if rng.chance(2, 3) {
                s.push_str(rng.pick(words).as_str());
            } else {
                s.push_str(*rng.pick(&extra));
            }
        }
        if s.chars().count() <= 12 {
            return s;
        }
    }
}

struct ConcWorld {
    csv: String,
    psm: bool,
    rewrite: u8,
    wd: WD,
    lex_hex: (String, String),
    nwords: u32,
}

fn conc_world(csv: &str, psm: bool, rewrite: u8) -> Result<ConcWorld, String> {
    use sudachi::dic::storage::{Storage, SudachiDicData};
    let sys = crate::c04::build_system(csv)?;
    let (trie, tbl) = crate::c04::sections(&sys, true);
    let pos = json!(["名詞", "普通名詞", "一般", "*", "*", "*"]);
    let num = |n: bool| json!({"class": "com.worksap.nlp.sudachi.JoinNumericPlugin", "enableNormalize": n});
    let kat = |m: u32| json!({"class": "com.worksap.nlp.sudachi.JoinKatakanaOovPlugin", "oovPOS": pos, "minLength": m});
    let rw = match rewrite {
        0 => vec![],
        1 => vec![num(true)],
        2 => vec![kat(3)],
        3 => vec![num(false), kat(1)],
        _ => vec![num(true), kat(3)],
    };
    let input = if psm { vec![json!({"class": "com.worksap.nlp.sudachi.ProlongedSoundMarkPlugin", "prolongedSoundMarks": ["ー", "-", "⁓", "〜", "〰"], "replacementSymbol": "ー"})] } else { vec![] };
    let cfgj = json!({"path": format!("{}/sudachi/tests/resources/", repo()), "characterDefinitionFile": "char.def", "inputTextPlugin": input,
        "oovProviderPlugin": [{"class": "com.worksap.nlp.sudachi.SimpleOovPlugin", "oovPOS": pos, "leftId": 8, "rightId": 8, "cost": 6000}],
        "pathRewritePlugin": rw});
    let cfg = sudachi::config::ConfigBuilder::from_bytes(cfgj.to_string().as_bytes()).map_err(|e| format!("{:?}", e))?.build();
    let dict = JapaneseDictionary::from_cfg_storage(&cfg, SudachiDicData::new(Storage::Owned(sys))).map_err(|e| format!("{:?}", e))?;
    Ok(ConcWorld { csv: csv.to_string(), psm, rewrite, wd: Rc::new(WrapDict { inner: dict, prw: None }), lex_hex: (crate::c04::hexz(&trie), crate::c04::hex(&tbl)), nwords: csv.lines().count() as u32 })
}

fn conc_case(sink: &mut Sink, w: &ConcWorld, pool: &[Txt], m0: u8, ops: &[Op], probe: usize, probe_list: usize, verbose: bool) {
    use sudachi::dic::word_id::WordId;
    let lx = Lexica::default();
    let mut im = Impl { tok: StatefulTokenizer::new(w.wd.clone(), mode_of(m0)), lists: vec![], events: vec![], count_only: true };
    for op in ops {
        exec(&mut im, &w.wd, &lx, pool, op);
    }
    let history: Vec<Ev> = im.events.clone();
    let probe_text = pool[probe].get();
    let pflag = analyse(&mut im.tok, &probe_text);
    let desc = json!({"kind": "c10-concrete", "csv": w.csv, "psm": w.psm, "rewrite": w.rewrite, "pool": pool.iter().map(|t| t.json()).collect::<Vec<_>>(),
        "initial_mode": m0, "ops": ops.iter().map(op_json).collect::<Vec<_>>(), "probe": probe, "probe_list": probe_list});
    if pflag == 2 {
        sink.tag("concrete:probe_panicked(not compared)");
        sink.case_rust_only(desc, false);
        return;
    }
    let implp: Option<Vec<(usize, usize, u32)>> = if pflag == 0 {
        let tok = &mut im.tok;
        let l = &mut im.lists[probe_list];
        match catch(|| l.collect_results(tok)) {
            Ok(Ok(())) => Some(im.lists[probe_list].iter().map(|m| (m.begin(), m.end(), m.word_id().as_raw())).collect()),
            _ => {
                sink.tag("concrete:probe_collect_failed(not compared)");
                sink.case_rust_only(desc, false);
                return;
            }
        }
    } else {
        None
    };
    if verbose {
        println!("history events (kind, outcome, nodes): {:?}\nprobe {:?} -> {:?}", history.iter().map(|e| (e.0, e.1, e.2.len())).collect::<Vec<_>>(), probe_text, implp);
    }
    // tables
    let g = w.wd.inner.grammar();
    let lex = w.wd.inner.lexicon();
    let pos_noun = g.get_part_of_speech_id(&["名詞", "普通名詞", "一般", "*", "*", "*"]).unwrap_or(0);
    let pos_num = g.get_part_of_speech_id(&["名詞", "数詞", "*", "*", "*", "*"]).unwrap_or(0);
    let (mut params, mut winfos, mut hw, mut ua, mut ub) = (vec![], vec![], vec![], vec![], vec![]);
    for i in 0..w.nwords {
        let wid = WordId::new(0, i);
        let (l, r, c) = lex.get_word_param(wid);
        params.push(format!("({}, ({}, {}, {}))", cn(i), cn(l as u16), cn(r as u16), cz(c as i64)));
        let wi = lex.get_word_info(wid).expect("word info");
        winfos.push(format!("({}, T.mkWI {} {} [] [] {})", cn(i), ctext(wi.surface()), ctext(wi.normalized_form()), cn(wi.pos_id())));
        hw.push(format!("({}, {})", cn(i), cnu(wi.head_word_length())));
        ua.push(format!("({}, {})", cn(i), clist(wi.a_unit_split().iter().map(|x| cn(x.as_raw())))));
        ub.push(format!("({}, {})", cn(i), clist(wi.b_unit_split().iter().map(|x| cn(x.as_raw())))));
    }
    let mut chars: Vec<char> = "ー".chars().collect();
    for t in pool.iter() {
        if let Txt::Plain(s) = t {
            chars.extend(s.chars());
        }
    }
    chars.push('あ');
    chars.sort();
    chars.dedup();
    let cats = clist(chars.iter().map(|c| format!("({}, {})", cn(*c as u32), cn(g.character_category.get_category_types(*c).bits()))));
    let pls = if w.psm { format!("[T.PD_psm {} {}]", ctext("ー-⁓〜〰"), ctext("ー")) } else { "[]".to_string() };
    let provs = format!("[T.O.PSimple (T.O.mkOov 8 8 6000 {})]", cn(pos_noun));
    let conn = clist((0..10u16).map(|l| clist((0..10u16).map(|r| cz(g.conn_matrix().cost(l, r) as i64)))));
    let num = |n: bool| format!("T.Rw.PNumeric {} {}", cbool(n), cn(pos_num));
    let kat = |m: usize| format!("T.Rw.PKatakana {}%nat {}", m, cn(pos_noun));
    let rw = match w.rewrite {
        0 => "[]".to_string(),
        1 => format!("[{}]", num(true)),
        2 => format!("[{}]", kat(3)),
        3 => format!("[{}; {}]", num(false), kat(1)),
        _ => format!("[{}; {}]", num(true), kat(3)),
    };
    let cops: Vec<String> = ops.iter().filter_map(|o| cop(o, pool)).map(|s| format!("({})", s)).collect();
    let term = format!(
        "let wi := {} in let hw := {} in let ua := {} in let ub := {} in check_conc (T.mk_tokenizer {} {} [(\"{}\"%string, \"{}\"%string)] {} wi {} {} {} T.Sp.ModeC hw ua ub) wi hw ua ub {} {} {} {} {}",
        clist(winfos), clist(hw), clist(ua), clist(ub), pls, cats, w.lex_hex.0, w.lex_hex.1, clist(params), provs, conn, rw,
        cmode(m0), clist(cops),
        clist(history.iter().map(|e| format!("({}, {}, {})", cn(e.0), cn(e.1), cnu(e.2.len())))),
        pool[probe].coq(),
        copt(implp.as_ref().map(|l| clist(l.iter().map(|x| format!("({}, {}, {})", cnu(x.0), cnu(x.1), cn(x.2))))))
    );
    let n_an = ops.iter().filter(|o| matches!(o, Op::Analyse(_))).count();
    sink.tag("concrete_machine_case");
    sink.tag(&format!("concrete:history_analyses={}", n_an.min(5)));
    sink.tag(&format!("concrete:rewrite_stack={}", w.rewrite));
    if w.psm {
        sink.tag("concrete:prolonged_sound_mark_plugin");
    }
    sink.case(term, desc, n_an >= 1 && implp.as_ref().map_or(false, |l| l.len() > 1));
}

/// the pool of a concrete case: index 0 empty, 1 oversized (start_build rejects it), 2.. texts of at most 12 characters
fn conc_pool(rng: &mut Rng, words: &[String]) -> Vec<Txt> {
    let mut pool = vec![Txt::Plain(String::new()), Txt::Oversized, Txt::Plain(conc_text(rng, words))];
    for _ in 0..5 {
        pool.push(Txt::Plain(conc_text(rng, words)));
    }
    pool
}

fn concrete_stage(sink: &mut Sink, args: &Args, rng: &mut Rng) {
    for _ in 0..args.n(20, 150) {
        let (csv, words) = conc_csv(rng);
        let w = match catch(|| conc_world(&csv, rng.chance(1, 2), rng.below(5) as u8)) {
            Ok(Ok(w)) => w,
            other => {
                sink.tag("concrete:dictionary_rejected");
                eprintln!("concrete dictionary not built: {:?}", other.err());
                continue;
            }
        };
        let pool = conc_pool(rng, &words);
        for _ in 0..args.n(8, 12) {
            let ops = gen_ops(rng, &pool);
            let nlists = ops.iter().filter(|o| matches!(o, Op::NewList)).count();
            let probe = if rng.chance(1, 10) { rng.below(2) as usize } else { 2 + rng.below((pool.len() - 2) as u64) as usize };
            conc_case(sink, &w, &pool, rng.below(3) as u8, &ops, probe, rng.below(nlists as u64) as usize, false);
        }
    }
}

// ---------------------------------------------------------------- the command-line tool (sudachi-cli/src/analysis.rs)
// The tool keeps ONE tokenizer and ONE result list for all lines of its input.  History independence stated on the tool
// itself: what one process prints for a file must be the concatenation of what a fresh process prints for every single
// line (same options).  No model of the output format is involved.
fn cli_run(cli: &str, cfg: &str, res: &str, work: &std::path::Path, mode: &str, split: &str, wakati: bool, all: bool, content: &[u8]) -> Result<Vec<u8>, String> {
    let inp = work.join("c10_cli_input.txt");
    std::fs::write(&inp, content).map_err(|e| e.to_string())?;
    let mut cmd = std::process::Command::new(cli);
    cmd.arg("-r").arg(cfg).arg("-p").arg(res).arg("-m").arg(mode).arg("--split-sentences").arg(split);
    if wakati {
        cmd.arg("-w");
    }
    if all {
        cmd.arg("-a");
    }
    cmd.arg(&inp);
    match cmd.output() {
        Ok(o) if o.status.success() => Ok(o.stdout),
        Ok(o) => Err(format!("exit status {:?}: {}", o.status.code(), String::from_utf8_lossy(&o.stderr).chars().take(300).collect::<String>())),
        Err(e) => Err(e.to_string()),
    }
}

/// the lines of a file as the tool reads them, each with its terminator
fn lines_with_terminators(file: &str) -> Vec<&str> {
    let mut v = vec![];
    let mut rest = file;
    while !rest.is_empty() {
        match rest.find('\n') {
            Some(i) => {
                v.push(&rest[..=i]);
                rest = &rest[i + 1..];
            }
            None => {
                v.push(rest);
                rest = "";
            }
        }
    }
    v
}

fn cli_case(sink: &mut Sink, args: &Args, cache: &mut std::collections::HashMap<String, Result<Vec<u8>, String>>, file: &str, mode: &str, split: &str, wakati: bool, all: bool, verbose: bool) {
    let cli = std::env::var("VERIF_CLI_BIN").unwrap_or_default();
    let res = format!("{}/python/tests/resources", repo());
    let cfg = format!("{}/sudachi.json", res);
    let lines = lines_with_terminators(file);
    let blank_after_text = lines.iter().enumerate().any(|(i, l)| l.trim_end_matches(&['\r', '\n'][..]).is_empty() && lines[..i].iter().any(|p| !p.trim_end_matches(&['\r', '\n'][..]).is_empty()));
    let desc = json!({"kind": "cli-lines", "file": file, "mode": mode, "split": split, "wakati": wakati, "all": all});
    sink.tag("cli:file_vs_fresh_process_per_line");
    sink.tag(&format!("cli:split_sentences={}", split));
    if blank_after_text {
        sink.tag("cli:blank_line_after_text");
    }
    if file.contains("\r\n") {
        sink.tag("cli:crlf");
    }
    let id = sink.case_rust_only(desc, blank_after_text);
    let whole = cli_run(&cli, &cfg, &res, &args.work, mode, split, wakati, all, file.as_bytes());
    let mut expected: Vec<u8> = vec![];
    let mut per_line: Vec<Vec<u8>> = vec![];
    for l in &lines {
        let key = format!("{}|{}|{}|{}|{}", mode, split, wakati, all, l);
        let r = cache.entry(key).or_insert_with(|| cli_run(&cli, &cfg, &res, &args.work, mode, split, wakati, all, l.as_bytes())).clone();
        match r {
            Ok(o) => {
                expected.extend_from_slice(&o);
                per_line.push(o);
            }
            Err(e) => {
                sink.fail(id, &format!("sudachi -m {} --split-sentences {}{}{} on the single line {:?}: {}", mode, split, if wakati { " -w" } else { "" }, if all { " -a" } else { "" }, l, e), "");
                return;
            }
        }
    }
    if verbose {
        println!("one process for the file:\n{}\nfresh process per line:\n{}", whole.as_ref().map(|o| String::from_utf8_lossy(o).to_string()).unwrap_or_else(|e| e.clone()), String::from_utf8_lossy(&expected));
    }
    // surface-only output without sentence splitting: the same run through the fold of Model/CliLoop.v (reused list as state),
    // with the analysis of a line taken from its fresh process
    if wakati && split == "no" {
        if let Ok(o) = &whole {
            let surfaces = |out: &Vec<u8>| -> String {
                let t = String::from_utf8_lossy(out).to_string();
                let t = t.strip_suffix('\n').unwrap_or(&t).to_string();
                if t.is_empty() {
                    clist(Vec::<String>::new())
                } else {
                    clist(t.split(' ').map(|w| cbytes(w.as_bytes())))
                }
            };
            let term = format!("check_cli_loop {} {} {}", cbytes(file.as_bytes()), clist(per_line.iter().map(|o| surfaces(o))), cbytes(o));
            sink.case(term, json!({"kind": "cli-lines", "file": file, "mode": mode, "split": split, "wakati": wakati, "all": all, "side": "fold"}), blank_after_text);
            sink.tag("cli:fold_model_case");
        }
    }
    match whole {
        Err(e) => sink.fail(id, &format!("sudachi -m {} --split-sentences {} on the file {:?}: {}", mode, split, file, e), ""),
        Ok(o) => {
            if o != expected {
                // the first line whose share of the output differs
                let mut off = 0usize;
                let mut which = lines.len();
                for (i, pl) in per_line.iter().enumerate() {
                    if o.len() < off + pl.len() || &o[off..off + pl.len()] != &pl[..] {
                        which = i;
                        break;
                    }
                    off += pl.len();
                }
                let got = String::from_utf8_lossy(&o[off.min(o.len())..]).chars().take(160).collect::<String>();
                let exp = per_line.get(which).map(|p| String::from_utf8_lossy(p).to_string()).unwrap_or_default();
                sink.fail(
                    id,
                    &format!("sudachi -m {} --split-sentences {}{}{} over the file {:?}: for line {} ({:?}) one process prints {:?}... where a fresh process prints {:?}", mode, split, if wakati { " -w" } else { "" }, if all { " -a" } else { "" }, file, which, lines.get(which).unwrap_or(&""), got, exp),
                    "",
                );
            }
        }
    }
}

fn cli_stage(sink: &mut Sink, args: &Args, rng: &mut Rng, replay: Option<Value>) {
    let cli = std::env::var("VERIF_CLI_BIN").unwrap_or_default();
    if cli.is_empty() || !std::path::Path::new(&cli).exists() {
        sink.tag("cli_stage_skipped(binary not staged)");
        return;
    }
    std::fs::create_dir_all(&args.work).unwrap();
    let mut cache = std::collections::HashMap::new();
    if let Some(c) = replay {
        cli_case(sink, args, &mut cache, c["file"].as_str().unwrap(), c["mode"].as_str().unwrap(), c["split"].as_str().unwrap(), c["wakati"].as_bool().unwrap(), c["all"].as_bool().unwrap(), true);
        return;
    }
    // directed: longer, shorter, blank, blank again, compound, blank at the end; CRLF; no final newline; leading blank
    let directed = [
        ("京都に行く\n\n東京都\n京都\n\n\n東京都に行く\n\n", "C", "no", false, false),
        ("京都に行く\n\n東京都\n\n", "A", "no", true, false),
        ("東京都に行った。京都。\r\n\r\n京都\r\n", "B", "no", false, true),
        ("\n東京都\n\n京都に行く", "C", "yes", false, false),
        ("東京都\n\n京都\n", "A", "yes", true, false),
    ];
    for (f, m, sp, w, a) in directed {
        cli_case(sink, args, &mut cache, f, m, sp, w, a, false);
        sink.tag("cli:directed_file");
    }
    let pool = ["", "", "東京都", "京都に行く", "東京都に行った。京都。", "京都", "特a東京都", "に", "東京都東京都に行った"];
    let long = "東京都に行った。".repeat(150);
    for _ in 0..args.n(14, 80) {
        let crlf = rng.chance(1, 4);
        let n = 2 + rng.below(5);
        let mut f = String::new();
        for k in 0..n {
            let l = if rng.chance(1, 12) { long.as_str() } else { *rng.pick(&pool) };
            f.push_str(l);
            if k + 1 < n || rng.chance(3, 4) {
                f.push_str(if crlf { "\r\n" } else { "\n" });
            }
        }
        let m = *rng.pick(&["A", "B", "C"]);
        let sp = if rng.chance(2, 3) { "no" } else { "yes" };
        let (w, a) = match rng.below(3) {
            0 => (true, false),
            1 => (false, true),
            _ => (false, false),
        };
        cli_case(sink, args, &mut cache, &f, m, sp, w, a, false);
    }
    sink.tag_n("cli:processes_started", cache.len() as u64);
}

pub fn run(args: &Args) {
    let mut sink = Sink::new("C10", &args.out, &["Model.TokState", "Proofs.TokStateConcrete", "Model.CliLoop"], args.seed, &args.tier);
    sink.shard_size = 60;
    sink.rule("per generated dictionary (as in C09, with DefaultInputTextPlugin + length-changing rewrite.def and a path rewrite plugin that fails on '!'): a pool of texts (empty, short, long, oversized for start_build, oversized after rewriting, late-failing) and random sequences of 1..9 operations {set_mode, set_subset (all / random / narrow requests), analyse, new list, collect into a possibly reused list, split_into, lookup, another tokenizer collecting into the shared list} -- half of them call-structured: [request change] analyse collect, mostly into the same list -- on one StatefulTokenizer, then a probe (analyse + collect into a possibly reused list) compared in outcome, boundaries, word ids, every requested field and the on-demand split (split_into A/B) of every morpheme -- into a fresh list and into every other result list of the run with its own history (as left, and after clear()) -- with (1) a fresh tokenizer carrying the same accumulated field set and (2) a fresh tokenizer of the same mode given the user's field request (default or last set_subset); plus a slice run on the INSTANTIATED machine (Proofs/TokStateConcrete.v: stages = Tokenizer.tokenize_model's, word infos under the loaded subset): small dictionaries shipped as tables, texts of at most 12 characters, the whole history replayed in Coq and the probe compared in byte ranges and word ids; plus the command-line tool (one tokenizer and one result list over the lines of a file): multi-line files (blank lines anywhere, long and short lines, CRLF, no final newline) through `sudachi --split-sentences no / yes`, modes A/B/C, default / -w / -a output, must print the concatenation of what a fresh process prints for every single line; plus sudachipy sessions (module built from the working tree): 1..5 tokenize calls with per-call mode override / out= reuse / rejected texts, Morpheme.split (modes A/B/C, out= reuse, add_single) and Dictionary.lookup(out=) in between, then a probe call (tokenize, or Morpheme.split of the last result in any mode into a possibly non-empty reused list) compared in boundaries, word ids, every requested field and tokenizer.mode with a fresh Tokenizer of the same mode and fields; non-trivial = the history holds at least one analysis and the probe yields tokens");
    let res = prepare_resources(&args.work);
    let cfg = config_json(&res, "");
    if let Some(p) = &args.replay {
        let v: Value = serde_json::from_str(&std::fs::read_to_string(p).unwrap()).unwrap();
        let c = &v["case"];
        if c["kind"] == "cli-lines" {
            let mut rng = Rng::new(args.seed);
            cli_stage(&mut sink, args, &mut rng, Some(c.clone()));
            sink.finish();
            return;
        }
        if c["kind"] == "c10-concrete" {
            let w = conc_world(c["csv"].as_str().unwrap(), c["psm"].as_bool().unwrap(), c["rewrite"].as_u64().unwrap() as u8).expect("dictionary of the replayed case");
            let pool: Vec<Txt> = c["pool"].as_array().unwrap().iter().map(|t| if let Some(s) = t.as_str() { Txt::Plain(s.to_string()) } else if t.get("oversized").is_some() { Txt::Oversized } else { Txt::CommitOverflow }).collect();
            let ops: Vec<Op> = c["ops"].as_array().unwrap().iter().map(op_from).collect();
            println!("lexicon:\n{}\npool: {:?}\ninitial mode: {}\nops: {:?}", w.csv, c["pool"], c["initial_mode"], ops);
            conc_case(&mut sink, &w, &pool, c["initial_mode"].as_u64().unwrap() as u8, &ops, c["probe"].as_u64().unwrap() as usize, c["probe_list"].as_u64().unwrap() as usize, true);
            sink.finish();
            return;
        }
        if c["kind"] == "py-history" || c["kind"] == "py-history-run" {
            let mut rng = Rng::new(args.seed);
            python_stage(&mut sink, args, &mut rng, if c["kind"] == "py-history" { Some(c["session"].clone()) } else { None });
            sink.finish();
            return;
        }
        let mut lx = Lexica::default();
        let units = |x: &Value| -> Vec<(usize, u32, bool)> { x.as_array().unwrap().iter().map(|u| (u[0].as_u64().unwrap() as usize, u[1].as_u64().unwrap() as u32, u[2].as_bool().unwrap())).collect() };
        for x in c["lexica"].as_array().unwrap() {
            lx.words.push(Word { dic: x[0].as_u64().unwrap() as usize, idx: x[1].as_u64().unwrap() as u32, key: x[2].as_str().unwrap().to_string(), head: x[7].as_str().unwrap_or(x[2].as_str().unwrap()).to_string(), cost: x[3].as_i64().unwrap() as i32, indexed: x[4].as_bool().unwrap(), shadow_of: x[8].as_array().map(|y| (y[0].as_u64().unwrap() as usize, y[1].as_u64().unwrap() as u32)), a: units(&x[5]), b: units(&x[6]) });
        }
        lx.ndics = 1 + lx.words.iter().map(|w| w.dic).max().unwrap_or(0);
        let w = world(lx, &cfg).expect("dictionary of the replayed case");
        let pool: Vec<Txt> = c["pool"].as_array().unwrap().iter().map(|t| if let Some(s) = t.as_str() { Txt::Plain(s.to_string()) } else if t.get("oversized").is_some() { Txt::Oversized } else { Txt::CommitOverflow }).collect();
        let ops: Vec<Op> = c["ops"].as_array().unwrap().iter().map(op_from).collect();
        println!("pool: {:?}\ninitial mode: {}\nops: {:?}", c["pool"], c["initial_mode"], ops);
        run_case(&mut sink, &w, &pool, c["initial_mode"].as_u64().unwrap() as u8, &ops, c["probe"].as_u64().unwrap() as usize, c["probe_list"].as_u64().unwrap() as usize, true);
        sink.finish();
        return;
    }
    let mut rng = Rng::new(args.seed);
    let ndict = args.n(30, 400);
    let per = args.n(30, 60);
    for _ in 0..ndict {
        let lx = gen_lexica(&mut rng, false, 0);
        let w = match catch(|| world(lx.clone(), &cfg)) {
            Ok(Ok(w)) => w,
            other => {
                let id = sink.case_rust_only(json!({"kind": "c10-build", "system_csv": lx.csv(0)}), false);
                sink.fail(id, &format!("generated dictionary was rejected: {:?}", other.err()), "");
                continue;
            }
        };
        let pool = gen_pool(&mut rng, &w.lx);
        // directed histories first, then random ones
        let directed: Vec<Vec<Op>> = vec![
            vec![Op::NewList, Op::Analyse(8), Op::Collect(0)],                                  // longer, then the probe
            vec![Op::NewList, Op::Analyse(1)],                                                  // rejected as too long
            vec![Op::NewList, Op::Analyse(2)],                                                  // too long after rewriting
            vec![Op::NewList, Op::Analyse(10)],                                                 // late failure
            vec![Op::NewList, Op::Analyse(8), Op::Collect(0), Op::Analyse(0), Op::Collect(0)],  // longer, empty, same list
            vec![Op::NewList, Op::SetSubset(4), Op::SetMode(0), Op::Analyse(8), Op::Collect(0), Op::Lookup(0, 9, 1023)],
            vec![Op::NewList, Op::SetMode(0), Op::Analyse(8), Op::Collect(0), Op::SetMode(2)],  // one-off mode override (C -> A -> C), default fields
            vec![Op::NewList, Op::SetMode(1), Op::Analyse(3), Op::SetMode(0)],                  // B -> A
            vec![Op::NewList, Op::SetSubset(1023), Op::SetMode(1), Op::SetMode(2), Op::SetMode(0), Op::SetMode(2)],
            // request narrowed, collected, widened, collected into the same list again
            vec![Op::NewList, Op::SetSubset(4), Op::Analyse(8), Op::Collect(0), Op::SetSubset(1023), Op::Analyse(3), Op::Collect(0)],
            vec![Op::NewList, Op::SetMode(2), Op::SetSubset(1), Op::Analyse(8), Op::Collect(0), Op::SetMode(0), Op::Analyse(8), Op::Collect(0)],
            vec![Op::NewList, Op::OtherCollect(0, 8, 2, 4), Op::Analyse(3), Op::Collect(0)],
            // a second list with a history of its own (narrow request; another tokenizer; lookup; an earlier split), later the
            // target of on-demand splits of the probe
            vec![Op::NewList, Op::NewList, Op::SetSubset(1), Op::Analyse(8), Op::Collect(1), Op::SetSubset(1023)],
            vec![Op::NewList, Op::NewList, Op::SetSubset(4), Op::Analyse(8), Op::Collect(1), Op::SetSubset(1023), Op::Analyse(3), Op::Collect(0)],
            vec![Op::NewList, Op::NewList, Op::OtherCollect(1, 8, 2, 0), Op::Lookup(1, 9, 1)],
            vec![Op::NewList, Op::NewList, Op::NewList, Op::OtherCollect(2, 8, 0, 4), Op::Analyse(8), Op::Collect(1), Op::SplitInto(0, 1, 0, 2)],
        ];
        for (k, ops) in directed.iter().enumerate() {
            let probe = if k == 3 { 0 } else { 3 + rng.below(5) as usize };
            run_case(&mut sink, &w, &pool, rng.below(3) as u8, ops, probe, 0, false);
            sink.tag("directed_history");
        }
        for _ in 0..per {
            let ops = gen_ops(&mut rng, &pool);
            let nlists = ops.iter().filter(|o| matches!(o, Op::NewList)).count();
            let probe = if rng.chance(1, 10) { rng.below(2) as usize } else { 3 + rng.below((pool.len() - 3) as u64) as usize };
            run_case(&mut sink, &w, &pool, rng.below(3) as u8, &ops, probe, rng.below(nlists as u64) as usize, false);
        }
    }
    let mut prng = Rng::new(args.seed ^ 0x5079);
    python_stage(&mut sink, args, &mut prng, None);
    let mut crng = Rng::new(args.seed ^ 0xC0C);
    concrete_stage(&mut sink, args, &mut crng);
    let mut lrng = Rng::new(args.seed ^ 0xC11);
    cli_stage(&mut sink, args, &mut lrng, None);
    sink.finish();
}
