//! C10 — scratch probe
use crate::c09::*;
use crate::common::*;
use std::rc::Rc;
use sudachi::analysis::node::ResultNode;
use sudachi::analysis::lattice::Lattice;
use sudachi::analysis::stateful_tokenizer::StatefulTokenizer;
use sudachi::analysis::stateless_tokenizer::DictionaryAccess;
use sudachi::config::Config;
use sudachi::dic::dictionary::JapaneseDictionary;
use sudachi::dic::grammar::Grammar;
use sudachi::dic::lexicon_set::LexiconSet;
use sudachi::input_text::InputBuffer;
use sudachi::plugin::input_text::InputTextPlugin;
use sudachi::plugin::oov::OovProviderPlugin;
use sudachi::plugin::path_rewrite::PathRewritePlugin;
use sudachi::prelude::*;

pub struct FailingRewrite;
impl PathRewritePlugin for FailingRewrite {
    fn set_up(&mut self, _s: &serde_json::Value, _c: &Config, _g: &Grammar) -> SudachiResult<()> {
        Ok(())
    }
    fn rewrite(&self, text: &InputBuffer, path: Vec<ResultNode>, _l: &Lattice) -> SudachiResult<Vec<ResultNode>> {
        if text.current().contains('!') {
            Err(SudachiError::InvalidRange(0, 0))
        } else {
            Ok(path)
        }
    }
}
pub struct WrapDict {
    pub inner: JapaneseDictionary,
    pub prw: Vec<Box<dyn PathRewritePlugin + Sync + Send>>,
}
impl DictionaryAccess for WrapDict {
    fn grammar(&self) -> &Grammar<'_> {
        self.inner.grammar()
    }
    fn lexicon(&self) -> &LexiconSet<'_> {
        self.inner.lexicon()
    }
    fn input_text_plugins(&self) -> &[Box<dyn InputTextPlugin + Sync + Send>] {
        self.inner.input_text_plugins()
    }
    fn oov_provider_plugins(&self) -> &[Box<dyn OovProviderPlugin + Sync + Send>] {
        self.inner.oov_provider_plugins()
    }
    fn path_rewrite_plugins(&self) -> &[Box<dyn PathRewritePlugin + Sync + Send>] {
        &self.prw
    }
}

pub fn run(args: &Args) {
    let res = prepare_resources(&args.work);
    let cfg = config_json(&res, "");
    let mut rng = Rng::new(1);
    let lx = gen_lexica(&mut rng, false);
    let d = build_dict(&lx.csv(0), &[], &cfg).unwrap();
    let wd = Rc::new(WrapDict { inner: d, prw: vec![Box::new(FailingRewrite)] });
    let mut tok = StatefulTokenizer::new(wd.clone(), Mode::C);
    let mut list = MorphemeList::empty(wd.clone());
    for t in ["ab", "a!b", "", "ab"] {
        tok.reset().push_str(t);
        let r = tok.do_tokenize();
        println!("{:?}: do_tokenize -> {:?}", t, r.as_ref().map_err(|e| e.to_string()));
        if r.is_ok() {
            let c = catch(|| list.collect_results(&mut tok).map_err(|e| e.to_string()));
            println!("   collect -> {:?}, len {}", c, list.len());
        }
    }
    let mut fresh = StatefulTokenizer::new(wd.clone(), Mode::C);
    fresh.reset().push_str("");
    println!("fresh \"\": {:?}", fresh.do_tokenize().map_err(|e| e.to_string()));
    let mut l2 = MorphemeList::empty(wd.clone());
    println!("fresh collect: {:?} len {}", l2.collect_results(&mut fresh).map_err(|e| e.to_string()), l2.len());
}
