//! C10 — scratch probe
use crate::c09::*;
use crate::common::*;
use std::rc::Rc;
use sudachi::analysis::node::ResultNode;
use sudachi::analysis::lattice::Lattice;
use sudachi::analysis::stateful_tokenizer::StatefulTokenizer;
use sudachi::analysis::stateless_tokenizer::DictionaryAccess;
use sudachi::config::Config;
use sudachi::dic::dictionary::JapaneseDictionary;
use sudachi::dic::grammar::Grammar;
use sudachi::dic::lexicon_set::LexiconSet;
use sudachi::input_text::InputBuffer;
use sudachi::plugin::input_text::InputTextPlugin;
use sudachi::plugin::oov::OovProviderPlugin;
use sudachi::plugin::path_rewrite::PathRewritePlugin;
use sudachi::prelude::*;

pub struct FailingRewrite;
impl PathRewritePlugin for FailingRewrite {
    fn set_up(&mut self, _s: &serde_json::Value, _c: &Config, _g: &Grammar) -> SudachiResult<()> {
        Ok(())
    }
    fn rewrite(&self, text: &InputBuffer, path: Vec<ResultNode>, _l: &Lattice) -> SudachiResult<Vec<ResultNode>> {
        if text.current().contains('!') {
            Err(SudachiError::InvalidRange(0, 0))
        } else {
            Ok(path)
        }
    }
}
pub struct WrapDict {
    pub inner: JapaneseDictionary,
    pub prw: Vec<Box<dyn PathRewritePlugin + Sync + Send>>,
}
impl DictionaryAccess for WrapDict {
    fn grammar(&self) -> &Grammar<'_> {
        self.inner.grammar()
    }
    fn lexicon(&self) -> &LexiconSet<'_> {
        self.inner.lexicon()
    }
    fn input_text_plugins(&self) -> &[Box<dyn InputTextPlugin + Sync + Send>] {
        self.inner.input_text_plugins()
    }
    fn oov_provider_plugins(&self) -> &[Box<dyn OovProviderPlugin + Sync + Send>] {
        self.inner.oov_provider_plugins()
    }
    fn path_rewrite_plugins(&self) -> &[Box<dyn PathRewritePlugin + Sync + Send>] {
        &self.prw
    }
}

pub fn run(args: &Args) {
    use sudachi::dic::subset::InfoSubset;
    let res = prepare_resources(&args.work);
    let cfg = config_json(&res, "");
    let csv = "ab,0,0,1000,ab,名詞,普通名詞,一般,*,*,*,ヨ,ab,*,C,1/2,1/2,*,*\na,-1,0,1000,a,名詞,普通名詞,一般,*,*,*,ヨ,a,*,A,*,*,*,*\nb,-1,0,1000,b,名詞,普通名詞,一般,*,*,*,ヨ,b,*,A,*,*,*,*\n";
    let d = Rc::new(build_dict(csv, &[], &cfg).unwrap());
    let show = |tok: &mut StatefulTokenizer<Rc<JapaneseDictionary>>| {
        tok.reset().push_str("ab");
        tok.do_tokenize().unwrap();
        let mut l = MorphemeList::empty(d.clone());
        l.collect_results(tok).unwrap();
        println!("   subset {:?}: {:?}", l.subset(), l.iter().map(|m| (m.begin(), m.end(), m.word_id().as_raw())).collect::<Vec<_>>());
    };
    let mut t1 = StatefulTokenizer::new(d.clone(), Mode::C);
    t1.set_subset(InfoSubset::POS_ID);
    t1.set_mode(Mode::A);
    println!("history: new(C); set_subset(POS_ID); set_mode(A)");
    show(&mut t1);
    let mut t2 = StatefulTokenizer::new(d.clone(), Mode::A);
    t2.set_subset(InfoSubset::POS_ID);
    println!("fresh: new(A); set_subset(POS_ID)");
    show(&mut t2);
}
