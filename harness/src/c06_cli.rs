//! C06, public routes to the compiler other than the library: the command-line tool (`sudachi build` / `sudachi ubuild`,
//! sudachi-cli/src/build.rs) and the Python functions (`build_system_dic` / `build_user_dic`, python/src/build.rs), both built
//! from the working tree by the pre-build step.  (a) normal run: success, and the output file is the dictionary the library
//! produces in-process; (b) failing output file (RLIMIT_FSIZE with SIGXFSZ ignored, so write(2) returns EFBIG): the route must
//! report an error -- success with a truncated or missing file is the violation; (c) malformed inputs: error exactly when
//! the in-process compile returns an error value.
use super::*;
use std::path::{Path, PathBuf};
use std::process::Command;

struct Routes {
    cli: String,
    pypkg: String,
    dir: PathBuf,
}

#[derive(Debug)]
struct RunOut {
    code: Option<i32>,
    stderr: String,
}

/// run `argv` (optionally under `ulimit -f blocks`, 512-byte blocks in dash, with SIGXFSZ ignored)
fn run(argv: &[String], limit_blocks: Option<u64>, envs: &[(&str, &str)]) -> RunOut {
    let mut cmd = match limit_blocks {
        Some(b) => {
            let mut c = Command::new("sh");
            c.arg("-c").arg(format!("ulimit -f {}; trap \"\" XFSZ; exec \"$@\"", b)).arg("sh");
            for a in argv {
                c.arg(a);
            }
            c
        }
        None => {
            let mut c = Command::new(&argv[0]);
            for a in &argv[1..] {
                c.arg(a);
            }
            c
        }
    };
    for (k, v) in envs {
        cmd.env(k, v);
    }
    cmd.env("RUST_BACKTRACE", "0");
    match cmd.output() {
        Ok(o) => RunOut { code: o.status.code(), stderr: String::from_utf8_lossy(&o.stderr).chars().take(400).collect() },
        Err(e) => RunOut { code: None, stderr: format!("cannot start: {}", e) },
    }
}

const PY_BUILD: &str = "import sys\nfrom sudachipy import sudachipy as s\ntry:\n    if sys.argv[1] == 'system':\n        s.build_system_dic(matrix=sys.argv[2], lex=[sys.argv[3]], output=sys.argv[4], description=sys.argv[5])\n    else:\n        s.build_user_dic(system=sys.argv[2], lex=[sys.argv[3]], output=sys.argv[4], description=sys.argv[5])\nexcept BaseException as e:\n    print(repr(e)[:300], file=sys.stderr)\n    sys.exit(3)\nsys.exit(0)\n";

/// the library in-process on the same files (what both routes wrap)
fn in_process(user_system: Option<&JapaneseDictionary>, matrix: Option<&Path>, lex: &Path, descr: &str) -> Result<Vec<u8>, String> {
    let r = catch(|| -> Result<Vec<u8>, String> {
        let mut out = vec![];
        match user_system {
            None => {
                let mut b = DictBuilder::new_system();
                b.set_description(descr);
                b.read_conn(matrix.unwrap()).map_err(|e| format!("read_conn: {}", e))?;
                b.read_lexicon(lex).map_err(|e| format!("read_lexicon: {}", e))?;
                b.resolve().map_err(|e| format!("resolve: {}", e))?;
                b.compile(&mut out).map_err(|e| format!("compile: {}", e))?;
            }
            Some(d) => {
                let mut b = DictBuilder::new_user(d);
                b.set_description(descr);
                b.read_lexicon(lex).map_err(|e| format!("read_lexicon: {}", e))?;
                b.resolve().map_err(|e| format!("resolve: {}", e))?;
                b.compile(&mut out).map_err(|e| format!("compile: {}", e))?;
            }
        }
        Ok(out)
    });
    match r {
        Ok(x) => x,
        Err(p) => Err(format!("panic: {}", p)),
    }
}

#[derive(Clone, Copy, PartialEq, Debug)]
enum Route {
    CliSystem,
    CliUser,
    PySystem,
    PyUser,
}

impl Route {
    fn name(&self) -> &'static str {
        match self {
            Route::CliSystem => "sudachi build",
            Route::CliUser => "sudachi ubuild",
            Route::PySystem => "sudachipy.build_system_dic",
            Route::PyUser => "sudachipy.build_user_dic",
        }
    }
}

fn argv(r: &Routes, route: Route, first: &Path, lex: &Path, out: &Path, descr: &str) -> Vec<String> {
    let p = |x: &Path| x.to_string_lossy().to_string();
    match route {
        Route::CliSystem => vec![r.cli.clone(), "build".into(), "-m".into(), p(first), "-o".into(), p(out), "-d".into(), descr.into(), p(lex)],
        Route::CliUser => vec![r.cli.clone(), "ubuild".into(), "-s".into(), p(first), "-o".into(), p(out), "-d".into(), descr.into(), p(lex)],
        Route::PySystem => vec!["python3".into(), "-c".into(), PY_BUILD.into(), "system".into(), p(first), p(lex), p(out), descr.into()],
        Route::PyUser => vec!["python3".into(), "-c".into(), PY_BUILD.into(), "user".into(), p(first), p(lex), p(out), descr.into()],
    }
}

/// one input through one route: normal run, then (if the library succeeds) runs with a failing output file
fn route_case(sink: &mut Sink, r: &Routes, route: Route, first: &Path, lex: &Path, descr: &str, expect: &Result<Vec<u8>, String>, shape: &str, limits: bool) {
    let out = r.dir.join("out.dic");
    let _ = std::fs::remove_file(&out);
    let envs: Vec<(&str, &str)> = vec![("PYTHONPATH", r.pypkg.as_str()), ("PYTHONDONTWRITEBYTECODE", "1")];
    let a = argv(r, route, first, lex, &out, descr);
    let res = run(&a, None, &envs);
    sink.tag(&format!("route:{}:{}", route.name(), shape));
    let d = json!({"kind": "c06-route", "route": route.name(), "shape": shape, "first": std::fs::read_to_string(first).ok().map(|s| s.chars().take(2000).collect::<String>()),
                   "lexicon": std::fs::read_to_string(lex).ok().map(|s| s.chars().take(4000).collect::<String>()), "descr": descr, "known_class": ""});
    let id = sink.case_rust_only(d, true);
    let written = std::fs::read(&out).ok();
    match (expect, res.code) {
        (Ok(bytes), Some(0)) => match &written {
            Some(w) if same_dict(w, bytes) => {}
            Some(w) => sink.fail(id, &format!("{} exited with status 0 but wrote {} bytes that differ from the {} bytes DictBuilder::compile produces for the same files", route.name(), w.len(), bytes.len()), ""),
            None => sink.fail(id, &format!("{} exited with status 0 but wrote no output file", route.name()), ""),
        },
        (Ok(_), c) => sink.fail(id, &format!("{} failed (status {:?}: {}) on input the library compiles", route.name(), c, res.stderr), ""),
        (Err(e), Some(0)) => sink.fail(id, &format!("{} exited with status 0 although the library reports an error for the same files ({})", route.name(), e), ""),
        (Err(_), _) => {}
    }
    if !limits {
        return;
    }
    if let Ok(bytes) = expect {
        let total = bytes.len() as u64;
        // limits in 512-byte blocks below the dictionary size: first block, a quarter, the middle, the last block(s)
        let nb = (total + 511) / 512;
        let mut ls: Vec<u64> = vec![1, nb / 4, nb / 2, nb.saturating_sub(2), nb.saturating_sub(1)];
        ls.retain(|b| *b >= 1 && *b * 512 < total);
        ls.sort();
        ls.dedup();
        for b in ls {
            let _ = std::fs::remove_file(&out);
            let res = run(&a, Some(b), &envs);
            sink.tag_n("route:failing_output_runs", 1);
            let got = std::fs::read(&out).map(|w| w.len() as u64).unwrap_or(0);
            if res.code == Some(0) {
                sink.fail(
                    id,
                    &format!(
                        "{}: the output file fails after {} bytes (file size limit), {} of the {} bytes of the dictionary were written, and the route reported success (exit status 0)",
                        route.name(), b * 512, got, total
                    ),
                    "",
                );
                break;
            }
        }
    }
    let _ = std::fs::remove_file(&out);
}

/// a system dictionary the default configuration of the command-line tool can load (`sudachi ubuild` takes no configuration
/// option): a matrix as large as the ids of resources/unk.def and sudachi.json demand (header only: all costs 0) and one word
/// for every part of speech they name
fn default_config_system(dir: &Path) -> Option<(PathBuf, usize)> {
    let res = format!("{}/resources", repo());
    let unk = std::fs::read_to_string(format!("{}/unk.def", res)).ok()?;
    let cfg: Value = serde_json::from_str(&std::fs::read_to_string(format!("{}/sudachi.json", res)).ok()?).ok()?;
    let mut max_id = 0i64;
    let mut pos: Vec<String> = vec![];
    for l in unk.lines().map(|l| l.trim()).filter(|l| !l.is_empty() && !l.starts_with('#')) {
        let c: Vec<&str> = l.split(',').collect();
        if c.len() < 10 {
            continue;
        }
        max_id = max_id.max(c[1].parse().unwrap_or(0)).max(c[2].parse().unwrap_or(0));
        pos.push(c[4..10].join(","));
    }
    for key in ["oovProviderPlugin", "pathRewritePlugin"] {
        for p in cfg[key].as_array().cloned().unwrap_or_default() {
            max_id = max_id.max(p["leftId"].as_i64().unwrap_or(0)).max(p["rightId"].as_i64().unwrap_or(0));
            if let Some(a) = p["oovPOS"].as_array() {
                pos.push(a.iter().map(|x| x.as_str().unwrap_or("*")).collect::<Vec<_>>().join(","));
            }
        }
    }
    pos.sort();
    pos.dedup();
    let n = max_id + 1;
    if n > 20000 {
        return None;
    }
    let path = dir.join(format!("default_cfg_system_{}_{}.dic", n, pos.len()));
    if !path.exists() {
        let mut lex = String::new();
        for (i, p) in pos.iter().enumerate() {
            lex.push_str(&format!("{},0,0,100,{},{},ヨミ,{},*,A,*,*,*,*\n", surface_of(i), surface_of(i), p, surface_of(i)));
        }
        let mut b = DictBuilder::new_system();
        b.read_conn(format!("{} {}\n", n, n).as_bytes()).ok()?;
        b.read_lexicon(lex.as_bytes()).ok()?;
        b.resolve().ok()?;
        let mut f = std::io::BufWriter::new(std::fs::File::create(&path).ok()?);
        b.compile(&mut f).ok()?;
        f.flush().ok()?;
    }
    Some((path, pos.len()))
}

fn rows(n: usize, nl: i64, nr: i64, rng: &mut Rng) -> String {
    let mut s = String::new();
    for i in 0..n {
        s.push_str(&format!("語{},{},{},{},語{},{},ゴ{},語{},*,A,*,*,*,*\n", i, rng.below(nr as u64), rng.below(nl as u64), rng.range(-100, 9000), i, POS[rng.below(3) as usize], i, i));
    }
    s
}

pub fn run_routes(sink: &mut Sink, env: &Env, rng: &mut Rng, args: &Args, structured: &[(Option<String>, String, String)]) {
    let cli = std::env::var("VERIF_CLI_BIN").unwrap_or_default();
    let pypkg = std::env::var("VERIF_PYPKG").unwrap_or_default();
    if cli.is_empty() || !Path::new(&cli).exists() {
        sink.tag("route:skipped_no_cli_binary");
        return;
    }
    let dir = args.work.join("c06_routes");
    std::fs::create_dir_all(&dir).unwrap();
    let r = Routes { cli, pypkg, dir: dir.clone() };
    let have_py = !r.pypkg.is_empty() && Path::new(&r.pypkg).join("sudachipy/sudachipy.so").exists();
    let mfile = dir.join("matrix.def");
    let lfile = dir.join("lex.csv");
    let small_sys = dir.join("small_system.dic");
    std::fs::write(&small_sys, &env.sys_bytes).unwrap();
    // ---- system dictionaries, small (well below the tool's 16 KiB buffer), around it, and several buffers large
    let descrs = ["", "c06 routes", "辞書の説明"];
    for (k, n) in [1usize, 3, 40, 180, 700, 2500].iter().enumerate() {
        let (nl, nr) = (rng.range(1, 9), rng.range(1, 9));
        std::fs::write(&mfile, Case { base: Base::System(good_matrix(nl, nr, rng)), recs: vec![] }.matrix_text(rng).unwrap()).unwrap();
        std::fs::write(&lfile, rows(*n, nl, nr, rng)).unwrap();
        let descr = descrs[k % 3];
        let expect = in_process(None, Some(&mfile), &lfile, descr);
        route_case(sink, &r, Route::CliSystem, &mfile, &lfile, descr, &expect, &format!("system_{}_rows", n), true);
        if have_py && (k % 2 == 0 || *n <= 40) {
            route_case(sink, &r, Route::PySystem, &mfile, &lfile, descr, &expect, &format!("system_{}_rows", n), true);
        }
    }
    // ---- user dictionaries
    if have_py {
        // the Python function loads the system dictionary with a minimal configuration: the small system dictionary will do
        let cfg = sudachi::config::Config::minimal_at(Path::new(&r.pypkg).join("sudachipy/resources")).with_system_dic(&small_sys);
        if let Ok(sysd) = JapaneseDictionary::from_cfg(&cfg) {
            for n in [1usize, 60, 900] {
                std::fs::write(&lfile, rows(n, SYS_NL, SYS_NR, rng)).unwrap();
                let expect = in_process(Some(&sysd), None, &lfile, "user");
                route_case(sink, &r, Route::PyUser, &small_sys, &lfile, "user", &expect, &format!("user_{}_rows", n), true);
            }
        }
    }
    match default_config_system(&dir) {
        Some((big, nwords)) => {
            let cfg = sudachi::config::Config::new(None, None, Some(big.clone()));
            match cfg.map_err(|e| format!("{:?}", e)).and_then(|c| JapaneseDictionary::from_cfg(&c).map_err(|e| format!("{}", e))) {
                Ok(sysd) => {
                    for (k, n) in [1usize, 4, 60, 900].iter().enumerate() {
                        let mut t = rows(*n, 5000, 5000, rng);
                        if k == 1 {
                            // references into the system dictionary and into the user dictionary itself
                            t.push_str(&format!("語0語1,0,0,10,語0語1,{},ゴ,語0語1,*,C,U0/U1,*,{}/U0,*\n", POS[0], nwords - 1));
                        }
                        std::fs::write(&lfile, t).unwrap();
                        let expect = in_process(Some(&sysd), None, &lfile, descrs[k % 3]);
                        route_case(sink, &r, Route::CliUser, &big, &lfile, descrs[k % 3], &expect, &format!("user_{}_rows", n), true);
                    }
                    // malformed user lexicons
                    for (shape, text) in [
                        ("user_id_beyond_matrix", format!("語,0,30000,10,語,{},ゴ,語,*,A,*,*,*,*\n", POS[0])),
                        ("user_dangling_reference", format!("語,0,0,10,語,{},ゴ,語,*,C,{},*,*,*\n", POS[0], nwords + 5)),
                        ("user_row_truncated", "語,0,0,10,語\n".to_string()),
                        ("user_empty_lexicon", String::new()),
                    ] {
                        std::fs::write(&lfile, text).unwrap();
                        let expect = in_process(Some(&sysd), None, &lfile, "");
                        route_case(sink, &r, Route::CliUser, &big, &lfile, "", &expect, shape, false);
                    }
                }
                Err(e) => {
                    sink.tag("route:ubuild_skipped_default_configuration_does_not_load");
                    sink.extra("route_ubuild_skipped", json!(e));
                }
            }
        }
        None => sink.tag("route:ubuild_skipped_default_configuration_not_understood"),
    }
    // ---- the malformed-input stream through the command-line tool: status 0 exactly when the library returns Ok
    for (matrix, lexicon, shape) in structured {
        if let Some(m) = matrix {
            std::fs::write(&mfile, m).unwrap();
            std::fs::write(&lfile, lexicon).unwrap();
            let expect = in_process(None, Some(&mfile), &lfile, "");
            route_case(sink, &r, Route::CliSystem, &mfile, &lfile, "", &expect, &format!("stream:{}", shape), false);
        }
    }
    // too long a description through both routes
    std::fs::write(&mfile, "2 2\n0 0 1\n").unwrap();
    std::fs::write(&lfile, rows(2, 2, 2, rng)).unwrap();
    for d in ["辞".repeat(85), "辞".repeat(86), "d".repeat(256), "d".repeat(257)] {
        let expect = in_process(None, Some(&mfile), &lfile, &d);
        route_case(sink, &r, Route::CliSystem, &mfile, &lfile, &d, &expect, "description_boundary", false);
        if have_py {
            route_case(sink, &r, Route::PySystem, &mfile, &lfile, &d, &expect, "description_boundary", false);
        }
    }
}

/// replay of a route case: the files are written again and the route is run normally and with failing outputs
pub fn replay_route(sink: &mut Sink, env: &Env, args: &Args, c: &Value) {
    let cli = std::env::var("VERIF_CLI_BIN").unwrap_or_default();
    let pypkg = std::env::var("VERIF_PYPKG").unwrap_or_default();
    let dir = args.work.join("c06_routes");
    std::fs::create_dir_all(&dir).unwrap();
    let r = Routes { cli, pypkg, dir: dir.clone() };
    let route = match c["route"].as_str().unwrap_or("") {
        "sudachi build" => Route::CliSystem,
        "sudachi ubuild" => Route::CliUser,
        "sudachipy.build_system_dic" => Route::PySystem,
        _ => Route::PyUser,
    };
    let lfile = dir.join("lex.csv");
    std::fs::write(&lfile, c["lexicon"].as_str().unwrap_or("")).unwrap();
    let descr = c["descr"].as_str().unwrap_or("");
    println!("replaying through {}: description {:?}", route.name(), descr);
    let (first, expect) = match route {
        Route::CliSystem | Route::PySystem => {
            let m = dir.join("matrix.def");
            std::fs::write(&m, c["first"].as_str().unwrap_or("")).unwrap();
            let e = in_process(None, Some(&m), &lfile, descr);
            (m, e)
        }
        Route::PyUser => {
            let s = dir.join("small_system.dic");
            std::fs::write(&s, &env.sys_bytes).unwrap();
            let cfg = sudachi::config::Config::minimal_at(Path::new(&r.pypkg).join("sudachipy/resources")).with_system_dic(&s);
            let d = JapaneseDictionary::from_cfg(&cfg).expect("small system dictionary");
            let e = in_process(Some(&d), None, &lfile, descr);
            (s, e)
        }
        Route::CliUser => {
            let (big, _) = default_config_system(&dir).expect("system dictionary for the default configuration");
            let d = JapaneseDictionary::from_cfg(&sudachi::config::Config::new(None, None, Some(big.clone())).unwrap()).expect("loads");
            let e = in_process(Some(&d), None, &lfile, descr);
            (big, e)
        }
    };
    println!("library in-process on the same files: {}", match &expect { Ok(b) => format!("Ok, {} bytes", b.len()), Err(e) => format!("Err {}", e) });
    route_case(sink, &r, route, &first, &lfile, descr, &expect, "replay", true);
}
