//! C05 through every public route to the compiler: `sudachi build` / `sudachi ubuild` (sudachi-cli/src/build.rs) and
//! sudachipy.build_system_dic / build_user_dic (python/src/build.rs), both built from the working tree by the pre-build step,
//! with SEVERAL lexicon files.  The order of the files is part of the input: word ids are the line numbers of the files laid
//! end to end in the order given, and the numeric references of the format (dictionary form, split A / B, word structure,
//! U-references) are such numbers.  Expected = the declared rows in the GIVEN order (also when a path is given twice): every
//! entry of the dictionary the route wrote is read back and compared with its row, and the bytes are compared with what
//! DictBuilder writes in-process after read_lexicon of the same files in the given order.
use super::*;
use std::path::{Path, PathBuf};
use std::process::Command;

/// file names in the order they are given to the route; equal names = the same path given again
pub const LAYOUTS: &[&[&str]] = &[
    &["small_lex.csv", "core_lex.csv", "notcore_lex.csv"],
    &["b.csv", "a.csv"],
    &["z.csv", "a.csv", "z.csv"],
    &["2.csv", "10.csv"],
    &["sub/lex.csv", "lex.csv"],
    &["m.csv", "m.csv"],
    &["a.csv", "b.csv"],
];

#[derive(Clone, Copy, PartialEq, Debug)]
pub enum Route {
    CliSystem,
    CliUser,
    PySystem,
    PyUser,
}
impl Route {
    fn name(&self) -> &'static str {
        match self {
            Route::CliSystem => "sudachi build",
            Route::CliUser => "sudachi ubuild",
            Route::PySystem => "sudachipy.build_system_dic",
            Route::PyUser => "sudachipy.build_user_dic",
        }
    }
    fn of(s: &str) -> Route {
        match s {
            "sudachi build" => Route::CliSystem,
            "sudachi ubuild" => Route::CliUser,
            "sudachipy.build_system_dic" => Route::PySystem,
            _ => Route::PyUser,
        }
    }
    fn user(&self) -> bool {
        matches!(self, Route::CliUser | Route::PyUser)
    }
}

const PY_BUILD: &str = "import sys\nfrom sudachipy import sudachipy as s\ntry:\n    if sys.argv[1] == 'system':\n        s.build_system_dic(matrix=sys.argv[2], lex=sys.argv[5:], output=sys.argv[3], description=sys.argv[4])\n    else:\n        s.build_user_dic(system=sys.argv[2], lex=sys.argv[5:], output=sys.argv[3], description=sys.argv[4])\nexcept BaseException as e:\n    print(repr(e)[:300], file=sys.stderr)\n    sys.exit(3)\nsys.exit(0)\n";

struct Tools {
    cli: String,
    pypkg: String,
    dir: PathBuf,
}

fn run_cmd(argv: &[String], envs: &[(&str, &str)]) -> (Option<i32>, String) {
    let mut cmd = Command::new(&argv[0]);
    for a in &argv[1..] {
        cmd.arg(a);
    }
    for (k, v) in envs {
        cmd.env(k, v);
    }
    cmd.env("RUST_BACKTRACE", "0");
    match cmd.output() {
        Ok(o) => (o.status.code(), String::from_utf8_lossy(&o.stderr).chars().take(400).collect()),
        Err(e) => (None, format!("cannot start: {}", e)),
    }
}

/// two dictionaries are the same up to the creation time stored in the header (bytes 8..16)
fn same_dict(a: &[u8], b: &[u8]) -> bool {
    a.len() == b.len() && (a.len() < 16 || (a[..8] == b[..8] && a[16..] == b[16..]))
}

/// the library in-process: read_lexicon of the files in the given order
fn in_process(sys: Option<&LoadedDictionary<'static>>, matrix: Option<&Path>, files: &[PathBuf], descr: &str) -> Result<Vec<u8>, String> {
    match catch(|| -> Result<Vec<u8>, String> {
        let mut out = vec![];
        match sys {
            None => {
                let mut b = DictBuilder::new_system();
                b.read_conn(matrix.unwrap()).map_err(|e| format!("read_conn: {:?}", e))?;
                b.set_description(descr);
                for f in files {
                    b.read_lexicon(f.as_path()).map_err(|e| format!("read_lexicon {:?}: {:?}", f, e))?;
                }
                b.resolve().map_err(|e| format!("resolve: {:?}", e))?;
                b.compile(&mut out).map_err(|e| format!("compile: {:?}", e))?;
            }
            Some(d) => {
                let mut b = DictBuilder::new_user(d);
                b.set_description(descr);
                for f in files {
                    b.read_lexicon(f.as_path()).map_err(|e| format!("read_lexicon {:?}: {:?}", f, e))?;
                }
                b.resolve().map_err(|e| format!("resolve: {:?}", e))?;
                b.compile(&mut out).map_err(|e| format!("compile: {:?}", e))?;
            }
        }
        Ok(out)
    }) {
        Ok(r) => r,
        Err(p) => Err(format!("PANIC {}", p)),
    }
}

/// numeric references from every row to OTHER rows of the same system lexicon, different ones in every field
fn add_sys_refs(lex: &mut Lex, rng: &mut Rng) {
    let n = lex.rows.len() as u32;
    for (i, row) in lex.rows.iter_mut().enumerate() {
        let i = i as u32;
        let splittable = row.mode.trim() != "A" && row.mode.trim() != "a";
        if splittable {
            if row.split_a.len() < 126 {
                row.split_a.push(Ref::Sys((i + 1) % n));
            }
            if row.split_b.len() < 126 {
                row.split_b.push(Ref::Sys((i + 2) % n));
            }
        }
        if row.word_structure.len() < 126 {
            row.word_structure.push(Ref::Sys((i + n - 1) % n));
        }
        if rng.chance(1, 2) {
            row.dic_form = DicForm::Num((i + 1) % n);
        }
    }
}

/// the fixed system dictionary the user routes compile against.  `sudachi ubuild` loads it with the DEFAULT configuration
/// (it takes no configuration option): the matrix must be as large as the ids of resources/unk.def and sudachi.json demand
/// (header only, all costs 0) and every part of speech they name must be in the dictionary.
pub struct BigSystem {
    pub path: PathBuf,
    pub pool: Vec<Pos>,
    pub lex: Lex,
    pub exp: Expected,
    pub bytes: &'static [u8],
    pub loaded: LoadedDictionary<'static>,
}
fn big_system(dir: &Path) -> Result<BigSystem, String> {
    let res = format!("{}/resources", repo());
    let unk = std::fs::read_to_string(format!("{}/unk.def", res)).map_err(|e| format!("unk.def: {}", e))?;
    let cfg: Value = serde_json::from_str(&std::fs::read_to_string(format!("{}/sudachi.json", res)).map_err(|e| format!("sudachi.json: {}", e))?).map_err(|e| format!("sudachi.json: {}", e))?;
    let mut max_id = 0i64;
    let mut default_pos: Vec<Pos> = vec![];
    for l in unk.lines().map(|l| l.trim()).filter(|l| !l.is_empty() && !l.starts_with('#')) {
        let c: Vec<&str> = l.split(',').collect();
        if c.len() < 10 {
            continue;
        }
        max_id = max_id.max(c[1].parse().unwrap_or(0)).max(c[2].parse().unwrap_or(0));
        default_pos.push([c[4], c[5], c[6], c[7], c[8], c[9]].map(|s| s.to_string()));
    }
    for key in ["oovProviderPlugin", "pathRewritePlugin"] {
        for p in cfg[key].as_array().cloned().unwrap_or_default() {
            max_id = max_id.max(p["leftId"].as_i64().unwrap_or(0)).max(p["rightId"].as_i64().unwrap_or(0));
            if let Some(a) = p["oovPOS"].as_array() {
                if a.len() == 6 {
                    let v: Vec<String> = a.iter().map(|x| x.as_str().unwrap_or("*").to_string()).collect();
                    default_pos.push([v[0].clone(), v[1].clone(), v[2].clone(), v[3].clone(), v[4].clone(), v[5].clone()]);
                }
            }
        }
    }
    default_pos.sort();
    default_pos.dedup();
    let n = max_id + 1;
    if n > 20000 {
        return Err(format!("the default configuration asks for a {} x {} matrix", n, n));
    }
    // fixed rows (independent of the seed: the compiled file is kept between runs), then one word per default POS
    let mut scratch = Sink::new("C05", &dir.join("scratch"), &[], 0, "quick");
    let mut rng = Rng(0x5eed_b16_d1c);
    let mut pool = vec![std_pos()];
    for p in ["動詞", "形容詞"] {
        pool.push([p, "一般", "*", "*", "*", "*"].map(|s| s.to_string()));
    }
    let mut lex = gen_lex_with(&mut rng, &mut scratch, &pool, None, 5, false, false, Some(0));
    for p in &default_pos {
        if !pool.contains(p) {
            pool.push(p.clone());
        }
    }
    for (i, p) in default_pos.iter().enumerate() {
        let w = format!("品詞{}", i);
        lex.rows.push(Row {
            surface: w.clone(),
            left: 0,
            right: 0,
            cost: 100,
            headword: w.clone(),
            pos: pool.iter().position(|q| q == p).unwrap(),
            reading: "ヒンシ".to_string(),
            norm: w,
            dic_form: DicForm::None,
            mode: "A",
            split_a: vec![],
            split_b: vec![],
            word_structure: vec![],
            synonyms: Some(vec![]),
            star_lists: true,
        });
    }
    let csv = render_csv(&lex, &pool, &mut rng, &mut scratch);
    let exp = expect(&lex, &pool, None).ok_or("system rows of the user routes: unresolved reference")?;
    let path = dir.join(format!("default_cfg_system_{}_{:016x}.dic", n, hash_of(&csv)));
    let bytes = match std::fs::read(&path) {
        Ok(b) if b.len() > (n * n * 2) as usize => b,
        _ => {
            let b = compile_system(&csv, &format!("{} {}\n", n, n), 0, "system dictionary of the C05 user routes")?;
            std::fs::write(&path, &b).map_err(|e| format!("{:?}: {}", path, e))?;
            b
        }
    };
    // kept for the rest of the process (the loaded dictionary borrows the bytes)
    let bytes: &'static [u8] = Box::leak(bytes.into_boxed_slice());
    let loaded = match catch(|| DictionaryLoader::read_system_dictionary(bytes).map(|d| d.to_loaded())) {
        Ok(Ok(Some(l))) => l,
        _ => return Err("system dictionary of the user routes does not load".to_string()),
    };
    Ok(BigSystem { path, pool, lex, exp, bytes, loaded })
}

/// one multi-file input, regenerated from (state, layout, user)
pub struct RouteInput {
    pub pool: Vec<Pos>,
    /// the rows in the order given (a path given twice contributes its rows twice)
    pub full: Lex,
    /// distinct file name -> text
    pub files: Vec<(String, String)>,
    pub order: Vec<String>,
    pub matrix_text: String,
    pub descr: String,
}
fn route_input(state: u64, layout: usize, big: Option<&BigSystem>, sink: &mut Sink) -> Option<RouteInput> {
    let mut rng = Rng(state);
    let order: Vec<String> = LAYOUTS[layout].iter().map(|s| s.to_string()).collect();
    let mut names: Vec<String> = vec![];
    for n in &order {
        if !names.contains(n) {
            names.push(n.clone());
        }
    }
    let k = names.len();
    for _ in 0..200 {
        let (pool, mut lex, matrix_text) = match big {
            None => {
                let c = gen_case(&mut rng, sink, false, false, false);
                (c.pool, c.sys, c.matrix_text)
            }
            Some(b) => {
                let l = gen_lex(&mut rng, sink, &b.pool, Some(&b.lex), 5, false, false);
                (b.pool.clone(), l, String::new())
            }
        };
        if lex.rows.len() < k.max(2) {
            continue;
        }
        match big {
            None => add_sys_refs(&mut lex, &mut rng),
            Some(_) => add_user_refs(&mut lex, &mut rng, sink),
        }
        let fields = render_fields(&lex, &pool, &mut rng, sink);
        // consecutive non-empty chunks, one per distinct file
        let n = lex.rows.len();
        let mut cuts: Vec<usize> = vec![0];
        for j in 1..k {
            let lo = cuts[j - 1] + 1;
            let hi = n - (k - j);
            cuts.push(lo + rng.below((hi - lo + 1) as u64) as usize);
        }
        cuts.push(n);
        let files: Vec<(String, String)> = (0..k).map(|j| (names[j].clone(), csv_of_fields(&fields[cuts[j]..cuts[j + 1]]))).collect();
        let mut rows = vec![];
        for f in &order {
            let j = names.iter().position(|x| x == f).unwrap();
            rows.extend(lex.rows[cuts[j]..cuts[j + 1]].iter().cloned());
        }
        let descr = rng.pick(&["", "c05 routes", "辞書の説明"]).to_string();
        return Some(RouteInput { pool, full: Lex { rows, user: lex.user }, files, order, matrix_text, descr });
    }
    None
}

#[allow(clippy::too_many_arguments)]
fn route_case(sink: &mut Sink, t: &Tools, route: Route, state: u64, layout: usize, big: Option<&BigSystem>, verbose: bool) {
    let inp = match route_input(state, layout, if route.user() { big } else { None }, sink) {
        Some(i) => i,
        None => return,
    };
    let _ = std::fs::remove_dir_all(t.dir.join("in"));
    std::fs::create_dir_all(t.dir.join("in/sub")).unwrap();
    for (name, text) in &inp.files {
        std::fs::write(t.dir.join("in").join(name), text).unwrap();
    }
    let paths: Vec<PathBuf> = inp.order.iter().map(|n| t.dir.join("in").join(n)).collect();
    let mfile = t.dir.join("in/matrix.def");
    std::fs::write(&mfile, &inp.matrix_text).unwrap();
    let out = t.dir.join("out.dic");
    let _ = std::fs::remove_file(&out);
    let p = |x: &Path| x.to_string_lossy().to_string();
    let first = match (route.user(), big) {
        (true, Some(b)) => b.path.clone(),
        _ => mfile.clone(),
    };
    let mut argv: Vec<String> = match route {
        Route::CliSystem => vec![t.cli.clone(), "build".into(), "-m".into(), p(&first), "-o".into(), p(&out), "-d".into(), inp.descr.clone()],
        Route::CliUser => vec![t.cli.clone(), "ubuild".into(), "-s".into(), p(&first), "-o".into(), p(&out), "-d".into(), inp.descr.clone()],
        Route::PySystem => vec!["python3".into(), "-c".into(), PY_BUILD.into(), "system".into(), p(&first), p(&out), inp.descr.clone()],
        Route::PyUser => vec!["python3".into(), "-c".into(), PY_BUILD.into(), "user".into(), p(&first), p(&out), inp.descr.clone()],
    };
    for f in &paths {
        argv.push(p(f));
    }
    let shown = format!("{} … {}", route.name(), inp.order.join(" "));
    let desc = json!({"kind": "c05-route", "rng": state, "layout": layout, "route": route.name(), "order": inp.order, "known_class": "",
                      "files": inp.files.iter().map(|(n, x)| json!({"name": n, "text": if x.len() < 3000 { x.clone() } else { format!("{} bytes", x.len()) }})).collect::<Vec<_>>(),
                      "matrix": inp.matrix_text, "descr": inp.descr});
    let id = sink.case_rust_only(desc, true);
    sink.tag(&format!("route:{}:{}", route.name(), inp.order.join("+")));
    if verbose {
        for (n, x) in &inp.files {
            println!("--- {}\n{}", n, x);
        }
        println!("command: {}", argv.iter().filter(|a| a.as_str() != PY_BUILD).cloned().collect::<Vec<_>>().join(" "));
    }
    // what the rows declare, in the order given
    let sys_of = big.filter(|_| route.user());
    let exp = match expect(&inp.full, &inp.pool, sys_of.map(|b| (&b.lex, &b.exp))) {
        Some(e) => e,
        None => return,
    };
    let dic: u8 = if route.user() { 1 } else { 0 };
    let expd = expected_rb(&inp.full, &exp, dic);
    let expect_bytes = in_process(sys_of.map(|b| &b.loaded), Some(&mfile), &paths, &inp.descr);
    if let Err(e) = &expect_bytes {
        sink.fail(id, &format!("valid lexicon files rejected by DictBuilder in-process: {}", e), "");
        return;
    }
    let envs: Vec<(&str, &str)> = vec![("PYTHONPATH", t.pypkg.as_str()), ("PYTHONDONTWRITEBYTECODE", "1")];
    let (code, stderr) = run_cmd(&argv, &envs);
    if code != Some(0) {
        sink.fail(id, &format!("`{}` failed (status {:?}: {}) on lexicon files the library compiles", shown, code, stderr), "");
        return;
    }
    let written = match std::fs::read(&out) {
        Ok(w) => w,
        Err(_) => {
            sink.fail(id, &format!("`{}` exited with status 0 but wrote no dictionary", shown), "");
            return;
        }
    };
    // C05 on the dictionary the route wrote: every entry of the source, as declared
    let n = inp.full.rows.len();
    let (rbs, nwords): (Vec<Readback>, usize) = if route.user() {
        let b = sys_of.unwrap();
        match load_with_user(b.bytes.to_vec(), vec![written.clone()]) {
            Ok(jd) => (readback(&jd, 1, n), jd.lexicon().size() as usize - b.lex.rows.len()),
            Err(e) => {
                sink.fail(id, &format!("the user dictionary `{}` wrote does not load: {}", shown, e), "");
                return;
            }
        }
    } else {
        match catch(|| DictionaryLoader::read_system_dictionary(&written).map(|d| d.to_loaded())) {
            Ok(Ok(Some(l))) => (readback(&l, 0, n), l.lexicon_set.size() as usize),
            _ => {
                sink.fail(id, &format!("the system dictionary `{}` wrote does not load", shown), "");
                return;
            }
        }
    };
    if verbose {
        println!("read-back of the dictionary the route wrote: {:#?}\ndeclared (rows in the order given): {:#?}", rbs, expd);
    }
    if nwords != n {
        sink.fail(id, &format!("`{}`: the files given have {} records, the loaded dictionary {} words", shown, n, nwords), "");
        return;
    }
    for (i, (x, y)) in expd.iter().zip(rbs.iter()).enumerate() {
        if x != y {
            sink.fail(
                id,
                &format!("`{}`: word {} (index form {:?}) read back as {:?}; the rows in the order given declare {:?}", shown, i, inp.full.rows[i].surface, y, x),
                "",
            );
            return;
        }
    }
    if let Ok(b) = &expect_bytes {
        if !same_dict(&written, b) {
            sink.fail(id, &format!("`{}` wrote {} bytes that differ from the {} bytes DictBuilder writes after read_lexicon of the same files in the given order", shown, written.len(), b.len()), "");
        }
    }
}

fn tools(args: &Args) -> Option<Tools> {
    let cli = std::env::var("VERIF_CLI_BIN").unwrap_or_default();
    let pypkg = std::env::var("VERIF_PYPKG").unwrap_or_default();
    if cli.is_empty() || !Path::new(&cli).exists() {
        return None;
    }
    let dir = args.work.join("c05_routes");
    std::fs::create_dir_all(&dir).unwrap();
    Some(Tools { cli, pypkg, dir })
}

pub fn run_routes(sink: &mut Sink, rng: &mut Rng, args: &Args) {
    let t = match tools(args) {
        Some(t) => t,
        None => {
            sink.tag("route:skipped_no_cli_binary");
            return;
        }
    };
    let have_py = !t.pypkg.is_empty() && Path::new(&t.pypkg).join("sudachipy/sudachipy.so").exists();
    if !have_py {
        sink.tag("route:python_skipped_no_module");
    }
    let big = match big_system(&t.dir) {
        Ok(b) => Some(b),
        Err(e) => {
            sink.tag("route:user_routes_skipped");
            sink.extra("route_user_skipped", json!(e));
            None
        }
    };
    let rounds = args.n(1, 6);
    for _ in 0..rounds {
        for layout in 0..LAYOUTS.len() {
            let py = have_py && (args.thorough() || matches!(layout, 0 | 2 | 5));
            let st = rng.next();
            route_case(sink, &t, Route::CliSystem, st, layout, None, false);
            if py {
                route_case(sink, &t, Route::PySystem, st, layout, None, false);
            }
            if let Some(b) = &big {
                let st = rng.next();
                route_case(sink, &t, Route::CliUser, st, layout, Some(b), false);
                if py {
                    route_case(sink, &t, Route::PyUser, st, layout, Some(b), false);
                }
            }
        }
    }
}

pub fn replay_route(sink: &mut Sink, args: &Args, c: &Value) {
    let t = match tools(args) {
        Some(t) => t,
        None => {
            println!("no command-line tool staged (VERIF_CLI_BIN)");
            return;
        }
    };
    let route = Route::of(c["route"].as_str().unwrap_or(""));
    let big = if route.user() { big_system(&t.dir).ok() } else { None };
    route_case(sink, &t, route, c["rng"].as_u64().unwrap_or(0), c["layout"].as_u64().unwrap_or(0) as usize, big.as_ref(), true);
}
