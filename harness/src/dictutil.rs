//! Building and loading dictionaries in memory (shared by several property harnesses).
#![allow(dead_code)]
use serde_json::Value;
use std::path::Path;
use sudachi::config::ConfigBuilder;
use sudachi::dic::build::DictBuilder;
use sudachi::dic::dictionary::JapaneseDictionary;
use sudachi::dic::storage::{Storage, SudachiDicData};
use sudachi::dic::DictionaryLoader;

/// compile a system dictionary from matrix text and lexicon CSV
pub fn compile_system(matrix: &str, lex_csv: &str) -> Result<Vec<u8>, String> {
    let mut b = DictBuilder::new_system();
    b.read_conn(matrix.as_bytes()).map_err(|e| format!("read_conn: {:?}", e))?;
    b.read_lexicon(lex_csv.as_bytes()).map_err(|e| format!("read_lexicon: {:?}", e))?;
    b.resolve().map_err(|e| format!("resolve: {:?}", e))?;
    let mut out = Vec::new();
    b.compile(&mut out).map_err(|e| format!("compile: {:?}", e))?;
    Ok(out)
}

/// compile a user dictionary against the bare system dictionary
pub fn compile_user(system: &[u8], lex_csv: &str) -> Result<Vec<u8>, String> {
    let sys = DictionaryLoader::read_system_dictionary(system).map_err(|e| format!("read system: {:?}", e))?;
    let loaded = sys.to_loaded().ok_or("to_loaded failed")?;
    let mut b = DictBuilder::new_user(&loaded);
    b.read_lexicon(lex_csv.as_bytes()).map_err(|e| format!("read_lexicon(user): {:?}", e))?;
    b.resolve().map_err(|e| format!("resolve(user): {:?}", e))?;
    let mut out = Vec::new();
    b.compile(&mut out).map_err(|e| format!("compile(user): {:?}", e))?;
    Ok(out)
}

/// resource directory `dir` = copies of char.def / unk.def / rewrite.def of `res` (callers may overwrite them afterwards)
pub fn prepare_resources(dir: &Path, res: &str) -> Result<(), String> {
    std::fs::create_dir_all(dir).map_err(|e| e.to_string())?;
    for f in ["char.def", "unk.def", "rewrite.def"] {
        let src = format!("{}/{}", res, f);
        if Path::new(&src).exists() && !dir.join(f).exists() {
            std::fs::copy(&src, dir.join(f)).map_err(|e| e.to_string())?;
        }
    }
    Ok(())
}

/// load a dictionary with plugins from a JSON config (its "path" is set to `dir`)
pub fn load_dictionary(dir: &Path, system: Vec<u8>, users: Vec<Vec<u8>>, cfg: &Value) -> Result<JapaneseDictionary, String> {
    let mut cfg = cfg.clone();
    cfg["path"] = Value::String(dir.to_string_lossy().to_string());
    let bytes = serde_json::to_vec(&cfg).unwrap();
    let config = ConfigBuilder::from_bytes(&bytes).map_err(|e| format!("config: {:?}", e))?.build();
    let mut data = SudachiDicData::new(Storage::Owned(system));
    for u in users {
        data.add_user(Storage::Owned(u));
    }
    JapaneseDictionary::from_cfg_storage(&config, data).map_err(|e| format!("load: {:?}", e))
}

pub fn build_dictionary(dir: &Path, res: &str, matrix: &str, lex_csv: &str, user_csvs: &[String], cfg: &Value) -> Result<JapaneseDictionary, String> {
    prepare_resources(dir, res)?;
    let system = compile_system(matrix, lex_csv)?;
    let mut users = vec![];
    for u in user_csvs {
        users.push(compile_user(&system, u)?);
    }
    load_dictionary(dir, system, users, cfg)
}
