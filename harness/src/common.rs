//! Shared machinery of the correspondence harness: PRNG, Coq term printing, case sink.
#![allow(dead_code)]
use serde_json::{json, Value};
use std::collections::hash_map::DefaultHasher;
use std::collections::{BTreeMap, HashSet};
use std::fmt::Write as _;
use std::hash::{Hash, Hasher};
use std::io::Write;
use std::path::{Path, PathBuf};

/// splitmix64: every random choice of a run derives from one state seeded by VERIF_SEED
#[derive(Clone)]
pub struct Rng(pub u64);
impl Rng {
    pub fn new(seed: u64) -> Rng {
        Rng(seed ^ 0x9E37_79B9_7F4A_7C15)
    }
    pub fn next(&mut self) -> u64 {
        self.0 = self.0.wrapping_add(0x9E37_79B9_7F4A_7C15);
        let mut z = self.0;
        z = (z ^ (z >> 30)).wrapping_mul(0xBF58_476D_1CE4_E5B9);
        z = (z ^ (z >> 27)).wrapping_mul(0x94D0_49BB_1331_11EB);
        z ^ (z >> 31)
    }
    /// uniform in 0..n (n > 0)
    pub fn below(&mut self, n: u64) -> u64 {
        self.next() % n
    }
    pub fn range(&mut self, lo: i64, hi_incl: i64) -> i64 {
        lo + (self.next() % ((hi_incl - lo + 1) as u64)) as i64
    }
    pub fn chance(&mut self, num: u64, den: u64) -> bool {
        self.below(den) < num
    }
    pub fn pick<'a, T>(&mut self, xs: &'a [T]) -> &'a T {
        &xs[self.below(xs.len() as u64) as usize]
    }
    pub fn fork(&mut self) -> Rng {
        Rng(self.next())
    }
}

/// root of the repository under test (default /repo; VERIF_REPO overrides, used by scratch worktrees)
pub fn repo() -> String {
    std::env::var("VERIF_REPO").unwrap_or_else(|_| "/repo".to_string())
}

// ---------- Coq term printing ----------
pub fn cn<T: Into<u128>>(x: T) -> String {
    format!("{}%N", x.into())
}
pub fn cnu(x: usize) -> String {
    format!("{}%N", x)
}
pub fn cz(x: i64) -> String {
    if x < 0 {
        format!("({})%Z", x)
    } else {
        format!("{}%Z", x)
    }
}
pub fn cbool(b: bool) -> &'static str {
    if b {
        "true"
    } else {
        "false"
    }
}
pub fn clist<I: IntoIterator<Item = String>>(xs: I) -> String {
    let mut s = String::from("[");
    let mut first = true;
    for x in xs {
        if !first {
            s.push_str("; ");
        }
        first = false;
        s.push_str(&x);
    }
    s.push(']');
    s
}
pub fn copt(x: Option<String>) -> String {
    match x {
        None => "None".to_string(),
        Some(v) => format!("(Some {})", v),
    }
}
pub fn cpair(a: &str, b: &str) -> String {
    format!("({}, {})", a, b)
}
/// text as list of code points (N)
pub fn ctext(s: &str) -> String {
    clist(s.chars().map(|c| cn(c as u32)))
}
/// bytes as list N
pub fn cbytes(b: &[u8]) -> String {
    clist(b.iter().map(|c| cn(*c)))
}

pub fn hash_of<T: Hash>(t: &T) -> u64 {
    let mut h = DefaultHasher::new();
    t.hash(&mut h);
    h.finish()
}

/// Result of running the implementation under catch_unwind
thread_local! {
    static IN_CATCH: std::cell::Cell<u32> = std::cell::Cell::new(0);
}
pub fn quiet_panics() {
    let default = std::panic::take_hook();
    std::panic::set_hook(Box::new(move |info| {
        // panics of the implementation under test are captured by `catch`; the harness's own are shown
        if IN_CATCH.with(|c| c.get()) == 0 {
            default(info);
        }
    }));
}
/// worker threads of the harness: their panics inside `catch` are silent as well (the hook is process wide)
pub fn quiet_panics_thread() {}
pub fn catch<T, F: FnOnce() -> T>(f: F) -> Result<T, String> {
    IN_CATCH.with(|c| c.set(c.get() + 1));
    let r = std::panic::catch_unwind(std::panic::AssertUnwindSafe(f));
    IN_CATCH.with(|c| c.set(c.get() - 1));
    match r {
        Ok(v) => Ok(v),
        Err(e) => {
            let msg = if let Some(s) = e.downcast_ref::<&str>() {
                s.to_string()
            } else if let Some(s) = e.downcast_ref::<String>() {
                s.clone()
            } else {
                "panic".to_string()
            };
            Err(msg)
        }
    }
}

/// Sink for the cases of one run.
///
/// Every case is (a) a closed Coq term of type `bool` — true iff the model agrees with the
/// implementation's recorded output AND the property predicate holds on that output — and
/// (b) a JSON description sufficient to replay it.  The Rust side may additionally report
/// failures found by its own (untrusted) oracle; those give a concrete failing input even when the
/// Coq development no longer builds.
pub struct Sink {
    pub prop: String,
    pub dir: PathBuf,
    pub imports: Vec<String>,
    pub shard_size: usize,
    pub seed: u64,
    pub tier: String,
    terms: Vec<String>,
    descs: Vec<Value>,
    seen: HashSet<u64>,
    nontrivial: u64,
    hist: BTreeMap<String, u64>,
    failures: Vec<Value>,
    rule: String,
    extra: BTreeMap<String, Value>,
    finished: bool,
}

/// Safety net: if the harness itself panics outside `catch` (an oracle indexing by offsets the implementation reported,
/// a formatter, an unwrap on implementation output), what has been collected so far is still written out, together with a
/// failure that points at the case being evaluated -- a crash of the harness must not hide the input that caused it.
impl Drop for Sink {
    fn drop(&mut self) {
        if !self.finished && std::thread::panicking() {
            let last = self.descs.len().saturating_sub(1);
            if !self.descs.is_empty() {
                self.failures.push(json!({"case": last, "what": "the harness panicked while evaluating the implementation's output for this case or while preparing the next one: the output does not have the shape the oracle relies on (offsets outside the text, missing morphemes, ...)", "class": "", "by": "harness-crash"}));
            }
            self.extra.insert("harness_crashed".to_string(), json!(true));
            self.write_out();
        }
    }
}

impl Sink {
    pub fn new(prop: &str, dir: &Path, imports: &[&str], seed: u64, tier: &str) -> Sink {
        std::fs::create_dir_all(dir).unwrap();
        // remove stale shards
        if let Ok(rd) = std::fs::read_dir(dir) {
            for e in rd.flatten() {
                let n = e.file_name().to_string_lossy().to_string();
                if n.starts_with("cases_") || n == "meta.json" || n == "cases.jsonl" {
                    let _ = std::fs::remove_file(e.path());
                }
            }
        }
        Sink {
            prop: prop.to_string(),
            dir: dir.to_path_buf(),
            imports: imports.iter().map(|s| s.to_string()).collect(),
            shard_size: 150,
            seed,
            tier: tier.to_string(),
            terms: vec![],
            descs: vec![],
            seen: HashSet::new(),
            nontrivial: 0,
            hist: BTreeMap::new(),
            failures: vec![],
            rule: String::new(),
            extra: BTreeMap::new(),
            finished: false,
        }
    }
    pub fn rule(&mut self, r: &str) {
        self.rule = r.to_string();
    }
    pub fn extra(&mut self, k: &str, v: Value) {
        self.extra.insert(k.to_string(), v);
    }
    pub fn tag(&mut self, t: &str) {
        *self.hist.entry(t.to_string()).or_insert(0) += 1;
    }
    pub fn tag_n(&mut self, t: &str, n: u64) {
        *self.hist.entry(t.to_string()).or_insert(0) += n;
    }
    pub fn len(&self) -> usize {
        self.terms.len()
    }
    /// add a case; returns its id.  `nontrivial` by the property's own rule; distinctness by hash of the term.
    pub fn case(&mut self, term: String, desc: Value, nontrivial: bool) -> usize {
        let id = self.terms.len();
        let h = hash_of(&term);
        if self.seen.insert(h) && nontrivial {
            self.nontrivial += 1;
        }
        self.terms.push(term);
        self.descs.push(desc);
        id
    }
    /// a case that has no Coq side (implementation-only oracle); still counted and replayable
    pub fn case_rust_only(&mut self, desc: Value, nontrivial: bool) -> usize {
        let id = self.terms.len();
        let h = hash_of(&desc.to_string());
        if self.seen.insert(h) && nontrivial {
            self.nontrivial += 1;
        }
        self.terms.push(String::new()); // empty = no Coq term
        self.descs.push(desc);
        id
    }
    /// failure found by the Rust-side oracle for case `id` (class = known-finding class or "")
    pub fn fail(&mut self, id: usize, what: &str, class: &str) {
        self.failures.push(json!({"case": id, "what": what, "class": class, "by": "rust-oracle"}));
    }
    pub fn finish(mut self) {
        self.write_out();
        self.finished = true;
    }
    fn write_out(&mut self) {
        // only cases that have a Coq term go into shards, each with its global id
        let with_term: Vec<usize> = (0..self.terms.len()).filter(|i| !self.terms[*i].is_empty()).collect();
        let nshards = (with_term.len() + self.shard_size - 1) / self.shard_size;
        for s in 0..nshards {
            let lo = s * self.shard_size;
            let hi = usize::min(lo + self.shard_size, with_term.len());
            let mut f = String::new();
            writeln!(f, "From Coq Require Import List NArith ZArith Bool String.").unwrap();
            writeln!(f, "From SudachiVerif Require Import Model.Harness.").unwrap();
            for i in &self.imports {
                writeln!(f, "From SudachiVerif Require Import {}.", i).unwrap();
            }
            writeln!(f, "Import ListNotations.").unwrap();
            writeln!(f, "Definition cases : list (N * bool) := [").unwrap();
            for (k, i) in with_term[lo..hi].iter().enumerate() {
                if k > 0 {
                    writeln!(f, ";").unwrap();
                }
                write!(f, "  ({}%N, {})", i, self.terms[*i]).unwrap();
            }
            writeln!(f, "\n].").unwrap();
            writeln!(f, "Eval vm_compute in (failing_ids cases).").unwrap();
            std::fs::write(self.dir.join(format!("cases_{:04}.v", s)), f).unwrap();
        }
        let mut jl = std::fs::File::create(self.dir.join("cases.jsonl")).unwrap();
        for d in &self.descs {
            writeln!(jl, "{}", d).unwrap();
        }
        let samples: Vec<Value> = {
            let n = self.descs.len();
            let mut v = vec![];
            if n > 0 {
                for k in [0usize, n / 3, 2 * n / 3, n - 1] {
                    if !v.contains(&self.descs[k]) {
                        v.push(self.descs[k].clone());
                    }
                }
            }
            v
        };
        let meta = json!({
            "property": self.prop,
            "seed": self.seed,
            "tier": self.tier,
            "evaluations": self.terms.len(),
            "model_cases": with_term.len(),
            "distinct_nontrivial": self.nontrivial,
            "rule": self.rule,
            "histogram": self.hist,
            "shards": nshards,
            "rust_failures": self.failures,
            "samples": samples,
            "extra": self.extra,
        });
        std::fs::write(self.dir.join("meta.json"), serde_json::to_string_pretty(&meta).unwrap()).unwrap();
    }
}

/// Common command line: <prop> --seed N --tier T --out DIR [--replay FILE]
pub struct Args {
    pub prop: String,
    pub seed: u64,
    pub tier: String,
    pub out: PathBuf,
    pub replay: Option<PathBuf>,
    pub work: PathBuf,
}
impl Args {
    pub fn thorough(&self) -> bool {
        self.tier == "thorough"
    }
    /// n for quick, m for thorough
    pub fn n(&self, quick: usize, thorough: usize) -> usize {
        if self.thorough() {
            thorough
        } else {
            quick
        }
    }
}
