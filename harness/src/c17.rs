//! C17 — character classes are the union of all covering definitions.
use crate::common::*;
use serde_json::{json, Value};
use std::io::BufReader;
use sudachi::dic::character_category::CharacterCategory;
use sudachi::dic::grammar::Grammar;
use sudachi::dic::DictionaryLoader;
use sudachi::input_text::{InputBuffer, InputTextIndex};

const NAMES: [(&str, u32); 18] = [
    ("DEFAULT", 1),
    ("SPACE", 2),
    ("KANJI", 4),
    ("SYMBOL", 8),
    ("NUMERIC", 16),
    ("ALPHA", 32),
    ("HIRAGANA", 64),
    ("KATAKANA", 128),
    ("KANJINUMERIC", 256),
    ("GREEK", 512),
    ("CYRILLIC", 1024),
    ("USER1", 2048),
    ("USER2", 4096),
    ("USER3", 8192),
    ("USER4", 16384),
    ("NOOOVBOW", 1 << 30),
    ("NOOOVBOW2", 1 << 31),
    ("ALL", 0x3FFF_FFFF),
];

#[derive(Clone, Debug)]
pub struct Def {
    pub lo: u32,
    pub hi: u32, // inclusive, as written in the file
    pub cats: Vec<usize>,
    pub single: bool, // written as a single code point
}

pub struct Reuse {
    buf: InputBuffer,
    dict_bytes: Vec<u8>,
}

fn is_char(x: u32) -> bool {
    char::from_u32(x).is_some()
}

pub fn render(defs: &[Def], rng: &mut Rng) -> String {
    let mut s = String::new();
    for d in defs {
        if rng.chance(1, 8) {
            s.push_str("# comment line\n");
        }
        if rng.chance(1, 16) {
            s.push_str("\n");
        }
        if rng.chance(1, 16) {
            s.push_str("DEFAULT 0 1 0  # legacy header, ignored\n");
        }
        if d.single {
            s.push_str(&format!("0x{:04X}", d.lo));
        } else {
            s.push_str(&format!("0x{:04X}..0x{:04X}", d.lo, d.hi));
        }
        for c in &d.cats {
            s.push_str(if rng.chance(1, 4) { "\t" } else { " " });
            s.push_str(NAMES[*c].0);
        }
        if d.cats.is_empty() || rng.chance(1, 4) {
            s.push_str(" # trailing comment KANJI");
        }
        s.push('\n');
    }
    s
}

fn gen_defs(rng: &mut Rng) -> Vec<Def> {
    // a small pool of boundary points makes overlap / nesting / adjacency / duplication frequent
    let anchors: [u32; 14] = [
        0, 1, 0x30, 0x39, 0x41, 0x7f, 0x80, 0x7ff, 0x800, 0x3041, 0xD7FE, 0xE000, 0xFFFF, 0x10FFFE,
    ];
    let npool = 2 + rng.below(7) as usize;
    let mut pool = vec![];
    for _ in 0..npool {
        let a = *rng.pick(&anchors);
        let p = match rng.below(4) {
            0 => a,
            1 => a.saturating_add(rng.below(4) as u32),
            2 => a.saturating_sub(rng.below(4) as u32),
            _ => rng.below(0x3100) as u32,
        };
        pool.push(p);
    }
    let n = rng.below(13) as usize;
    let mut defs = vec![];
    for _ in 0..n {
        let mut lo = *rng.pick(&pool);
        let mut hi = match rng.below(5) {
            0 => lo,
            1 => lo + rng.below(3) as u32,
            _ => *rng.pick(&pool),
        };
        if hi < lo {
            std::mem::swap(&mut lo, &mut hi);
        }
        // keep the mostly-valid stream loadable: begin and end+1 must be scalar values
        if !is_char(lo) || !is_char(hi + 1) {
            continue;
        }
        let ncat = match rng.below(8) {
            0 => 0,
            1..=4 => 1,
            5..=6 => 2,
            _ => 3,
        };
        let cats: Vec<usize> = (0..ncat).map(|_| rng.below(NAMES.len() as u64) as usize).collect();
        let single = lo == hi && rng.chance(2, 3);
        defs.push(Def { lo, hi, cats, single });
        if rng.chance(1, 6) {
            let d = defs.last().unwrap().clone();
            defs.push(d); // exact duplicate
        }
    }
    defs
}

fn queries(defs: &[Def], rng: &mut Rng, thorough: bool) -> Vec<u32> {
    let mut q: Vec<u32> = vec![0, 1, 0xD7FF, 0xE000, 0x10FFFF];
    for d in defs {
        for b in [d.lo, d.hi + 1] {
            for x in [b.wrapping_sub(2), b.wrapping_sub(1), b, b + 1, b + 2] {
                q.push(x);
            }
        }
    }
    let extra = if thorough { 40 } else { 8 };
    for _ in 0..extra {
        q.push(rng.below(0x11_0000) as u32);
    }
    q.retain(|x| is_char(*x));
    q.sort();
    q.dedup();
    q
}

fn naive(defs: &[Def], c: u32) -> u32 {
    let mut u = 0u32;
    for d in defs {
        if d.lo <= c && c <= d.hi {
            for k in &d.cats {
                u |= NAMES[*k].1;
            }
        }
    }
    if u == 0 {
        1
    } else {
        u
    }
}

fn desc(defs: &[Def], text: &str) -> Value {
    json!({"kind": "c17", "text": text,
           "defs": defs.iter().map(|d| json!([d.lo, d.hi, d.cats.iter().map(|k| NAMES[*k].0).collect::<Vec<_>>()])).collect::<Vec<_>>()})
}

fn run_case(sink: &mut Sink, defs: &[Def], text: &str, qs: &[u32], verbose: bool, reuse: &mut Reuse) {
    let loaded = catch(|| CharacterCategory::from_reader(BufReader::new(text.as_bytes())));
    let cc = match loaded {
        Ok(Ok(cc)) => cc,
        Ok(Err(e)) => {
            let id = sink.case_rust_only(desc(defs, text), false);
            sink.fail(id, &format!("well-formed definition file rejected: {:?}", e), "");
            return;
        }
        Err(p) => {
            let id = sink.case_rust_only(desc(defs, text), false);
            sink.fail(id, &format!("loader panicked: {}", p), "");
            return;
        }
    };
    let mut answers = vec![];
    let mut bad = None;
    for &c in qs {
        let ch = char::from_u32(c).unwrap();
        let got = match catch(|| cc.get_category_types(ch).bits()) {
            Ok(g) => g,
            Err(p) => {
                bad = Some(format!("lookup of U+{:04X} panicked: {}", c, p));
                continue;
            }
        };
        if got != naive(defs, c) && bad.is_none() {
            bad = Some(format!("U+{:04X}: implementation reports {:#x}, union of covering lines is {:#x}", c, got, naive(defs, c)));
        }
        answers.push((c, got));
    }
    // the same classes must be reported where the analysis reads them: InputBuffer::build fills the per-character classes from
    // the grammar's table.  ONE buffer object is reused for all definition files of the run (reset + build), so nothing may be
    // carried over from the table of an earlier file.
    let mut range_term: Option<String> = None;
    let mut ranges_obs: Vec<(usize, usize, u32)> = vec![];
    if bad.is_none() {
        let probe: String = qs.iter().filter_map(|c| char::from_u32(*c)).filter(|c| *c != '\0').take(60).collect();
        let bytes = reuse.dict_bytes.clone();
        let cc2 = cc.clone();
        let buf = &mut reuse.buf;
        let r = catch(|| {
            let mut g: Grammar = DictionaryLoader::read_system_dictionary(&bytes).unwrap().grammar.unwrap();
            g.set_character_category(cc2);
            buf.reset().push_str(&probe);
            buf.start_build().map_err(|e| format!("{:?}", e))?;
            buf.build(&g).map_err(|e| format!("{:?}", e))?;
            let mut v = vec![];
            for (i, ch) in probe.chars().enumerate() {
                v.push((ch as u32, buf.cat_at_char(i).bits()));
            }
            // the same classes through cat_of_range (what the OOV providers and the path-rewrite plugins read): a range of one
            // character has that character's classes, a run the intersection of its characters' classes (marker classes
            // NOOOVBOW / NOOOVBOW2 included), the empty range none
            use sudachi::input_text::InputTextIndex;
            let n = probe.chars().count();
            let mut ranges = vec![];
            for i in 0..n {
                for len in [1usize, 2, 3, 0] {
                    if i + len <= n {
                        ranges.push((i, i + len, buf.cat_of_range(i..i + len).bits()));
                    }
                }
            }
            Ok::<_, String>((v, ranges))
        });
        match r {
            Ok(Ok((v, ranges))) => {
                for (c, got) in &v {
                    if *got != naive(defs, *c) {
                        bad = Some(format!("InputBuffer (reused object) reports {:#x} for U+{:04X}, union of covering lines is {:#x}", got, c, naive(defs, *c)));
                        break;
                    }
                }
                if bad.is_none() {
                    let pc: Vec<u32> = probe.chars().map(|c| c as u32).collect();
                    ranges_obs = ranges.clone();
                    for (a, b, got) in ranges {
                        let want = if a == b { 0 } else { pc[a..b].iter().fold(u32::MAX, |acc, c| acc & naive(defs, *c)) };
                        if got != want {
                            bad = Some(format!("InputBuffer::cat_of_range({}..{}) over the characters {:?} reports {:#x}, the intersection of their classes is {:#x}",
                                a, b, pc[a..b].iter().map(|c| format!("U+{:04X}", c)).collect::<Vec<_>>(), got, want));
                            break;
                        }
                    }
                    sink.tag("classes_through_cat_of_range");
                    range_term = Some(format!("check_cat_of_range {} {}", clist(v.iter().map(|(_, g)| cn(*g))),
                        clist(ranges_obs.iter().map(|(a, b, g)| format!("({}%nat, {}%nat, {})", a, b, cn(*g))))));
                }
            }
            Ok(Err(e)) => bad = Some(format!("building an input buffer over the query characters failed: {}", e)),
            Err(p) => {
                bad = Some(format!("building an input buffer over the query characters panicked: {}", p));
                reuse.buf = InputBuffer::default();
            }
        }
    }
    if verbose {
        println!("impl answers: {:?}", answers);
        println!("naive union : {:?}", qs.iter().map(|c| (*c, naive(defs, *c))).collect::<Vec<_>>());
    }
    let rs = clist(defs.iter().map(|d| {
        let mut m = 0u32;
        for k in &d.cats {
            m |= NAMES[*k].1;
        }
        format!("mkR {} {} {}", cn(d.lo), cn(d.hi + 1), cn(m))
    }));
    let qsv = clist(answers.iter().map(|(c, g)| cpair(&cn(*c), &cn(*g))));
    // CharacterCategory::iter(): (left, right, classes) of every yielded range; None = it panicked
    let it = catch(|| cc.iter().map(|(r, c)| (r.start as u32, r.end as u32, c.bits())).collect::<Vec<_>>());
    let its = match &it {
        Ok(v) => format!("(Some {})", clist(v.iter().map(|(a, b, c)| format!("({}, {}, {})", cn(*a), cn(*b), cn(*c))))),
        Err(_) => "None".to_string(),
    };
    if it.is_err() {
        sink.tag("iter_panics(default table)");
    }
    // and the same file through the model of the text reader (status 0 = loaded)
    let mut term = format!("check_case_iter {} {} {} && check_text {} 0%N {}", rs, qsv, its, cbytes(text.as_bytes()), qsv);
    if let Some(rt) = &range_term {
        term = format!("{} && {}", term, rt);
    }
    let _ = &ranges_obs;
    // non-trivial: at least two definition lines overlap or touch
    let mut nontrivial = false;
    for (i, a) in defs.iter().enumerate() {
        for b in defs.iter().skip(i + 1) {
            if a.lo <= b.hi + 1 && b.lo <= a.hi + 1 {
                nontrivial = true;
            }
        }
    }
    sink.tag(&format!("lines={}", usize::min(defs.len(), 12)));
    sink.tag(if nontrivial { "overlap_or_adjacent" } else { "disjoint" });
    if defs.iter().any(|d| d.cats.is_empty()) {
        sink.tag("has_empty_class_line");
    }
    let id = sink.case(term, desc(defs, text), nontrivial);
    if let Some(b) = bad {
        sink.fail(id, &b, "");
    }
}

fn malformed(sink: &mut Sink, rng: &mut Rng, n: usize) {
    // separate malformed stream: the loader must answer Err (never a silently different table)
    let bads = [
        "0x0030..0x0020 NUMERIC\n",
        "0xD800 KANJI\n",
        "0xD7FF KANJI\n",
        "0x10FFFF KANJI\n",
        "0x110000 KANJI\n",
        "0x0030 NOSUCHCLASS\n",
        "0x0030\n",
        "0x00ZZ KANJI\n",
        "0xFFFFFFFF KANJI\n",
        "0x30..0xFFFFFFFF KANJI\n",
        "0x100000000 KANJI\n",
        "0x30.. KANJI\n",
        "0x KANJI\n",
        "0x-30 KANJI\n",
        "0x30...0x39 KANJI\n",
    ];
    let mut rejected = 0u64;
    for _ in 0..n {
        let mut defs = gen_defs(rng);
        defs.truncate(3);
        let mut text = render(&defs, rng);
        let b = *rng.pick(&bads);
        if rng.chance(1, 2) {
            text.push_str(b);
        } else {
            text = format!("{}{}", b, text);
        }
        let r = catch(|| CharacterCategory::from_reader(BufReader::new(text.as_bytes())).is_ok());
        // the text-reader model must predict the same outcome (0 loaded / 1 Err / 2 panic); unmodelled syntax passes
        let status = match &r { Ok(true) => 0u32, Ok(false) => 1, Err(_) => 2 };
        sink.case(format!("check_text {} {} []", cbytes(text.as_bytes()), cn(status)), json!({"kind": "c17-malformed", "text": text}), false);
        match r {
            Ok(false) => rejected += 1,
            Ok(true) => {
                let id = sink.case_rust_only(json!({"kind": "c17-malformed", "text": text}), false);
                sink.fail(id, "malformed definition file was accepted", "");
            }
            Err(_) => {
                // a loader panic is outside C17 ("every definition file that loads"); counted only
                sink.tag("malformed_loader_panic");
            }
        }
    }
    sink.tag_n("malformed_rejected", rejected);
}

pub fn run(args: &Args) {
    let mut sink = Sink::new("C17", &args.out, &["Model.CharCat", "Model.CharDefText", "Model.CatOfRangeCheck", "Model.PathResolve"], args.seed, &args.tier);
    sink.rule("random char.def files (0..13 lines over a small pool of boundary points incl. 0, surrogate-gap and plane-16 edges; duplicates, single points, empty class lists, comments) x query points {every range end and its +-2 neighbours, 0, U+D7FF, U+E000, U+10FFFF, random}; non-trivial = at least two lines overlap or touch; distinct by generated Coq term; the classes are also read where the analysis reads them: through one reused InputBuffer with cat_at_char and with cat_of_range (single characters = their classes, runs of 2 and 3 = the intersection, empty range = none); every 60th file through the configuration route, incl. the resolution order of a relative characterDefinitionFile (path > resource dir > root dir > current directory) with same-named decoy files carrying marker classes at every lower-priority location and the process working directory changed for the stage");
    let mut reuse = Reuse { buf: InputBuffer::default(), dict_bytes: std::fs::read(format!("{}/sudachi/tests/resources/system.dic.test", repo())).unwrap() };
    if let Some(p) = &args.replay {
        let v: Value = serde_json::from_str(&std::fs::read_to_string(p).unwrap()).unwrap();
        let case = &v["case"];
        let text = case["text"].as_str().unwrap().to_string();
        let defs: Vec<Def> = case["defs"]
            .as_array()
            .map(|a| {
                a.iter()
                    .map(|d| Def {
                        lo: d[0].as_u64().unwrap() as u32,
                        hi: d[1].as_u64().unwrap() as u32,
                        cats: d[2].as_array().unwrap().iter().map(|n| NAMES.iter().position(|x| x.0 == n.as_str().unwrap()).unwrap()).collect(),
                        single: false,
                    })
                    .collect()
            })
            .unwrap_or_default();
        let mut rng = Rng::new(args.seed);
        let qs = queries(&defs, &mut rng, true);
        println!("definition file:\n{}", text);
        run_case(&mut sink, &defs, &text, &qs, true, &mut reuse);
        if !case["resolution"].is_null() || !case["configured"].is_null() {
            // the configuration route, incl. the resolution order with decoy files in the lower-priority locations
            let system = reuse.dict_bytes.clone();
            run_configured(&mut sink, args, &defs, &text, &qs, &system);
        }
        sink.finish();
        return;
    }
    let mut rng = Rng::new(args.seed);
    // corpus first: the shipped definition files
    for f in ["resources/char.def", "sudachi/tests/resources/char.def"] {
        if let Ok(text) = std::fs::read_to_string(format!("{}/{}", repo(), f)) {
            let defs = parse_back(&text);
            let qs = queries(&defs, &mut rng, args.thorough());
            run_case(&mut sink, &defs, &text, &qs, false, &mut reuse);
            sink.tag("corpus_shipped_file");
        }
    }
    // odd but valid spellings: a '+' sign, a repeated "0x" prefix, CRLF, tabs, trailing spaces, a third ".." piece
    {
        let text = "0x+30 KANJI\r\n0x0x41\tALPHA  \n  0x50..0x52..0x60 GREEK # c\n0x30..0x+39 NUMERIC\n";
        let k = |n: &str| NAMES.iter().position(|x| x.0 == n).unwrap();
        let defs = vec![
            Def { lo: 0x30, hi: 0x30, cats: vec![k("KANJI")], single: true },
            Def { lo: 0x41, hi: 0x41, cats: vec![k("ALPHA")], single: true },
            Def { lo: 0x50, hi: 0x52, cats: vec![k("GREEK")], single: false },
            Def { lo: 0x30, hi: 0x39, cats: vec![k("NUMERIC")], single: false },
        ];
        let qs = queries(&defs, &mut rng, true);
        run_case(&mut sink, &defs, text, &qs, false, &mut reuse);
        sink.tag("corpus_odd_spellings");
    }
    // marker classes (NOOOVBOW, NOOOVBOW2, not part of ALL) next to ordinary ones: they must survive every way of reading
    {
        let k = |n: &str| NAMES.iter().position(|x| x.0 == n).unwrap();
        let defs = vec![
            Def { lo: 0x41, hi: 0x5A, cats: vec![k("ALPHA")], single: false },
            Def { lo: 0x42, hi: 0x42, cats: vec![k("NOOOVBOW")], single: true },
            Def { lo: 0x43, hi: 0x44, cats: vec![k("NOOOVBOW2"), k("GREEK")], single: false },
            Def { lo: 0x61, hi: 0x7A, cats: vec![k("ALL"), k("NOOOVBOW")], single: false },
            Def { lo: 0x30, hi: 0x39, cats: vec![k("NOOOVBOW2")], single: false },
        ];
        let text = render(&defs, &mut rng);
        let qs = queries(&defs, &mut rng, true);
        run_case(&mut sink, &defs, &text, &qs, false, &mut reuse);
        let system = reuse.dict_bytes.clone();
        run_configured(&mut sink, args, &defs, &text, &qs, &system);
        sink.tag("corpus_marker_classes");
    }
    let n = args.n(1200, 20000);
    let system = reuse.dict_bytes.clone();
    for k in 0..n {
        let defs = gen_defs(&mut rng);
        let text = render(&defs, &mut rng);
        let qs = queries(&defs, &mut rng, args.thorough());
        run_case(&mut sink, &defs, &text, &qs, false, &mut reuse);
        if k % 60 == 0 {
            run_configured(&mut sink, args, &defs, &text, &qs, &system);
        }
    }
    malformed(&mut sink, &mut rng, args.n(200, 2000));
    sink.finish();
}

/// The definition file configured as `characterDefinitionFile` is the one analysis uses -- also when an OOV plugin reads a
/// DIFFERENT definition file for its own category properties (`charDef` of MeCabOovPlugin): the dictionary is put together
/// through the configuration route and the classes are read from its grammar.
fn run_configured(sink: &mut Sink, args: &Args, defs: &[Def], text: &str, qs: &[u32], system: &[u8]) {
    use crate::dictutil::{load_dictionary, prepare_resources};
    let res = format!("{}/sudachi/tests/resources", repo());
    let dir = args.work.join("c17cfg");
    let _ = std::fs::remove_dir_all(&dir);
    if prepare_resources(&dir, &res).is_err() {
        return;
    }
    std::fs::write(dir.join("analysis_char.def"), text).unwrap();
    // unk.def for the categories the plugin's own char.def defines, with ids inside the test matrix
    std::fs::write(dir.join("unk.def"), "DEFAULT,5,5,3857,補助記号,一般,*,*,*,*\nALPHA,4,4,11633,名詞,普通名詞,一般,*,*,*\n").unwrap();
    let pos = json!(["名詞", "普通名詞", "一般", "*", "*", "*"]);
    for (vname, provs) in [
        ("mecab-own-chardef", json!([{"class": "com.worksap.nlp.sudachi.MeCabOovPlugin", "charDef": "char.def", "unkDef": "unk.def", "userPOS": "allow"},
                                     {"class": "com.worksap.nlp.sudachi.SimpleOovPlugin", "oovPOS": pos, "leftId": 8, "rightId": 8, "cost": 6000}])),
        ("simple-only", json!([{"class": "com.worksap.nlp.sudachi.SimpleOovPlugin", "oovPOS": pos, "leftId": 8, "rightId": 8, "cost": 6000}])),
    ] {
        let cfg = json!({"characterDefinitionFile": "analysis_char.def", "oovProviderPlugin": provs});
        let mut d = desc(defs, text);
        d["configured"] = json!(vname);
        sink.tag("through_configured_dictionary");
        let id = sink.case_rust_only(d, defs.len() > 1);
        match catch(|| load_dictionary(&dir, system.to_vec(), vec![], &cfg)) {
            Ok(Ok(dict)) => {
                for &c in qs {
                    let ch = char::from_u32(c).unwrap();
                    match catch(|| dict.grammar().character_category.get_category_types(ch).bits()) {
                        Ok(got) if got == naive(defs, c) => {}
                        Ok(got) => {
                            sink.fail(id, &format!("dictionary configured with this definition file ({}): U+{:04X} has classes {:#x}, union of covering lines is {:#x}", vname, c, got, naive(defs, c)), "");
                            break;
                        }
                        Err(p) => {
                            sink.fail(id, &format!("dictionary configured with this definition file ({}): lookup of U+{:04X} panicked: {}", vname, c, p), "");
                            break;
                        }
                    }
                }
            }
            Ok(Err(e)) => sink.fail(id, &format!("a dictionary configured with this well-formed definition file ({}) did not load: {}", vname, e), ""),
            Err(p) => sink.fail(id, &format!("loading a dictionary configured with this definition file ({}) panicked: {}", vname, p), ""),
        }
    }
    run_resolution_order(sink, args, defs, text, qs, system, &dir);
    let _ = std::fs::remove_dir_all(&dir);
}

/// Which file a relative `characterDefinitionFile` names.  Config::complete_path / ConfigBuilder::build (config.rs) resolve:
///   1. an absolute path is taken as it is;
///   2. otherwise the first EXISTING candidate among the anchors, in this order: `path` of the configuration, the resource
///      directory (ConfigBuilder::resource_path, default <crate>/../resources), the root directory (directory of the
///      configuration file, ConfigBuilder::root_directory);
///   3. otherwise the path relative to the current working directory, if it exists;
///   4. otherwise an error.
/// Files of the same name with DIFFERENT classes (the genuine lines + one line covering everything with a marker class
/// USER1..USER4 per location) are placed at the lower-priority locations: the classes the dictionary reports must be
/// those of the file the order above selects.  The process changes its working directory for this stage only
/// (single-threaded harness) and changes back.
fn run_resolution_order(sink: &mut Sink, args: &Args, defs: &[Def], text: &str, qs: &[u32], system: &[u8], path_dir: &std::path::Path) {
    use sudachi::config::ConfigBuilder;
    use sudachi::dic::dictionary::JapaneseDictionary;
    use sudachi::dic::storage::{Storage, SudachiDicData};
    let Ok(orig_cwd) = std::env::current_dir() else { return };
    let abs = |p: std::path::PathBuf| if p.is_absolute() { p } else { orig_cwd.join(p) };
    let path_dir = abs(path_dir.to_path_buf());
    let base = abs(args.work.join("c17anchors"));
    let _ = std::fs::remove_dir_all(&base);
    let (resdir, rootdir, cwd) = (base.join("resource"), base.join("root"), base.join("cwd"));
    for d in [&resdir, &rootdir, &cwd] {
        std::fs::create_dir_all(d).unwrap();
    }
    let marker = |k: usize| NAMES.iter().find(|x| x.0 == ["USER1", "USER2", "USER3", "USER4"][k]).unwrap().1;
    let decoy = |k: usize| format!("{}0x0000..0x10FFFE {}\n", if text.ends_with('\n') || text.is_empty() { text.to_string() } else { format!("{}\n", text) }, ["USER1", "USER2", "USER3", "USER4"][k]);
    let name = "analysis_char.def";
    let pos = json!(["名詞", "普通名詞", "一般", "*", "*", "*"]);
    // scenario: which locations hold a file (path, resource, root, cwd); the first of them in this order must be used
    for present in [[true, true, true, true], [false, true, true, true], [false, false, true, true], [false, false, false, true], [true, false, false, true], [false, true, false, true]] {
        let locs = [&path_dir, &resdir, &rootdir, &cwd];
        for (k, loc) in locs.iter().enumerate() {
            let f = loc.join(name);
            let _ = std::fs::remove_file(&f);
            if present[k] {
                // the file in `path` is the genuine one (marker-free), the others carry their marker
                std::fs::write(&f, if k == 0 { text.to_string() } else { decoy(k) }).unwrap();
            }
        }
        let selected = present.iter().position(|x| *x).unwrap();
        let extra = if selected == 0 { 0 } else { marker(selected) };
        let cfg = json!({"path": path_dir.to_string_lossy(), "characterDefinitionFile": name,
            "oovProviderPlugin": [{"class": "com.worksap.nlp.sudachi.SimpleOovPlugin", "oovPOS": pos, "leftId": 8, "rightId": 8, "cost": 6000}]});
        let mut d = desc(defs, text);
        d["resolution"] = json!({"file_in": {"path": present[0], "resource_dir": present[1], "root_dir": present[2], "cwd": present[3]}});
        sink.tag(&format!("resolution_order:selected={}", ["path", "resource_dir", "root_dir", "cwd"][selected]));
        if std::env::set_current_dir(&cwd).is_err() {
            continue;
        }
        let loaded = catch(|| {
            let c = ConfigBuilder::from_bytes(cfg.to_string().as_bytes()).map_err(|e| format!("{:?}", e))?.resource_path(resdir.clone()).root_directory(rootdir.clone()).build();
            JapaneseDictionary::from_cfg_storage(&c, SudachiDicData::new(Storage::Owned(system.to_vec()))).map_err(|e| format!("{:?}", e))
        });
        std::env::set_current_dir(&orig_cwd).unwrap();
        // which location's file the implementation used, read off the marker class of a code point every file covers;
        // the presence pattern and the chosen location go through Model/PathResolve.v
        let markers = marker(1) | marker(2) | marker(3);
        let probe = qs.iter().cloned().find(|c| *c <= 0x10FFFE && *c != 0 && naive(defs, *c) & markers == 0);
        let chosen: Option<usize> = match (&loaded, probe) {
            (Ok(Ok(dict)), Some(c)) => {
                let bits = dict.grammar().character_category.get_category_types(char::from_u32(c).unwrap()).bits();
                Some((1..4).find(|k| bits & marker(*k) != 0).unwrap_or(0))
            }
            (Ok(Ok(_)), None) => None, // the genuine file itself uses the marker classes everywhere: implementation-only check
            _ => Some(4),
        };
        let id = match chosen {
            Some(ch) => sink.case(format!("check_resolve {} {}%nat", clist(present.iter().map(|b| cbool(*b).to_string())), ch), d, true),
            None => sink.case_rust_only(d, true),
        };
        match loaded {
            Ok(Ok(dict)) => {
                for &c in qs {
                    let ch = char::from_u32(c).unwrap();
                    // U+10FFFF lies outside the marker line
                    let want = if c <= 0x10FFFE && extra != 0 { (naive(defs, c) | extra) & !if naive_is_default(defs, c) { 1 } else { 0 } } else { naive(defs, c) };
                    let got = dict.grammar().character_category.get_category_types(ch).bits();
                    if got != want {
                        sink.fail(id, &format!("characterDefinitionFile {:?} with files in {{path: {}, resource dir: {}, root dir: {}, current directory: {}}}: the file in {} must be used, but U+{:04X} has classes {:#x} instead of {:#x} (marker classes: resource dir USER2, root dir USER3, current directory USER4)",
                            name, present[0], present[1], present[2], present[3], ["`path`", "the resource directory", "the root directory", "the current directory"][selected], c, got, want), "");
                        break;
                    }
                }
            }
            other => sink.fail(id, &format!("characterDefinitionFile {:?} with files in {{path: {}, resource dir: {}, root dir: {}, cwd: {}}} did not load: {:?}", name, present[0], present[1], present[2], present[3], other.map(|r| r.map(|_| ()))), ""),
        }
    }
    for loc in [&path_dir] {
        let _ = std::fs::remove_file(loc.join(name));
    }
    let _ = std::fs::remove_dir_all(&base);
}

/// no definition line covers the code point (the reported class is then DEFAULT, which a covering marker line replaces)
fn naive_is_default(defs: &[Def], c: u32) -> bool {
    !defs.iter().any(|d| d.lo <= c && c <= d.hi && !d.cats.is_empty())
}

/// independent re-reading of a shipped definition file (for the corpus cases only)
fn parse_back(text: &str) -> Vec<Def> {
    let mut defs = vec![];
    for line in text.lines() {
        let line = line.trim();
        if !line.starts_with("0x") {
            continue;
        }
        let cols: Vec<&str> = line.split_whitespace().collect();
        let r: Vec<&str> = cols[0].split("..").collect();
        let lo = u32::from_str_radix(r[0].trim_start_matches("0x"), 16).unwrap();
        let hi = if r.len() > 1 { u32::from_str_radix(r[1].trim_start_matches("0x"), 16).unwrap() } else { lo };
        let mut cats = vec![];
        for c in &cols[1..] {
            if c.starts_with('#') {
                break;
            }
            cats.push(NAMES.iter().position(|x| x.0 == *c).unwrap());
        }
        defs.push(Def { lo, hi, cats, single: r.len() == 1 });
    }
    defs
}
