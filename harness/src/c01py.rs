//! C01 through the Python bindings: sessions on one Tokenizer with a reused output list (`out=`), per-call modes, empty and
//! blank texts anywhere; the partition predicate is evaluated in the interpreter (pyharness/run_c01.py).
use crate::common::*;
use serde_json::{json, Value};
use std::process::Command;

fn rand_text(rng: &mut Rng) -> String {
    let pool = ["東京都", "京都", "に", "行った", "。", "高輪ゲートウェイ駅", "ｶﾞ", "㍿", "Ａ", "a", "B", "1", "2,000", "é", "👍🏻", "ー", "ーー", "(たかなわ)", " ", "　", "\u{3099}", "特a", "いく", "アイス"];
    let n = rng.below(7);
    let mut s = String::new();
    for _ in 0..n {
        s.push_str(*rng.pick(&pool[..]));
    }
    s
}

fn gen_session(rng: &mut Rng) -> Value {
    let modes = ["A", "B", "C"];
    let nops = 2 + rng.below(6);
    let mut ops = vec![];
    for _ in 0..nops {
        let text = match rng.below(8) {
            0 => String::new(),
            1 => " ".to_string(),
            _ => rand_text(rng),
        };
        let mode: Value = if rng.chance(1, 3) { json!(*rng.pick(&modes[..])) } else { Value::Null };
        ops.push(json!({"text": text, "mode": mode, "out": rng.chance(2, 3)}));
    }
    json!({"mode": *rng.pick(&modes[..]), "ops": ops})
}

pub fn run(sink: &mut Sink, args: &Args, rng: &mut Rng) {
    let pypkg = std::env::var("VERIF_PYPKG").unwrap_or_default();
    let root = std::env::var("VERIF_ROOT").unwrap_or_else(|_| ".".into());
    if pypkg.is_empty() {
        sink.extra("python_sessions", json!("skipped: VERIF_PYPKG not set (pre_build py_cli did not run)"));
        return;
    }
    let res = format!("{}/python/tests/resources", repo());
    let cfg_path = format!("{}/sudachi.json", res);
    std::fs::create_dir_all(&args.work).unwrap();
    let sessions: Vec<Value> = if let Some(p) = &args.replay {
        let v: Value = serde_json::from_str(&std::fs::read_to_string(p).unwrap()).unwrap();
        if v["case"]["kind"] == "py-partition" { vec![v["case"]["session"].clone()] } else { return }
    } else {
        let mut v = vec![json!({"mode": "C", "ops": [{"text": "東京都に行った。", "mode": null, "out": true}, {"text": "", "mode": null, "out": true},
                                                     {"text": "京都", "mode": "A", "out": true}, {"text": "", "mode": "A", "out": false}, {"text": " ", "mode": null, "out": true}]})];
        for _ in 0..args.n(120, 2000) {
            v.push(gen_session(rng));
        }
        v
    };
    let sp = args.work.join("c01_sessions.json");
    let op = args.work.join("c01_py_out.json");
    std::fs::write(&sp, serde_json::to_vec(&sessions).unwrap()).unwrap();
    let _ = std::fs::remove_file(&op);
    let st = Command::new("timeout").arg("-k").arg("10").arg("900").arg("python3").arg(format!("{}/pyharness/run_c01.py", root)).arg(&cfg_path).arg(&res).arg(&sp).arg(&op).env("PYTHONPATH", &pypkg).output();
    let py: Option<Value> = std::fs::read_to_string(&op).ok().and_then(|s| serde_json::from_str(&s).ok());
    match (&st, &py) {
        (Ok(o), Some(py)) if o.status.success() => {
            sink.extra("python_exceptions", py["exceptions"].clone());
            for (i, s) in sessions.iter().enumerate() {
                sink.tag("py-partition");
                let nontrivial = s["ops"].as_array().unwrap().iter().any(|o| o["text"].as_str().map_or(false, |t| !t.is_empty()));
                let id = sink.case_rust_only(json!({"kind": "py-partition", "session": s}), nontrivial);
                let obs = py["results"][i].as_array().cloned().unwrap_or_default();
                if obs.len() != s["ops"].as_array().unwrap().len() {
                    sink.fail(id, "python driver returned no observation for this session", "");
                    continue;
                }
                for (k, o) in obs.iter().enumerate() {
                    if let Some(what) = o.as_str() {
                        sink.fail(id, &format!("python: op {} (tokenize({:?}, mode={}, out={})): {}", k, s["ops"][k]["text"].as_str().unwrap_or(""), s["ops"][k]["mode"], s["ops"][k]["out"], what), "");
                        break;
                    }
                    if args.replay.is_some() {
                        println!("op {} -> {}", k, o);
                    }
                }
            }
        }
        (Ok(o), _) => {
            let id = sink.case_rust_only(json!({"kind": "py-partition", "session": "all"}), true);
            sink.fail(id, &format!("the interpreter did not complete the sessions (status {:?}): {}", o.status.code(), String::from_utf8_lossy(&o.stderr).chars().take(400).collect::<String>()), "");
        }
        (Err(e), _) => {
            let id = sink.case_rust_only(json!({"kind": "py-partition", "session": "all"}), true);
            sink.fail(id, &format!("cannot start python3: {}", e), "");
        }
    }
}
