//! C04 — dictionary lookup returns exactly the entries that prefix-match the text.
//!
//! Dictionaries are compiled by the real `DictBuilder` from generated CSVs, layered with `LexiconSet::append`, and
//! `LexiconSet::lookup` is run at every byte offset of generated texts; `MorphemeList::lookup` gives the exact-surface
//! lookups.  The Coq side (Model/LexSet.v `check_case_c04`) (i) runs the verified enumerator `keys_of` on the trie bytes yada
//! produced and compares with the CSV index (per-dictionary certificate), (ii) evaluates the reader model at the same
//! offsets and compares with the implementation's answers and with the naive CSV scan.
use crate::common::*;
use serde_json::{json, Value};
use sudachi::analysis::mlist::MorphemeList;
use sudachi::dic::build::DictBuilder;
use sudachi::dic::header::Header;
use sudachi::dic::subset::InfoSubset;
use sudachi::analysis::stateful_tokenizer::StatefulTokenizer;
use sudachi::config::ConfigBuilder;
use sudachi::dic::dictionary::JapaneseDictionary;
use sudachi::dic::storage::{Storage, SudachiDicData};
use sudachi::dic::DictionaryLoader;
use sudachi::prelude::Mode;

const POS: [&str; 3] = ["名詞,普通名詞,一般,*,*,*", "助詞,格助詞,*,*,*,*", "動詞,一般,*,*,五段-サ行,終止形-一般"];

#[derive(Clone, Debug)]
pub struct Row {
    pub surface: String,
    pub left: i16,
}

pub fn hex(b: &[u8]) -> String {
    let mut s = String::with_capacity(b.len() * 2);
    for x in b {
        s.push_str(&format!("{:02x}", x));
    }
    s
}

/// hex with runs of zero bytes as `z` + 4 hex digits (count); decoded by Model/Trie.v hexz_bytes
pub fn hexz(b: &[u8]) -> String {
    let mut s = String::new();
    let mut i = 0;
    while i < b.len() {
        if b[i] == 0 {
            let mut j = i;
            while j < b.len() && b[j] == 0 && j - i < 0xffff {
                j += 1;
            }
            if j - i >= 3 {
                s.push_str(&format!("z{:04x}", j - i));
                i = j;
                continue;
            }
        }
        s.push_str(&format!("{:02x}", b[i]));
        i += 1;
    }
    s
}

pub fn matrix() -> Vec<u8> {
    std::fs::read(format!("{}/sudachi/tests/resources/matrix_10x10.def", repo())).expect("matrix_10x10.def")
}

fn render(rows: &[Row], rng: &mut Rng) -> String {
    let mut s = String::new();
    for r in rows {
        // a negative left id (ANY negative value, not only the customary -1) declares the row non-indexed; such a row may carry
        // a negative or an ordinary right id
        let (l, rt) = if r.left < 0 {
            (r.left, match rng.below(3) {
                0 => -1i16,
                1 => r.left,
                _ => rng.range(0, 9) as i16,
            })
        } else {
            (r.left, r.left)
        };
        let pos = *rng.pick(&POS);
        // the headword (column 4, what WordInfo::surface reports) is a column of its own: often the key, often not
        let head = match rng.below(8) {
            0 => r.surface.to_uppercase(),
            1 => format!("{}の見出し", r.surface),
            2 => "別".to_string(),
            3 => r.surface.chars().rev().collect::<String>(),
            _ => r.surface.clone(),
        };
        s.push_str(&format!("{},{},{},{},{},{},*,*,*,A,*,*,*,*\n", csv_field(&r.surface), l, rt, rng.range(-500, 9000), csv_field(&head), pos));
    }
    s
}

/// small alphabets with 1-, 2-, 3- and 4-byte characters so that keys share prefixes at byte level too
// ('#' and '\'' are ordinary key characters for the dictionary but meaningful to some CSV dialects)
// (' ', ',' and '"' too: a surface may contain them -- the CSV field is then quoted -- and they must neither be trimmed nor split)
// The second half holds spellings that Unicode normalisation (NFC / NFD / NFKC / case folding) would change, next to the
// spelling they would turn into: keys and texts are byte strings for the index, so each spelling is its own key.
const ALPHA: [&str; 38] = [
    "a", "#", "b", " ", "é", "ä", "あ", ",", "い", "ア", "'", "京", "\"", "亰", "東", "𠮟", "𠮷", "\u{10FFFF}", "\u{7f}",
    "か\u{3099}", "が", "e\u{301}", "é", "\u{212B}", "\u{C5}", "\u{212A}", "K", "\u{2126}", "\u{3A9}", "\u{FA10}", "\u{585A}", "\u{FA19}", "\u{795E}", "ｶ", "カ", "Ａ", "A", "ﬁ",
];

/// a CSV field as the csv crate's default dialect wants it: quoted when it holds a comma, a quote, a line break or outer blanks
fn csv_field(s: &str) -> String {
    if s.contains(',') || s.contains('"') || s.contains('\n') || s.starts_with(' ') || s.ends_with(' ') {
        format!("\"{}\"", s.replace('"', "\"\""))
    } else {
        s.to_string()
    }
}

/// independent reading of a lexicon CSV as far as lookup is concerned: EVERY line is a row (no header, no comment lines),
/// fields are separated by commas outside double quotes, a doubled quote inside quotes is one quote, nothing is trimmed
fn split_record(line: &str) -> Vec<String> {
    let mut out = vec![];
    let mut cur = String::new();
    let mut quoted = false;
    let mut it = line.chars().peekable();
    let mut at_start = true;
    while let Some(c) = it.next() {
        if quoted {
            if c == '"' {
                if it.peek() == Some(&'"') {
                    cur.push('"');
                    it.next();
                } else {
                    quoted = false;
                }
            } else {
                cur.push(c);
            }
        } else if c == '"' && at_start {
            quoted = true;
        } else if c == ',' {
            out.push(std::mem::take(&mut cur));
            at_start = true;
            continue;
        } else {
            cur.push(c);
        }
        at_start = false;
    }
    out.push(cur);
    out
}

fn gen_surface(rng: &mut Rng, existing: &[Row]) -> String {
    let k = rng.below(10);
    if k < 4 && !existing.is_empty() {
        // extend an existing key (so it becomes a proper prefix of the new one) or cut one (new key is a prefix)
        let base = &rng.pick(existing).surface;
        if rng.chance(1, 2) {
            let mut s = base.clone();
            for _ in 0..1 + rng.below(2) {
                s.push_str(*rng.pick(&ALPHA[..]));
            }
            return s;
        }
        let n = base.chars().count();
        if n > 1 {
            let keep = 1 + rng.below((n - 1) as u64) as usize;
            return base.chars().take(keep).collect();
        }
    }
    if k < 6 && !existing.is_empty() {
        return rng.pick(existing).surface.clone(); // homograph
    }
    let n = 1 + rng.below(4);
    let mut s = String::new();
    // sub-alphabet per key keeps collisions frequent
    let lo = rng.below(ALPHA.len() as u64 - 3) as usize;
    for _ in 0..n {
        s.push_str(ALPHA[lo + rng.below(4) as usize]);
    }
    s
}

fn gen_rows(rng: &mut Rng, shared: &[Row], shape: u64) -> Vec<Row> {
    let n = match shape {
        0 => 1 + rng.below(4),
        1 => 1 + rng.below(12),
        _ => 4 + rng.below(22),
    } as usize;
    let mut rows: Vec<Row> = vec![];
    for _ in 0..n {
        let surface = if !shared.is_empty() && rng.chance(1, 3) {
            // same or related key as in another layer
            let pool: Vec<Row> = shared.to_vec();
            gen_surface(rng, &pool)
        } else {
            gen_surface(rng, &rows)
        };
        let left = if rng.chance(1, 5) { *rng.pick(&[-1i16, -1, -1, -2, -3, -7, -100, -32768]) } else { rng.range(0, 9) as i16 };
        rows.push(Row { surface, left });
    }
    // a lexicon without a single indexed row makes the yada builder assert (`labels.len() > 0`): that panic belongs to the
    // compiler-totality property (C06), not to lookup; every generated lexicon here keeps at least one indexed row
    if rows.iter().all(|r| r.left < 0) {
        rows[0].left = 0;
    }
    rows
}

pub struct Built {
    pub bytes: Vec<u8>,
}

pub fn build_system(csv: &str) -> Result<Vec<u8>, String> {
    let m = matrix();
    let r = catch(|| -> Result<Vec<u8>, String> {
        let mut b = DictBuilder::new_system();
        b.read_conn(&m[..]).map_err(|e| format!("{:?}", e))?;
        b.read_lexicon(csv.as_bytes()).map_err(|e| format!("{:?}", e))?;
        b.resolve().map_err(|e| format!("{:?}", e))?;
        let mut out = vec![];
        b.compile(&mut out).map_err(|e| format!("{:?}", e))?;
        Ok(out)
    });
    match r {
        Ok(x) => x,
        Err(p) => Err(format!("PANIC {}", p)),
    }
}

pub fn build_user_bare(sys: &[u8], csv: &str) -> Result<Vec<u8>, String> {
    let r = catch(|| -> Result<Vec<u8>, String> {
        let loaded = DictionaryLoader::read_system_dictionary(sys).map_err(|e| format!("{:?}", e))?.to_loaded().ok_or("no grammar")?;
        let mut b = DictBuilder::new_user(&loaded);
        b.read_lexicon(csv.as_bytes()).map_err(|e| format!("{:?}", e))?;
        b.resolve().map_err(|e| format!("{:?}", e))?;
        let mut out = vec![];
        b.compile(&mut out).map_err(|e| format!("{:?}", e))?;
        Ok(out)
    });
    match r {
        Ok(x) => x,
        Err(p) => Err(format!("PANIC {}", p)),
    }
}

/// (trie section, word-id-table section) of a compiled dictionary, located the way Lexicon::parse does
pub fn sections(bytes: &[u8], system: bool) -> (Vec<u8>, Vec<u8>) {
    let dl = if system { DictionaryLoader::read_system_dictionary(bytes).unwrap() } else { DictionaryLoader::read_user_dictionary(bytes).unwrap() };
    let mut off = Header::STORAGE_SIZE;
    if let Some(g) = &dl.grammar {
        off += g.storage_size;
    }
    let rd = |o: usize| u32::from_le_bytes([bytes[o], bytes[o + 1], bytes[o + 2], bytes[o + 3]]) as usize;
    let tsz = rd(off);
    let trie = bytes[off + 4..off + 4 + 4 * tsz].to_vec();
    off += 4 + 4 * tsz;
    let wsz = rd(off);
    let tbl = bytes[off + 4..off + 4 + wsz].to_vec();
    (trie, tbl)
}

fn naive(all: &[Vec<Row>], text: &[u8], off: usize) -> Vec<(u32, usize)> {
    let mut v = vec![];
    for (d, rows) in all.iter().enumerate() {
        for (i, r) in rows.iter().enumerate() {
            if r.left >= 0 && off <= text.len() && text[off..].starts_with(r.surface.as_bytes()) {
                v.push((((d as u32) << 28) | i as u32, off + r.surface.len()));
            }
        }
    }
    v.sort();
    v
}

/// The dictionary nodes of the implementation's lattice for `text` (hook Lattice::verif_nodes), per character position the
/// loop of build_lattice processed, against the CSV: (Coq term for check_lattice, first discrepancy found by the Rust oracle)
fn lattice_obs(dict: &JapaneseDictionary, all: &[Vec<Row>], text: &str, verbose: bool) -> Result<(String, Option<String>), String> {
    let tb = text.as_bytes();
    let mut tok = StatefulTokenizer::create(dict, false, Mode::C);
    tok.reset().push_str(text);
    tok.do_tokenize().map_err(|e| format!("{:?}", e))?;
    let lat = tok.verif_lattice();
    let inp = tok.verif_input();
    if inp.current() != text {
        return Err("the analysed text was rewritten although no input text plugin is configured".to_string());
    }
    let n = lat.verif_size() - 1;
    let offs: Vec<usize> = inp.curr_byte_offsets().to_vec();
    let mut by_begin: Vec<Vec<(u32, usize)>> = vec![vec![]; n + 1];
    let mut ends_here = vec![false; n + 1];
    for e in 1..=n {
        for nd in lat.verif_nodes(e) {
            ends_here[e] = true;
            if nd.word_id >> 28 != 15 {
                by_begin[nd.begin].push((nd.word_id, e));
            }
        }
    }
    let mut bad: Option<String> = None;
    let mut obs = vec![];
    for p in 0..n {
        if p != 0 && !ends_here[p] {
            if !by_begin[p].is_empty() && bad.is_none() {
                bad = Some(format!("text {:?}: nodes begin at character {} although nothing ends there", text, p));
            }
            continue;
        }
        let mut want: Vec<(u32, usize)> = vec![];
        for (w, e) in naive(all, tb, offs[p]) {
            if e < tb.len() && !inp.can_bow(e) {
                continue;
            }
            if !text.is_char_boundary(e) {
                if bad.is_none() {
                    bad = Some(format!("text {:?}: entry {:#x} found at byte {} ends at byte {}, inside a character", text, w, offs[p], e));
                }
                continue;
            }
            want.push((w, text[..e].chars().count()));
        }
        want.sort();
        let mut got = by_begin[p].clone();
        got.sort();
        if verbose {
            println!("lattice text={:?} char {} (byte {}): dictionary nodes (word id, char end) {:?}; CSV + can_bow gives {:?}", text, p, offs[p], got, want);
        }
        if got != want && bad.is_none() {
            bad = Some(format!("text {:?}: dictionary nodes beginning at character {} (byte {}) are {:?} (word id, char end), CSV scan + can_bow filter gives {:?}", text, p, offs[p], got, want));
        }
        for (_, e) in &got {
            if !(p < *e && *e <= n) && bad.is_none() {
                bad = Some(format!("text {:?}: node at character {} has end {} outside ({}, {}]", text, p, e, p, n));
            }
        }
        obs.push(format!("({}%nat, {})", p, clist(by_begin[p].iter().map(|(w, e)| cpair(&cn(*w), &cnu(*e))))));
    }
    let bow: Vec<u8> = (0..tb.len()).map(|i| if inp.can_bow(i) { 1 } else { 0 }).collect();
    Ok((format!("(\"{}\"%string, \"{}\"%string, {})", hex(tb), hex(&bow), clist(obs)), bad))
}

// ---------------------------------------------------------------------------------------------------------------------
// hand-made double arrays fed straight to the reader (Trie::new_owned + common_prefix_iterator): the reader takes any u32
// array, and a compiled lexicon of test size never contains the WIDE form of a unit's offset (bit 9 set, offset stored
// >> 8; yada uses it for relative offsets >= 2^21).  The little builder below lays a key set out in a few 256-unit blocks
// and writes an offset in the wide form whenever it is a multiple of 256.
struct RawNode {
    children: std::collections::BTreeMap<u8, RawNode>,
    value: Option<u32>,
}

fn raw_place(rng: &mut Rng, node: &RawNode, pos: usize, units: &mut Vec<u32>, used: &mut Vec<bool>, bases: &mut Vec<bool>, prefer_wide: bool, nwide: &mut usize) -> bool {
    let len = units.len();
    let nblocks = len / 256;
    let mut cands: Vec<usize> = vec![];
    if prefer_wide {
        let mut ks: Vec<usize> = (1..nblocks).collect();
        for i in (1..ks.len()).rev() {
            ks.swap(i, rng.below(i as u64 + 1) as usize);
        }
        for k in ks {
            cands.push(pos ^ (k << 8));
        }
    }
    for _ in 0..200 {
        cands.push(rng.below(len as u64) as usize);
    }
    for base in cands {
        // two nodes must not share a base: their children would be reachable from both
        if base >= len || bases[base] {
            continue;
        }
        let mut ok = true;
        if node.value.is_some() && used[base] {
            ok = false;
        }
        for c in node.children.keys() {
            if used[base ^ (*c as usize)] {
                ok = false;
            }
        }
        if !ok {
            continue;
        }
        bases[base] = true;
        let o = pos ^ base;
        let enc = if o != 0 && o & 0xff == 0 && prefer_wide {
            *nwide += 1;
            (((o >> 8) as u32) << 10) | (1 << 9)
        } else {
            (o as u32) << 10
        };
        units[pos] |= enc | if node.value.is_some() { 1 << 8 } else { 0 };
        if let Some(v) = node.value {
            used[base] = true;
            units[base] = v | (1 << 31);
        }
        for c in node.children.keys() {
            let p = base ^ (*c as usize);
            used[p] = true;
            units[p] = *c as u32;
        }
        for (c, ch) in node.children.iter() {
            if !raw_place(rng, ch, base ^ (*c as usize), units, used, bases, prefer_wide, nwide) {
                return false;
            }
        }
        return true;
    }
    false
}

fn raw_build(rng: &mut Rng, keys: &[(Vec<u8>, u32)], nblocks: usize, prefer_wide: bool) -> Option<(Vec<u32>, usize)> {
    let mut root = RawNode { children: Default::default(), value: None };
    for (k, v) in keys {
        let mut n = &mut root;
        for b in k {
            n = n.children.entry(*b).or_insert_with(|| RawNode { children: Default::default(), value: None });
        }
        n.value = Some(*v);
    }
    let mut units = vec![0u32; 256 * nblocks];
    let mut used = vec![false; 256 * nblocks];
    used[0] = true;
    let mut bases = vec![false; 256 * nblocks];
    let mut nwide = 0;
    if raw_place(rng, &root, 0, &mut units, &mut used, &mut bases, prefer_wide, &mut nwide) {
        Some((units, nwide))
    } else {
        None
    }
}

/// node position reached after `key` in a hand-made array (harness-side helper to find where nodes and value units lie)
fn raw_walk(units: &[u32], key: &[u8]) -> Option<usize> {
    let off = |u: u32| ((u >> 10) << ((u & 512) >> 6)) as usize;
    let mut pos = off(units[0]);
    for &k in key {
        let p = pos ^ k as usize;
        let u = *units.get(p)?;
        if u & 0x8000_00FF != k as u32 {
            return None;
        }
        pos = p ^ off(u);
    }
    Some(pos)
}

/// all prefixes (the empty one included) of the keys
fn key_prefixes(keys: &[(Vec<u8>, u32)]) -> Vec<Vec<u8>> {
    let mut v: Vec<Vec<u8>> = vec![vec![]];
    for (k, _) in keys {
        for n in 1..=k.len() {
            if !v.contains(&k[..n].to_vec()) {
                v.push(k[..n].to_vec());
            }
        }
    }
    v
}

/// VALUE units (bit 31 set) lie in the same blocks as label units.  Give as many values as possible a low byte that equals
/// the byte leading from some node of the same block to the value unit's slot: a reader that tells labels from values by the
/// low byte alone would take the value unit for a child.  Returns the probe texts (prefix of the node + that byte + one more).
fn raw_craft_values(units: &mut Vec<u32>, keys: &mut Vec<(Vec<u8>, u32)>) -> Vec<Vec<u8>> {
    let prefixes = key_prefixes(keys);
    let bases: Vec<(Vec<u8>, usize)> = prefixes.iter().filter_map(|p| raw_walk(units, p).map(|b| (p.clone(), b))).collect();
    let mut probes = vec![];
    for ki in 0..keys.len() {
        let slot = match raw_walk(units, &keys[ki].0) {
            Some(b) => b,
            None => continue,
        };
        if units[slot] >> 31 != 1 {
            continue;
        }
        for (pre, b) in &bases {
            let k = (b ^ slot) & 0xff;
            if b >> 8 == slot >> 8 && k != 0 && *b != slot {
                let v = (keys[ki].1 & !0xff) | k as u32;
                keys[ki].1 = v;
                units[slot] = v | (1 << 31);
                let mut t = pre.clone();
                t.push(k as u8);
                t.push(b'a');
                probes.push(t);
                break;
            }
        }
    }
    probes
}

/// after every accepted prefix probe all 255 next bytes (followed by one more byte): nothing may match unless a key continues
fn raw_probe_all(trie: &sudachi::dic::lexicon::trie::Trie, keys: &[(Vec<u8>, u32)]) -> Option<String> {
    for pre in key_prefixes(keys) {
        for k in 1..=255u8 {
            let mut t = pre.clone();
            t.push(k);
            t.push(b'a');
            // (`as usize`: whatever integer type the entry carries)
            let r = catch(|| trie.common_prefix_iterator(&t, 0).map(|e| (e.value, e.end as usize)).collect::<Vec<(u32, usize)>>());
            let mut want: Vec<(u32, usize)> = keys.iter().filter(|(key, _)| t.starts_with(key)).map(|(key, v)| (*v, key.len())).collect();
            want.sort_by_key(|x| x.1);
            match r {
                Ok(v) if v == want => {}
                Ok(v) => return Some(format!("hand-made double array, probing byte {:#04x} after the accepted prefix {}: text {} offset 0: common_prefix_iterator gives {:?}, the key set gives {:?} (value, end)", k, hex(&pre), hex(&t), v, want)),
                Err(p) => return Some(format!("hand-made double array, probing byte {:#04x} after the accepted prefix {}: text {} offset 0: traversal panicked: {}", k, hex(&pre), hex(&t), p)),
            }
        }
    }
    None
}

fn run_raw_case(sink: &mut Sink, units: &[u32], keys: &[(Vec<u8>, u32)], texts: &[Vec<u8>], nwide: usize, verbose: bool) {
    use sudachi::dic::lexicon::trie::Trie;
    let d = json!({"kind": "c04-raw", "units": units, "keys": keys.iter().map(|(k, v)| json!([hex(k), v])).collect::<Vec<_>>(),
                   "texts": texts.iter().map(|t| hex(t)).collect::<Vec<_>>(), "wide_offsets": nwide});
    let trie = Trie::new_owned(units.to_vec());
    let mut bad: Option<String> = raw_probe_all(&trie, keys);
    sink.tag("raw_array_all_next_bytes_probed");
    let mut qterms = vec![];
    let mut hits = 0;
    for t in texts {
        let mut outs = vec![];
        for off in 0..=t.len() {
            let r = catch(|| trie.common_prefix_iterator(t, off).map(|e| (e.value, e.end as usize)).collect::<Vec<(u32, usize)>>());
            let mut want: Vec<(u32, usize)> = keys.iter().filter(|(k, _)| t[off..].starts_with(k)).map(|(k, v)| (*v, off + k.len())).collect();
            want.sort_by_key(|x| x.1);
            match r {
                Ok(v) => {
                    if verbose {
                        println!("impl  raw text={} off={} -> {:?}; key set gives {:?}", hex(t), off, v, want);
                    }
                    if v != want && bad.is_none() {
                        bad = Some(format!("hand-made double array ({} wide offsets), text {} offset {}: common_prefix_iterator gives {:?}, the key set gives {:?} (value, end)", nwide, hex(t), off, v, want));
                    }
                    hits += v.len();
                    outs.push(clist(v.iter().map(|(w, e)| cpair(&cn(*w), &cnu(*e)))));
                }
                Err(p) => {
                    if bad.is_none() {
                        bad = Some(format!("hand-made double array, text {} offset {}: traversal panicked: {}", hex(t), off, p));
                    }
                    outs.push("[]".to_string());
                }
            }
        }
        qterms.push(format!("(\"{}\"%string, {})", hex(t), clist(outs)));
    }
    let mut bytes = vec![];
    for u in units {
        bytes.extend_from_slice(&u.to_le_bytes());
    }
    let fuel = keys.iter().map(|k| k.0.len()).max().unwrap_or(0) + 1;
    let kterms = clist(keys.iter().map(|(k, v)| format!("(\"{}\"%string, {})", hex(k), cn(*v))));
    let term = format!("check_case_c04_raw \"{}\"%string {}%nat {} {}", hexz(&bytes), fuel, kterms, clist(qterms));
    sink.tag("raw_array");
    sink.tag(if nwide > 0 { "raw_array_with_wide_offsets" } else { "raw_array_narrow_only" });
    let id = sink.case(term, d, hits >= 2 && nwide > 0);
    if let Some(b) = bad {
        if verbose {
            println!("FAIL: {}", b);
        }
        sink.fail(id, &b, "");
    }
}

fn gen_raw_case(rng: &mut Rng) -> Option<(Vec<u32>, Vec<(Vec<u8>, u32)>, Vec<Vec<u8>>, usize)> {
    let alpha: Vec<&[u8]> = vec![b"a", b"b", b"c", "あ".as_bytes(), "ア".as_bytes(), "𠮟".as_bytes()];
    let nk = 2 + rng.below(7) as usize;
    let mut keys: Vec<(Vec<u8>, u32)> = vec![];
    for _ in 0..nk {
        let mut k: Vec<u8> = if !keys.is_empty() && rng.chance(1, 2) { rng.pick(&keys).0.clone() } else { vec![] };
        for _ in 0..1 + rng.below(2) {
            k.extend_from_slice(*rng.pick(&alpha[..]));
        }
        if keys.iter().all(|x| x.0 != k) {
            keys.push((k, rng.below(1 << 20) as u32));
        }
    }
    let nblocks = 2 + rng.below(3) as usize;
    let prefer_wide = !rng.chance(1, 5);
    let (mut units, nwide) = raw_build(rng, &keys, nblocks, prefer_wide)?;
    let mut texts = raw_craft_values(&mut units, &mut keys);
    texts.truncate(4);
    for _ in 0..3 {
        let mut t = vec![];
        for _ in 0..1 + rng.below(3) {
            if rng.chance(3, 4) {
                t.extend_from_slice(&rng.pick(&keys).0);
            } else {
                t.extend_from_slice(*rng.pick(&alpha[..]));
            }
        }
        texts.push(t);
    }
    Some((units, keys, texts, nwide))
}

fn gen_text(rng: &mut Rng, all: &[Vec<Row>]) -> String {
    let mut s = String::new();
    let n = 1 + rng.below(4);
    for _ in 0..n {
        if rng.chance(1, 12) {
            // NUL is a legal character of a text; the double array uses label 0 as its terminator
            s.push('\u{0}');
        }
        if rng.chance(3, 4) {
            let rows = rng.pick(all);
            let w = &rng.pick(rows).surface;
            if rng.chance(1, 10) && w.chars().count() > 1 {
                // a key with a NUL inserted after its first character
                let mut it = w.chars();
                s.push(it.next().unwrap());
                s.push('\u{0}');
                s.extend(it);
            } else {
                s.push_str(w);
            }
        } else {
            s.push_str(*rng.pick(&ALPHA[..]));
        }
        if s.len() > 26 {
            break;
        }
    }
    s
}

fn desc(csvs: &[String], texts: &[String], exacts: &[String]) -> Value {
    let cli = CLI_FILES.with(|c| c.borrow().clone());
    match cli {
        Some(files) => json!({"kind": "c04", "csvs": csvs, "texts": texts, "exacts": exacts,
                              "cli_build_files_in_given_order": files.iter().map(|(n, t)| json!([n, t])).collect::<Vec<_>>()}),
        None => json!({"kind": "c04", "csvs": csvs, "texts": texts, "exacts": exacts}),
    }
}

thread_local! {
    /// when set: dictionary 0 of the next case is built by the command-line tool (`sudachi build`) from these lexicon files,
    /// given on the command line in this order (a name may occur more than once)
    static CLI_FILES: std::cell::RefCell<Option<Vec<(String, String)>>> = std::cell::RefCell::new(None);
    static CLI_DIR: std::cell::RefCell<std::path::PathBuf> = std::cell::RefCell::new(std::path::PathBuf::from("."));
}

/// `sudachi build -m matrix -o out -d c04 <files in the given order>` with the tool built from the working tree
fn cli_build_system(files: &[(String, String)]) -> Result<Vec<u8>, String> {
    let cli = std::env::var("VERIF_CLI_BIN").unwrap_or_default();
    if cli.is_empty() || !std::path::Path::new(&cli).exists() {
        return Err("NO-CLI".to_string());
    }
    let dir = CLI_DIR.with(|d| d.borrow().clone()).join("c04_cli");
    let _ = std::fs::remove_dir_all(&dir);
    std::fs::create_dir_all(&dir).map_err(|e| e.to_string())?;
    for (n, t) in files {
        std::fs::write(dir.join(n), t).map_err(|e| e.to_string())?;
    }
    let out = dir.join("out.dic");
    let mut cmd = std::process::Command::new(&cli);
    cmd.arg("build").arg("-m").arg(format!("{}/sudachi/tests/resources/matrix_10x10.def", repo())).arg("-o").arg(&out).arg("-d").arg("c04");
    for (n, _) in files {
        cmd.arg(dir.join(n));
    }
    cmd.env("RUST_BACKTRACE", "0");
    let o = cmd.output().map_err(|e| format!("cannot start {}: {}", cli, e))?;
    if !o.status.success() {
        return Err(format!("`sudachi build` failed ({:?}): {}", o.status.code(), String::from_utf8_lossy(&o.stderr).chars().take(300).collect::<String>()));
    }
    std::fs::read(&out).map_err(|e| format!("`sudachi build` wrote no dictionary: {}", e))
}

fn parse_rows(csv: &str) -> Vec<Row> {
    csv.lines()
        .filter(|l| !l.is_empty())
        .map(|l| {
            let c = split_record(l);
            Row { surface: c[0].clone(), left: c[1].parse().unwrap() }
        })
        .collect()
}

/// one case: a stack of dictionaries given by their CSV texts (first = system), texts, exact queries
fn run_case(sink: &mut Sink, csvs: &[String], texts: &[String], exacts: &[String], expect_ok: bool, verbose: bool) {
    let all: Vec<Vec<Row>> = csvs.iter().map(|c| parse_rows(c)).collect();
    let d = desc(csvs, texts, exacts);
    // compile
    let mut bins: Vec<Vec<u8>> = vec![];
    for (i, csv) in csvs.iter().enumerate() {
        let cli_files = if i == 0 { CLI_FILES.with(|c| c.borrow().clone()) } else { None };
        let r = match (&cli_files, i) {
            (Some(files), 0) => {
                sink.tag("dictionary_built_by_sudachi_build");
                cli_build_system(files)
            }
            (_, 0) => build_system(csv),
            _ => build_user_bare(&bins[0], csv),
        };
        if let Err(e) = &r {
            if e == "NO-CLI" {
                sink.tag("cli_stage_skipped_no_VERIF_CLI_BIN");
                return;
            }
        }
        match r {
            Ok(b) => bins.push(b),
            Err(e) => {
                let id = sink.case_rust_only(d.clone(), false);
                if e.starts_with("PANIC") {
                    sink.fail(id, &format!("dictionary builder panicked on dictionary {}: {}", i, e), "");
                } else if expect_ok {
                    sink.fail(id, &format!("well-formed lexicon {} rejected by the builder: {}", i, e), "");
                } else {
                    sink.tag("compile_rejected_malformed");
                }
                if verbose {
                    println!("builder: {}", e);
                }
                return;
            }
        }
    }
    // layer
    let sysl = DictionaryLoader::read_system_dictionary(&bins[0]).unwrap();
    let mut loaded = sysl.to_loaded().unwrap();
    let mut too_many = false;
    for b in bins.iter().skip(1) {
        let ul = DictionaryLoader::read_user_dictionary(b).unwrap();
        let npos = loaded.grammar.pos_list.len();
        if loaded.lexicon_set.append(ul.lexicon, npos).is_err() {
            too_many = true;
            break;
        }
    }
    if too_many {
        let id = sink.case_rust_only(d.clone(), false);
        if csvs.len() <= 15 {
            sink.fail(id, &format!("a stack of {} dictionaries was rejected", csvs.len()), "");
        } else {
            sink.tag("sixteenth_layer_rejected");
        }
        return;
    }
    if csvs.len() > 15 {
        let id = sink.case_rust_only(d.clone(), false);
        sink.fail(id, "a 16th dictionary was accepted by LexiconSet::append", "");
        return;
    }
    // lookups at every byte offset
    let mut bad: Option<String> = None;
    // directed probing of the compiled arrays: after every accepted prefix of a key try all 255 next bytes (plus one more byte);
    // nothing may be returned unless a key continues that way
    if csvs.len() <= 2 {
        let mut prefixes: Vec<Vec<u8>> = vec![vec![]];
        for rows in &all {
            for r in rows.iter().filter(|r| r.left >= 0) {
                let b = r.surface.as_bytes();
                for n in 1..=b.len() {
                    if prefixes.len() < 48 && !prefixes.contains(&b[..n].to_vec()) {
                        prefixes.push(b[..n].to_vec());
                    }
                }
            }
        }
        'probe: for pre in &prefixes {
            for k in 1..=255u8 {
                let mut t = pre.clone();
                t.push(k);
                t.push(b'a');
                let r = catch(|| loaded.lexicon_set.lookup(&t, 0).map(|e| (e.word_id.as_raw(), e.end as usize)).collect::<Vec<_>>());
                let nv = naive(&all, &t, 0);
                match r {
                    Ok(mut v) => {
                        v.sort();
                        if v != nv {
                            bad = Some(format!("probing byte {:#04x} after the accepted prefix {}: bytes {} offset 0: lookup gives {:?}, CSV scan gives {:?} ((dic<<28|word), end)", k, hex(pre), hex(&t), v, nv));
                            break 'probe;
                        }
                    }
                    Err(p) => {
                        bad = Some(format!("probing byte {:#04x} after the accepted prefix {}: bytes {} offset 0: lookup panicked: {}", k, hex(pre), hex(&t), p));
                        break 'probe;
                    }
                }
            }
        }
        sink.tag("compiled_array_all_next_bytes_probed");
    }
    let mut qterms = vec![];
    let mut total_hits = 0usize;
    for t in texts {
        let tb = t.as_bytes();
        let mut outs = vec![];
        for off in 0..=tb.len() {
            let r = catch(|| loaded.lexicon_set.lookup(tb, off).map(|e| (e.word_id.as_raw(), e.end as usize)).collect::<Vec<(u32, usize)>>());
            match r {
                Ok(v) => {
                    let mut s = v.clone();
                    s.sort();
                    let nv = naive(&all, tb, off);
                    if s != nv && bad.is_none() {
                        bad = Some(format!("text {:?} offset {}: lookup gives {:?}, CSV scan gives {:?} ((dic<<28|word), end)", t, off, s, nv));
                    }
                    if verbose {
                        println!("impl  text={:?} off={} -> {:?}", t, off, v);
                        println!("naive text={:?} off={} -> {:?}", t, off, nv);
                    }
                    total_hits += v.len();
                    outs.push(clist(v.iter().map(|(w, e)| cpair(&cn(*w), &cnu(*e)))));
                }
                Err(p) => {
                    if bad.is_none() {
                        bad = Some(format!("text {:?} offset {}: lookup panicked: {}", t, off, p));
                    }
                    outs.push("[]".to_string());
                }
            }
        }
        qterms.push(format!("(\"{}\"%string, {})", hex(tb), clist(outs)));
    }
    // the same stack as a JapaneseDictionary: the lattice nodes build_lattice makes from lookup results
    let mut lterms = vec![];
    {
        let pos0: Vec<&str> = POS[0].split(',').collect();
        let cfgj = json!({"path": format!("{}/sudachi/tests/resources", repo()), "characterDefinitionFile": "char.def",
            "oovProviderPlugin": [{"class": "com.worksap.nlp.sudachi.SimpleOovPlugin", "oovPOS": pos0, "leftId": 0, "rightId": 0, "cost": 30000, "userPOS": "allow"}]})
        .to_string();
        let r = catch(|| -> Result<JapaneseDictionary, String> {
            let cfg = ConfigBuilder::from_bytes(cfgj.as_bytes()).map_err(|e| format!("{:?}", e))?.build();
            let mut st = SudachiDicData::new(Storage::Owned(bins[0].clone()));
            for b in bins.iter().skip(1) {
                st.add_user(Storage::Owned(b.clone()));
            }
            JapaneseDictionary::from_cfg_storage(&cfg, st).map_err(|e| format!("{:?}", e))
        });
        match r {
            Ok(Ok(dict)) => {
                for t in texts {
                    match catch(|| lattice_obs(&dict, &all, t, verbose)) {
                        Ok(Ok((term, b))) => {
                            lterms.push(term);
                            sink.tag("lattice_checked");
                            if bad.is_none() {
                                bad = b;
                            }
                        }
                        Ok(Err(e)) => {
                            if bad.is_none() {
                                bad = Some(format!("tokenizing {:?} failed: {}", t, e));
                            }
                        }
                        Err(p) => {
                            if bad.is_none() {
                                bad = Some(format!("tokenizing {:?} panicked: {}", t, p));
                            }
                        }
                    }
                }
            }
            Ok(Err(e)) | Err(e) => {
                if bad.is_none() {
                    bad = Some(format!("the stack does not load as a JapaneseDictionary: {}", e));
                }
            }
        }
    }
    let mut eterms = vec![];
    let mut aterms: Vec<String> = vec![];
    for q in exacts {
        let r = catch(|| {
            let mut ml = MorphemeList::empty(&loaded);
            let n = ml.lookup(q, InfoSubset::empty()).map_err(|e| format!("{:?}", e))?;
            let ids: Vec<u32> = (0..ml.len()).map(|i| ml.get(i).word_id().as_raw()).collect();
            // the dictionary number as the public accessors report it (not recomputed from the raw word id)
            let acc: Vec<(i32, bool)> = (0..ml.len()).map(|i| (ml.get(i).dictionary_id(), ml.get(i).is_oov())).collect();
            if n != ids.len() {
                return Err(format!("lookup returned {} but the list holds {}", n, ids.len()));
            }
            Ok::<_, String>((ids, acc))
        });
        match r {
            Ok(Ok((ids, acc))) => {
                for (w, (did, oov)) in ids.iter().zip(acc.iter()) {
                    if (*did != (*w >> 28) as i32 || *oov) && bad.is_none() {
                        bad = Some(format!("exact lookup of {:?}: entry (dictionary {}, word {}) reports Morpheme::dictionary_id() = {}, is_oov() = {}", q, w >> 28, w & 0x0fff_ffff, did, oov));
                    }
                    aterms.push(format!("({}, {}, {})", cn(*w), cz(*did as i64), cbool(*oov)));
                }
                if ids.iter().any(|w| w >> 28 >= 8) {
                    sink.tag("exact_lookup_hit_in_dictionary_8_or_later");
                }
                let mut s = ids.clone();
                s.sort();
                let mut nv: Vec<u32> = vec![];
                for (d, rows) in all.iter().enumerate() {
                    for (i, r) in rows.iter().enumerate() {
                        if r.left >= 0 && r.surface == *q {
                            nv.push(((d as u32) << 28) | i as u32);
                        }
                    }
                }
                nv.sort();
                if s != nv && bad.is_none() {
                    bad = Some(format!("exact lookup of {:?} gives {:?}, CSV has {:?}", q, s, nv));
                }
                if verbose {
                    println!("impl  exact {:?} -> {:?}; CSV {:?}", q, ids, nv);
                }
                total_hits += ids.len();
                eterms.push(format!("(\"{}\"%string, {})", hex(q.as_bytes()), clist(ids.iter().map(|w| cn(*w)))));
            }
            Ok(Err(e)) => {
                if bad.is_none() {
                    bad = Some(format!("exact lookup of {:?} failed: {}", q, e));
                }
            }
            Err(p) => {
                if bad.is_none() {
                    bad = Some(format!("exact lookup of {:?} panicked: {}", q, p));
                }
            }
        }
    }
    let mut dterms = vec![];
    let mut fuel = 1usize;
    for (i, b) in bins.iter().enumerate() {
        let (trie, tbl) = sections(b, i == 0);
        let rows = clist(all[i].iter().map(|r| {
            fuel = fuel.max(r.surface.len() + 1);
            format!("(\"{}\"%string, {})", hex(r.surface.as_bytes()), cz(r.left as i64))
        }));
        dterms.push(format!("(\"{}\"%string, \"{}\"%string, {})", hexz(&trie), hex(&tbl), rows));
        sink.tag(&format!("trie_units={}", trie.len() / 4 / 256 * 256));
    }
    let term = format!("check_case_c04M {} {}%nat {} {} {} {}", clist(dterms), fuel, clist(qterms), clist(eterms), clist(lterms), clist(aterms));
    // shape tags
    sink.tag(&format!("layers={}", csvs.len()));
    let nrows: usize = all.iter().map(|r| r.len()).sum();
    sink.tag(&format!("rows={}", match nrows { 0..=5 => "1-5", 6..=20 => "6-20", 21..=60 => "21-60", _ => "61+" }));
    let mut max_homo = 0;
    let mut has_prefix_pair = false;
    let mut has_astral = false;
    let mut has_nonindexed = false;
    for rows in &all {
        for r in rows {
            let c = rows.iter().filter(|x| x.surface == r.surface && x.left >= 0).count();
            max_homo = max_homo.max(c);
            if rows.iter().any(|x| x.surface != r.surface && x.surface.starts_with(&r.surface)) {
                has_prefix_pair = true;
            }
            if r.surface.chars().any(|c| c as u32 > 0xFFFF) {
                has_astral = true;
            }
            if r.left < 0 {
                has_nonindexed = true;
            }
        }
    }
    sink.tag(&format!("max_homographs={}", match max_homo { 0..=1 => "1", 2..=5 => "2-5", 6..=126 => "6-126", _ => "127" }));
    if has_prefix_pair {
        sink.tag("key_is_prefix_of_other");
    }
    if has_astral {
        sink.tag("astral_chars");
    }
    if has_nonindexed {
        sink.tag("non_indexed_rows");
    }
    if texts.iter().any(|t| t.contains('\u{0}')) {
        sink.tag("nul_in_text");
    }
    let nontrivial = total_hits >= 2 && (has_prefix_pair || max_homo > 1 || csvs.len() > 1);
    // keys of more than a thousand bytes: the certificate's enumerator is quadratic in the depth, the case is checked by the
    // CSV scan only (the reader theorem is unbounded in the key length; the fact lookup_input_untruncated ties it)
    let id = if fuel > 600 { sink.case_rust_only(d, nontrivial) } else { sink.case(term, d, nontrivial) };
    let bad = match (bad, CLI_FILES.with(|c| c.borrow().clone())) {
        (Some(b), Some(files)) => Some(format!("dictionary written by `sudachi build {}` (word number = position of the row in the files as given): {}", files.iter().map(|f| f.0.clone()).collect::<Vec<_>>().join(" "), b)),
        (b, _) => b,
    };
    if let Some(b) = bad {
        if verbose {
            println!("FAIL: {}", b);
        }
        sink.fail(id, &b, "");
    }
}

fn gen_case(rng: &mut Rng, layers: usize, shape: u64) -> (Vec<String>, Vec<String>, Vec<String>) {
    let mut all: Vec<Vec<Row>> = vec![];
    let mut csvs = vec![];
    for l in 0..layers {
        let shared: Vec<Row> = if l > 0 { all[rng.below(l as u64) as usize].clone() } else { vec![] };
        let rows = gen_rows(rng, &shared, if layers > 6 { 0 } else { shape });
        csvs.push(render(&rows, rng));
        all.push(rows);
    }
    let nt = if layers > 6 { 2 } else { 3 };
    let texts: Vec<String> = (0..nt).map(|_| gen_text(rng, &all)).collect();
    let mut exacts: Vec<String> = vec![];
    for _ in 0..(4 + rng.below(5)) {
        let rows = rng.pick(&all);
        let s = rng.pick(rows).surface.clone();
        match rng.below(5) {
            0 => {
                // a proper prefix / extension of a key: usually not a key itself
                let n = s.chars().count();
                if n > 1 {
                    exacts.push(s.chars().take(n - 1).collect());
                } else {
                    exacts.push(format!("{}{}", s, *rng.pick(&ALPHA[..])));
                }
            }
            _ => exacts.push(s),
        }
    }
    exacts.sort();
    exacts.dedup();
    (csvs, texts, exacts)
}

pub fn run(args: &Args) {
    let mut sink = Sink::new("C04", &args.out, &["Model.LexSet", "Model.IndexBuild", "Model.DictCands"], args.seed, &args.tier);
    CLI_DIR.with(|d| *d.borrow_mut() = args.work.clone());
    sink.shard_size = 12;
    sink.rule("stacks of 1..15 dictionaries compiled by DictBuilder from generated CSVs (keys over a 16-letter alphabet of 1/2/3/4-byte characters incl. '#' and the apostrophe; keys extended/cut from other keys so that keys are prefixes of others; homographs up to 127; keys shared between layers; rows with a negative left id (-1, -2, -3, -7, -100, -32768; right id negative or not)) + hand-made double arrays (2-4 blocks, offsets written in the wide form wherever possible) fed directly to Trie::new_owned / common_prefix_iterator and compared with their key set and with the model x texts concatenated from keys and letters, LexiconSet::lookup at EVERY byte offset (incl. inside characters) x exact-surface MorphemeList::lookup of keys / near-keys; each case also certifies every trie with the verified enumerator; non-trivial = at least 2 entries returned and (a key is a proper prefix of another, or homographs, or more than one layer); distinct by generated Coq term");
    if let Some(p) = &args.replay {
        let v: Value = serde_json::from_str(&std::fs::read_to_string(p).unwrap()).unwrap();
        let case = &v["case"];
        if case["kind"] == "c04-raw" {
            let unhex = |h: &str| -> Vec<u8> { (0..h.len() / 2).map(|i| u8::from_str_radix(&h[2 * i..2 * i + 2], 16).unwrap()).collect() };
            let units: Vec<u32> = case["units"].as_array().unwrap().iter().map(|x| x.as_u64().unwrap() as u32).collect();
            let keys: Vec<(Vec<u8>, u32)> = case["keys"].as_array().unwrap().iter().map(|k| (unhex(k[0].as_str().unwrap()), k[1].as_u64().unwrap() as u32)).collect();
            let texts: Vec<Vec<u8>> = case["texts"].as_array().unwrap().iter().map(|t| unhex(t.as_str().unwrap())).collect();
            println!("hand-made double array of {} units, non-zero units (index, value): {:?}", units.len(), units.iter().enumerate().filter(|(_, u)| **u != 0).map(|(i, u)| (i, format!("{:#x}", u))).collect::<Vec<_>>());
            println!("keys (hex, value): {:?}", keys.iter().map(|(k, v)| (hex(k), *v)).collect::<Vec<_>>());
            run_raw_case(&mut sink, &units, &keys, &texts, case["wide_offsets"].as_u64().unwrap_or(0) as usize, true);
            sink.finish();
            return;
        }
        if let Some(f) = case["cli_build_files_in_given_order"].as_array() {
            let files: Vec<(String, String)> = f.iter().map(|x| (x[0].as_str().unwrap().to_string(), x[1].as_str().unwrap().to_string())).collect();
            println!("dictionary 0 is built by `sudachi build` from the files, in this order: {:?}", files.iter().map(|x| x.0.clone()).collect::<Vec<_>>());
            CLI_FILES.with(|c| *c.borrow_mut() = Some(files));
        }
        let gs = |k: &str| -> Vec<String> { case[k].as_array().map(|a| a.iter().map(|x| x.as_str().unwrap().to_string()).collect()).unwrap_or_default() };
        let (csvs, texts, exacts) = (gs("csvs"), gs("texts"), gs("exacts"));
        for (i, c) in csvs.iter().enumerate() {
            println!("dictionary {} CSV:\n{}", i, c);
        }
        run_case(&mut sink, &csvs, &texts, &exacts, csvs.len() <= 15, true);
        sink.finish();
        return;
    }
    let mut rng = Rng::new(args.seed);
    // CLI stage: the lexicon split over several files which are given to `sudachi build` in NON-alphabetical order and with a
    // path given twice; lookup on the dictionary it writes must agree with the CSV scan of the rows in the GIVEN order
    // (word number = position in that concatenation).  One fixed lexicon and a few generated ones, whatever the seed.
    {
        let mut crng = Rng::new(args.seed ^ 0xC04C11);
        for round in 0..4 {
            let parts: Vec<String> = if round == 0 {
                vec![
                    "東京,1,1,100,東京,名詞,普通名詞,一般,*,*,*,*,*,*,A,*,*,*,*\n京都,2,2,100,京都,名詞,普通名詞,一般,*,*,*,*,*,*,A,*,*,*,*\n".to_string(),
                    "東,3,3,100,東,名詞,普通名詞,一般,*,*,*,*,*,*,A,*,*,*,*\n東京都,4,4,100,東京都,名詞,普通名詞,一般,*,*,*,*,*,*,A,*,*,*,*\n都,-1,-1,100,都,名詞,普通名詞,一般,*,*,*,*,*,*,A,*,*,*,*\n".to_string(),
                    "京,5,5,100,京,名詞,普通名詞,一般,*,*,*,*,*,*,A,*,*,*,*\n".to_string(),
                ]
            } else {
                let n = 2 + crng.below(2) as usize;
                let mut shared: Vec<Row> = vec![];
                (0..n)
                    .map(|_| {
                        let rows = gen_rows(&mut crng, &shared, 1);
                        shared.extend(rows.iter().cloned());
                        render(&rows, &mut crng)
                    })
                    .collect()
            };
            // names chosen so that the given order is not the sorted one; the first file is given again at the end
            let names = ["zz_first.csv", "aa_second.csv", "mm_third.csv"];
            let mut files: Vec<(String, String)> = parts.iter().enumerate().map(|(k, t)| (names[k].to_string(), t.clone())).collect();
            if round != 1 {
                files.push(files[0].clone());
            }
            let csv: String = files.iter().map(|f| f.1.clone()).collect();
            let all = vec![parse_rows(&csv)];
            let texts: Vec<String> = if round == 0 { vec!["東京都京都".to_string(), "京都東".to_string()] } else { (0..3).map(|_| gen_text(&mut crng, &all)).collect() };
            let mut exacts: Vec<String> = all[0].iter().map(|r| r.surface.clone()).collect();
            exacts.sort();
            exacts.dedup();
            exacts.truncate(8);
            CLI_FILES.with(|c| *c.borrow_mut() = Some(files));
            run_case(&mut sink, &[csv], &texts, &exacts, true, false);
            CLI_FILES.with(|c| *c.borrow_mut() = None);
            sink.tag("cli_stage_files_in_non_alphabetical_order");
        }
    }
    // corpus: the shipped test lexicon with its two user lexicons
    {
        let rd = |f: &str| std::fs::read_to_string(format!("{}/sudachi/tests/resources/{}", repo(), f)).unwrap();
        let mut csvs = vec![rd("lex.csv"), rd("user1.csv"), rd("user2.csv")];
        for c in csvs.iter_mut() {
            if !c.ends_with('\n') {
                c.push('\n');
            }
        }
        let texts = vec!["東京都に行った".to_string(), "ぴらる東京府".to_string(), "京都".to_string()];
        let exacts = vec!["東京".to_string(), "東京都".to_string(), "行く".to_string(), "ぴさる".to_string(), "すだち".to_string(), "かぼす".to_string(), "に".to_string()];
        run_case(&mut sink, &csvs, &texts, &exacts, true, false);
        sink.tag("corpus_shipped_lexicons");
    }
    // directed: NUL bytes in the text (minimised from the defect fixed in the repository: "a\0b" matched key "ab")
    {
        let rows = vec![Row { surface: "ab".into(), left: 1 }, Row { surface: "abc".into(), left: 1 }, Row { surface: "b".into(), left: 2 }];
        let csv = render(&rows, &mut rng);
        let texts: Vec<String> = ["a\u{0}b", "\u{0}ab", "ab\u{0}c", "a\u{0}\u{0}bc"].iter().map(|s| s.to_string()).collect();
        run_case(&mut sink, &[csv], &texts, &["a\u{0}b".to_string(), "ab".to_string(), "\u{0}".to_string()], true, false);
        sink.tag("directed_nul_in_text");
    }
    // directed: keys that differ only by a Unicode normalisation form / compatibility mapping are different keys, found
    // exactly where their own spelling stands
    {
        let keys = ["\u{FA10}", "\u{585A}", "か\u{3099}", "が", "\u{212B}", "\u{C5}", "e\u{301}x", "éx", "ｶ", "カ", "Ａ", "A", "\u{2126}", "\u{212A}"];
        let mut csv = String::new();
        for (i, k) in keys.iter().enumerate() {
            csv.push_str(&format!("{},{},{},{},{},{},*,*,*,A,*,*,*,*\n", k, i % 9, i % 9, 1000 + i, k, POS[i % 3]));
        }
        let texts: Vec<String> = vec!["\u{FA10}\u{585A}か\u{3099}が".into(), "\u{212B}\u{C5}e\u{301}xéx".into(), "ｶカＡA\u{2126}\u{212A}K".into()];
        let exacts: Vec<String> = keys.iter().map(|k| k.to_string()).chain(["\u{3A9}".to_string(), "K".to_string()]).collect();
        run_case(&mut sink, &[csv], &texts, &exacts, true, false);
        sink.tag("directed_normalisation_sensitive_keys");
    }
    // directed: the headword (column 4) is independent of the key (column 0): case, width, length, other text
    {
        let rows = [("nhk", "NHK"), ("アイアイウ", "アイウ"), ("ab", "ab"), ("ab", "別物"), ("a", "ab"), ("京", "京都府")];
        let mut csv = String::new();
        for (i, (k, h)) in rows.iter().enumerate() {
            csv.push_str(&format!("{},{},{},{},{},{},*,*,*,A,*,*,*,*\n", k, i % 9, i % 9, 1000 + i, h, POS[i % 3]));
        }
        let texts: Vec<String> = vec!["nhkab".into(), "アイアイウ京".into(), "NHKアイウ".into()];
        let exacts: Vec<String> = ["nhk", "NHK", "アイアイウ", "アイウ", "ab", "a", "京", "京都府", "別物"].iter().map(|s| s.to_string()).collect();
        run_case(&mut sink, &[csv], &texts, &exacts, true, false);
        sink.tag("directed_headword_differs_from_key");
    }
    // directed: a key of 1035 bytes ("ん" x 345) with prefixes of 3, 1023, 1026 and 1032 bytes: lookup sees the whole rest of the
    // text, there is no maximum key length
    {
        let rows: Vec<Row> = [345usize, 1, 341, 342, 344].iter().enumerate().map(|(i, n)| Row { surface: "ん".repeat(*n), left: 1 + i as i16 }).collect();
        let csv: String = rows.iter().map(|r| format!("{},{},{},100,{},{},*,*,*,A,*,*,*,*\n", r.surface, r.left, r.left, r.surface, POS[0])).collect();
        let texts = vec![format!("{}x", "ん".repeat(346)), format!("a{}", "ん".repeat(345))];
        let exacts = vec!["ん".repeat(345), "ん".repeat(344), "ん".repeat(343)];
        run_case(&mut sink, &[csv.clone()], &texts, &exacts, true, false);
        let sys: String = format!("ん,1,1,100,ん,{},*,*,*,A,*,*,*,*\n", POS[1]);
        run_case(&mut sink, &[sys, csv], &texts[..1].to_vec(), &exacts[..1].to_vec(), true, false);
        sink.tag("directed_key_longer_than_1024_bytes");
    }
    // directed: 127 homographs (the maximum a table group can hold), and 128 (must be rejected, not truncated)
    for n in [127usize, 128] {
        let mut rows = vec![Row { surface: "あ".into(), left: 1 }];
        for _ in 0..n {
            rows.push(Row { surface: "あい".into(), left: 2 });
        }
        rows.push(Row { surface: "あいa".into(), left: 3 });
        let csv = render(&rows, &mut rng);
        run_case(&mut sink, &[csv.clone()], &["あいa".to_string()], &["あい".to_string()], n <= 127, false);
        if n == 127 {
            let sys = render(&[Row { surface: "あい".into(), left: 1 }], &mut rng);
            run_case(&mut sink, &[sys, csv], &["あいa".to_string()], &["あい".to_string()], true, false);
        }
        sink.tag("directed_homograph_limit");
    }
    // directed: 15 layers accepted, 16 rejected
    for n in [15usize, 16] {
        let (csvs, texts, exacts) = gen_case(&mut rng, n, 0);
        run_case(&mut sink, &csvs, &texts, &exacts, true, false);
    }
    // hand-made double arrays with wide offsets straight into the reader
    for _ in 0..args.n(120, 3000) {
        if let Some((units, keys, texts, nwide)) = gen_raw_case(&mut rng) {
            run_raw_case(&mut sink, &units, &keys, &texts, nwide, false);
        }
    }
    let n = args.n(320, 6000);
    for _ in 0..n {
        let layers = match rng.below(20) {
            0..=7 => 1,
            8..=12 => 2,
            13..=15 => 3,
            16..=17 => 4 + rng.below(4) as usize,
            _ => 8 + rng.below(8) as usize,
        };
        let shape = rng.below(3);
        let (csvs, texts, exacts) = gen_case(&mut rng, layers, shape);
        run_case(&mut sink, &csvs, &texts, &exacts, true, false);
    }
    sink.finish();
}
