//! C06 — the dictionary compiler is total and never emits an invalid dictionary.
//!
//! Structured stream: an abstract case (tokenised matrix lines + classified lexicon rows) is generated first and rendered to
//! text; the implementation runs read_conn / read_lexicon / resolve / compile under catch_unwind; every compiled dictionary is
//! loaded and probe texts are analysed in modes A, B, C (debug profile).  Malformed stream: byte-level damage of valid
//! inputs (implementation only).  Fault enumeration: a Write that accepts exactly k bytes, for every k below the total.
//! Builder state carried over between calls: every case compiles twice on the same DictBuilder, and after every injected sink
//! failure the same builder compiles again into a good sink.
use crate::common::*;
use serde_json::{json, Value};
use std::io::Write;
use sudachi::analysis::stateful_tokenizer::StatefulTokenizer;
use sudachi::analysis::stateless_tokenizer::DictionaryAccess;
use sudachi::analysis::Mode;
use sudachi::config::ConfigBuilder;
use sudachi::dic::build::DictBuilder;
use sudachi::dic::dictionary::JapaneseDictionary;
use sudachi::dic::storage::{Storage, SudachiDicData};

const KANA: [&str; 10] = ["あ", "い", "う", "か", "き", "く", "さ", "し", "す", "た"];
const POS: [&str; 3] = ["名詞,普通名詞,一般,*,*,*", "助詞,格助詞,*,*,*,*", "動詞,一般,*,*,*,*"];
pub const KNOWN_SPLIT: &str = "c06_split_surface_mismatch";
/// user dictionary row with a dictionary-form reference: the builder validates `<n>` against the system dictionary, the reader
/// resolves it inside the user lexicon (defect recorded by the C05/C12 group; only damaged bytes produce it here)
pub const KNOWN_USER_DICFORM: &str = "c06_user_dic_form_reference";

#[derive(Clone, Debug)]
enum Tok {
    Num(i64),
    Bad(String),
}
#[derive(Clone, Debug)]
enum Num {
    Lit(i64),
    Bad(String),
}
#[derive(Clone, Debug)]
enum Wid {
    Lit(bool, i64),
    Bad(String),
}
#[derive(Clone, Debug, PartialEq)]
enum StrKind {
    Ok,
    TooLong,
    BadEscape,
}
#[derive(Clone, Debug)]
struct Rec {
    ncols: usize,
    strings: StrKind,
    surface: String,
    left: Num,
    right: Num,
    cost: Num,
    pos: usize,
    dic_form: Option<Wid>,
    mode: Option<u8>, // None = garbage
    split_a: Vec<Wid>,
    split_b: Vec<Wid>,
    wstruct: Vec<Wid>,
    syn_ok: bool,
    has_syn: bool,
    splits_concat: bool,
}
#[derive(Clone, Debug)]
enum Base {
    System(Vec<Vec<Tok>>),
    User,
}
#[derive(Clone, Debug)]
struct Case {
    base: Base,
    recs: Vec<Rec>,
}

// the system dictionary user dictionaries are built against: 4 x 3 matrix, 6 words
const SYS_NL: i64 = 4;
const SYS_NR: i64 = 3;
const SYS_WORDS: usize = 6;

fn surface_of(i: usize) -> String {
    format!("{}{}", KANA[(i / 10) % 10], KANA[i % 10])
}

fn tok_text(t: &Tok) -> String {
    match t {
        Tok::Num(z) => z.to_string(),
        Tok::Bad(s) => s.clone(),
    }
}
fn num_text(n: &Num) -> String {
    match n {
        Num::Lit(z) => z.to_string(),
        Num::Bad(s) => s.clone(),
    }
}
fn wid_text(w: &Wid) -> String {
    match w {
        Wid::Lit(u, n) => format!("{}{}", if *u { "U" } else { "" }, n),
        Wid::Bad(s) => s.clone(),
    }
}
fn wids_text(ws: &[Wid]) -> String {
    if ws.is_empty() {
        "*".to_string()
    } else {
        ws.iter().map(wid_text).collect::<Vec<_>>().join("/")
    }
}

impl Case {
    fn matrix_text(&self, rng: &mut Rng) -> Option<String> {
        match &self.base {
            Base::User => None,
            Base::System(lines) => {
                let mut s = String::new();
                for l in lines {
                    if !l.is_empty() && rng.chance(1, 6) {
                        s.push_str("  ");
                    }
                    let sep = if rng.chance(1, 5) { "\t" } else if rng.chance(1, 5) { "  " } else { " " };
                    s.push_str(&l.iter().map(tok_text).collect::<Vec<_>>().join(sep));
                    if !l.is_empty() && rng.chance(1, 6) {
                        s.push(' ');
                    }
                    s.push('\n');
                }
                Some(s)
            }
        }
    }
    fn lexicon_text(&self) -> String {
        let mut s = String::new();
        for r in &self.recs {
            let mut cols: Vec<String> = vec![r.surface.clone(), num_text(&r.left), num_text(&r.right), num_text(&r.cost), r.surface.clone()];
            cols.extend(POS[r.pos % 3].split(',').map(|x| x.to_string()));
            cols.push(if r.strings == StrKind::TooLong { "ア".repeat(11000) } else { "ヨミ".to_string() });
            cols.push(if r.strings == StrKind::BadEscape { "x\\u{110000}".to_string() } else { r.surface.clone() });
            cols.push(match &r.dic_form {
                None => "*".to_string(),
                Some(w) => wid_text(w),
            });
            cols.push(match r.mode {
                Some(0) => "A".to_string(),
                Some(1) => "B".to_string(),
                Some(2) => "C".to_string(),
                _ => "Q".to_string(),
            });
            cols.push(wids_text(&r.split_a));
            cols.push(wids_text(&r.split_b));
            cols.push(wids_text(&r.wstruct));
            if r.has_syn {
                cols.push(if r.syn_ok { "1/22".to_string() } else { "1/x".to_string() });
            }
            cols.truncate(r.ncols);
            s.push_str(&cols.join(","));
            s.push('\n');
        }
        s
    }
    fn coq(&self) -> String {
        let base = match &self.base {
            Base::User => format!("(UserDic {} {} {})", cz(SYS_NL), cz(SYS_NR), cz(SYS_WORDS as i64)),
            Base::System(lines) => format!(
                "(SystemDic {})",
                clist(lines.iter().map(|l| clist(l.iter().map(|t| match t {
                    Tok::Num(z) => format!("TNum {}", cz(*z)),
                    Tok::Bad(_) => "TBad".to_string(),
                }))))
            ),
        };
        let num = |n: &Num| match n {
            Num::Lit(z) => format!("(NumLit {})", cz(*z)),
            Num::Bad(_) => "NumBad".to_string(),
        };
        let wid = |w: &Wid| match w {
            Wid::Lit(u, n) => format!("WLit {} {}", cbool(*u), cz(*n)),
            Wid::Bad(_) => "WBad".to_string(),
        };
        let recs = clist(self.recs.iter().map(|r| {
            format!(
                "mkRec {} {} {} {} {} {} {} {} {} {} {} {} {} {}",
                cz(r.ncols as i64),
                cbool(r.strings == StrKind::Ok),
                cbool(r.surface.is_empty()),
                num(&r.left),
                num(&r.right),
                num(&r.cost),
                match &r.dic_form {
                    None => "None".to_string(),
                    Some(w) => format!("(Some ({}))", wid(w)),
                },
                match r.mode {
                    Some(m) => format!("(Some {})", cz(m as i64)),
                    None => "None".to_string(),
                },
                clist(r.split_a.iter().map(wid)),
                clist(r.split_b.iter().map(wid)),
                clist(r.wstruct.iter().map(wid)),
                cbool(r.syn_ok || !r.has_syn),
                cbool(r.splits_concat),
                cbool(r.surface.contains('\0'))
            )
        }));
        format!("(mkInput {} {})", base, recs)
    }
}

struct Built {
    status: &'static str,
    msg: String,
    bytes: Vec<u8>,
    /// outcome of a second `compile` on the same builder
    second_status: &'static str,
    second_same: bool,
    second_msg: String,
    second_bytes: Vec<u8>,
}

struct Env {
    dir: std::path::PathBuf,
    sys_bytes: Vec<u8>,
}

fn sys_matrix_text() -> String {
    let mut m = format!("{} {}\n", SYS_NL, SYS_NR);
    for r in 0..SYS_NR {
        for l in 0..SYS_NL {
            m.push_str(&format!("{} {} {}\n", l, r, l * 3 + r));
        }
    }
    m
}
fn sys_lexicon_text() -> String {
    let mut s = String::new();
    for i in 0..SYS_WORDS {
        // ids below both dimensions, so that this dictionary compiles whichever dimension the validation compares with
        s.push_str(&format!("{},{},{},100,{},{},ヨミ,{},*,A,*,*,*\n", surface_of(90 + i), i % 3, i % 3, surface_of(90 + i), POS[i % 3], surface_of(90 + i)));
    }
    s
}

fn config(env: &Env) -> sudachi::config::Config {
    let t = format!(
        "{{\"path\":{},\"characterDefinitionFile\":\"char.def\",\"oovProviderPlugin\":[{{\"class\":\"com.worksap.nlp.sudachi.SimpleOovPlugin\",\"oovPOS\":[\"名詞\",\"普通名詞\",\"一般\",\"*\",\"*\",\"*\"],\"leftId\":0,\"rightId\":0,\"cost\":30000,\"userPOS\":\"allow\"}}]}}",
        serde_json::to_string(&env.dir.to_string_lossy()).unwrap()
    );
    ConfigBuilder::from_bytes(t.as_bytes()).unwrap().build()
}

fn load_system(env: &Env) -> JapaneseDictionary {
    JapaneseDictionary::from_cfg_storage(&config(env), SudachiDicData::new(Storage::Owned(env.sys_bytes.clone()))).expect("system dictionary loads")
}

/// one `compile` call of a session: into a sink that accepts everything, or one that accepts exactly k bytes
#[derive(Clone, Copy, Debug)]
enum Attempt {
    Good,
    Fail(usize),
    /// a sink that takes one byte per `write` call
    OneByte,
}

/// outcome of one compile call (or of the read stage when that already failed: then it is the only element)
#[derive(Clone, Debug)]
struct Attempted {
    status: &'static str,
    msg: String,
    bytes: Vec<u8>,
}

fn attempts_on<D: DictionaryAccess>(b: &mut DictBuilder<D>, attempts: &[Attempt]) -> Vec<Attempted> {
    let mut out = vec![];
    for a in attempts {
        let mut bytes = Vec::new();
        let r = match a {
            Attempt::Good => catch(|| b.compile(&mut bytes).map_err(|e| format!("compile: {}", e))),
            Attempt::Fail(k) => {
                let mut w = FailingWriter { limit: *k, written: 0 };
                catch(|| b.compile(&mut w).map_err(|e| format!("compile: {}", e)))
            }
            Attempt::OneByte => {
                let mut w = OneByte(vec![]);
                let r = catch(|| b.compile(&mut w).map_err(|e| format!("compile: {}", e)));
                bytes = w.0;
                r
            }
        };
        out.push(match r {
            Ok(Ok(())) => Attempted { status: "SOk", msg: String::new(), bytes },
            Ok(Err(e)) => Attempted { status: "SErr", msg: e, bytes: vec![] },
            Err(p) => Attempted { status: "SPanic", msg: p, bytes: vec![] },
        });
    }
    out
}

/// read_conn; read_lexicon; resolve once, then every compile call of `attempts` on the SAME builder.
/// A failure of the read stage is reported as the single outcome.
fn session(env: &Env, matrix: Option<&[u8]>, lexicon: &[u8], attempts: &[Attempt]) -> Vec<Attempted> {
    let read_failed = |r: Result<Result<(), String>, String>| -> Option<Attempted> {
        match r {
            Ok(Ok(())) => None,
            Ok(Err(e)) => Some(Attempted { status: "SErr", msg: e, bytes: vec![] }),
            Err(p) => Some(Attempted { status: "SPanic", msg: p, bytes: vec![] }),
        }
    };
    match matrix {
        Some(m) => {
            let mut b = DictBuilder::new_system();
            let r = catch(|| {
                b.read_conn(m).map_err(|e| format!("read_conn: {}", e))?;
                b.read_lexicon(lexicon).map_err(|e| format!("read_lexicon: {}", e))?;
                b.resolve().map_err(|e| format!("resolve: {}", e))?;
                // resolving again must be harmless (everything is resolved already)
                b.resolve().map_err(|e| format!("second resolve: {}", e))?;
                Ok(())
            });
            match read_failed(r) {
                Some(f) => vec![f],
                None => attempts_on(&mut b, attempts),
            }
        }
        None => {
            let sys = load_system(env);
            let mut b = DictBuilder::new_user(&sys);
            let r = catch(|| {
                b.read_lexicon(lexicon).map_err(|e| format!("read_lexicon: {}", e))?;
                b.resolve().map_err(|e| format!("resolve: {}", e))?;
                // resolving again must be harmless (everything is resolved already)
                b.resolve().map_err(|e| format!("second resolve: {}", e))?;
                Ok(())
            });
            match read_failed(r) {
                Some(f) => vec![f],
                None => attempts_on(&mut b, attempts),
            }
        }
    }
}

/// two dictionaries are the same up to the creation time stored in the header (bytes 8..16)
fn same_dict(a: &[u8], b: &[u8]) -> bool {
    a.len() == b.len() && (a.len() < 16 || (a[..8] == b[..8] && a[16..] == b[16..]))
}

/// the standard build of every case: compile TWICE on the same builder; `second` is the outcome of the repeated call
fn build(env: &Env, matrix: Option<&[u8]>, lexicon: &[u8]) -> Built {
    let mut r = session(env, matrix, lexicon, &[Attempt::Good, Attempt::Good]);
    let first = r.remove(0);
    let (second_status, second_same, second_msg, second_bytes) = match r.pop() {
        Some(s) => (s.status, s.status == first.status && s.bytes == first.bytes, s.msg, s.bytes),
        // the read stage failed: there is no compile call to repeat
        None => (first.status, true, String::new(), vec![]),
    };
    Built { status: first.status, msg: first.msg, bytes: first.bytes, second_status, second_same, second_msg, second_bytes }
}

/// what the repeated compile of one builder must be: the same outcome, byte for byte
fn check_second(env: &Env, user: bool, b: &Built, probes: &[String]) -> Option<String> {
    if b.second_same {
        return None;
    }
    if b.second_status != b.status {
        return Some(format!("first compile of the builder reported {}, a second compile on the same builder reported {} {}", b.status, b.second_status, b.second_msg));
    }
    let lr = load_and_analyse(env, user, &b.second_bytes, probes);
    Some(format!(
        "a second compile on the same builder reported success with different bytes ({} instead of {}); that output: {}",
        b.second_bytes.len(),
        b.bytes.len(),
        if lr.ok { "loads".to_string() } else { lr.msg }
    ))
}

struct LoadResult {
    ok: bool,
    msg: String,
    dims: (i64, i64),
    cells: Vec<(i64, i64, i64)>,
}

/// load the compiled dictionary and analyse the probe texts in every mode, touching every field of every morpheme
fn load_and_analyse(env: &Env, user: bool, bytes: &[u8], probes: &[String]) -> LoadResult {
    let mut res = LoadResult { ok: true, msg: String::new(), dims: (0, 0), cells: vec![] };
    let cfg = config(env);
    let r = catch(|| {
        let mut data = SudachiDicData::new(Storage::Owned(if user { env.sys_bytes.clone() } else { bytes.to_vec() }));
        if user {
            data.add_user(Storage::Owned(bytes.to_vec()));
        }
        JapaneseDictionary::from_cfg_storage(&cfg, data)
    });
    let dict = match r {
        Ok(Ok(d)) => d,
        Ok(Err(e)) => {
            res.ok = false;
            res.msg = format!("compiled dictionary does not load: {}", e);
            return res;
        }
        Err(p) => {
            res.ok = false;
            res.msg = format!("loading the compiled dictionary panicked: {}", p);
            return res;
        }
    };
    let (nl, nr) = (dict.grammar().conn_matrix().num_left() as i64, dict.grammar().conn_matrix().num_right() as i64);
    res.dims = (nl, nr);
    if nl * nr <= 400 {
        for r in 0..nr {
            for l in 0..nl {
                res.cells.push((l, r, dict.grammar().connect_cost(l as i16, r as i16) as i64));
            }
        }
    }
    for t in probes {
        for mode in [Mode::C, Mode::B, Mode::A] {
            let r = catch(|| -> Result<usize, String> {
                let mut tok = StatefulTokenizer::new(&dict, mode);
                tok.reset().push_str(t);
                tok.do_tokenize().map_err(|e| format!("{}", e))?;
                let ml = tok.into_morpheme_list().map_err(|e| format!("{}", e))?;
                let mut n = 0;
                for m in ml.iter() {
                    n += m.surface().len() + m.dictionary_form().len() + m.normalized_form().len() + m.reading_form().len() + m.part_of_speech().len();
                    n += m.synonym_group_ids().len();
                    for sm in [Mode::A, Mode::B] {
                        let sub = m.split(sm).map_err(|e| format!("{}", e))?;
                        for x in sub.iter() {
                            n += x.surface().len() + x.part_of_speech().len();
                        }
                    }
                }
                Ok(n)
            });
            match r {
                Ok(Ok(_)) => {}
                Ok(Err(e)) => {
                    res.ok = false;
                    res.msg = format!("analysis of {:?} in mode {:?} returned an error: {}", t, mode, e);
                    return res;
                }
                Err(p) => {
                    res.ok = false;
                    res.msg = format!("analysis of {:?} in mode {:?} panicked: {}", t, mode, p);
                    return res;
                }
            }
        }
    }
    res
}

fn probes(case: &Case) -> Vec<String> {
    let mut all = String::new();
    let mut v = vec![];
    for r in case.recs.iter().take(40) {
        all.push_str(&r.surface);
        v.push(r.surface.clone());
    }
    v.truncate(12);
    v.push(format!("{}x1。", all));
    v.push((90..96).map(surface_of).collect::<String>());
    v.push(String::new());
    v
}

fn desc(case: &Case, matrix: &Option<String>, lexicon: &str, shape: &str) -> Value {
    let lx: String = if lexicon.len() > 3000 { format!("{}...[{} bytes]", lexicon.chars().take(300).collect::<String>(), lexicon.len()) } else { lexicon.to_string() };
    json!({"kind": "c06", "shape": shape, "user": matches!(case.base, Base::User), "matrix": matrix, "lexicon": lx,
           "known_class": if case.recs.iter().any(|r| !r.splits_concat) { KNOWN_SPLIT } else { "" }})
}

fn emit(sink: &mut Sink, env: &Env, rng: &mut Rng, case: &Case, shape: &str) {
    let matrix = case.matrix_text(rng);
    let lexicon = case.lexicon_text();
    run_texts(sink, env, Some(case), matrix, lexicon, shape, false);
}

/// run one (matrix text, lexicon text) pair; with `case` the Coq term is produced too
fn run_texts(sink: &mut Sink, env: &Env, case: Option<&Case>, matrix: Option<String>, lexicon: String, shape: &str, verbose: bool) {
    let user = matrix.is_none();
    let b = build(env, matrix.as_ref().map(|m| m.as_bytes()), lexicon.as_bytes());
    let pr = match case {
        Some(c) => probes(c),
        None => vec![lexicon.chars().filter(|c| !c.is_ascii() && *c != '\u{feff}').take(60).collect::<String>(), "あいxか1。".to_string()],
    };
    let lr = if b.status == "SOk" { load_and_analyse(env, user, &b.bytes, &pr) } else { LoadResult { ok: true, msg: String::new(), dims: (0, 0), cells: vec![] } };
    sink.tag(shape);
    sink.tag(&format!("impl={}", b.status));
    sink.tag(if user { "user_dictionary" } else { "system_dictionary" });
    let mismatch = case.map(|c| c.recs.iter().any(|r| !r.splits_concat)).unwrap_or(false);
    let d = match case {
        Some(c) => desc(c, &matrix, &lexicon, shape),
        None => json!({"kind": "c06-raw", "shape": shape, "matrix": matrix, "lexicon": lexicon, "known_class": ""}),
    };
    if verbose {
        println!("matrix text: {:?}\nlexicon text: {:?}", matrix, lexicon);
        println!("implementation: build {} {}", b.status, b.msg);
        println!("  compiled bytes: {}; loads and analyses: {} {}", b.bytes.len(), lr.ok, lr.msg);
        println!("  second compile on the same builder: {} {}; same outcome and bytes: {}", b.second_status, b.second_msg, b.second_same);
        println!("  matrix read back: dims {:?}, cells {:?}", lr.dims, lr.cells.iter().take(30).collect::<Vec<_>>());
    }
    let id = match case {
        Some(c) => {
            // the known finding is excluded from the predicate only for the analysis clause; everything else is still compared
            let analyses = lr.ok || (mismatch && lr.msg.contains("analysis"));
            let term = format!(
                "check_build {} {} {} {} ({}, {}) {} {}",
                c.coq(),
                b.status,
                b.second_status,
                cbool(b.second_same),
                cz(lr.dims.0),
                cz(lr.dims.1),
                clist(lr.cells.iter().map(|(l, r, v)| format!("({}, {}, {})", cz(*l), cz(*r), cz(*v)))),
                cbool(analyses)
            );
            sink.case(term, d, b.status != "SOk" || c.recs.len() > 1)
        }
        None => sink.case_rust_only(d, b.status != "SOk"),
    };
    if b.status == "SPanic" {
        sink.fail(id, &format!("compilation panicked: {}", b.msg), "");
    } else if b.status == "SOk" && !lr.ok {
        let cls = if mismatch && lr.msg.contains("analysis") { KNOWN_SPLIT } else { "" };
        sink.fail(id, &format!("compilation reported success, then {}", lr.msg), cls);
    }
    if let Some(what) = check_second(env, user, &b, &pr) {
        sink.fail(id, &what, "");
    }
}

// ---------------------------------------------------------------- generators

fn good_matrix(nl: i64, nr: i64, rng: &mut Rng) -> Vec<Vec<Tok>> {
    let mut v = vec![];
    if rng.chance(1, 4) {
        v.push(vec![]);
    }
    v.push(vec![Tok::Num(nl), Tok::Num(nr)]);
    for r in 0..nr {
        for l in 0..nl {
            if rng.chance(1, 10) {
                v.push(vec![]);
            }
            if rng.chance(5, 6) {
                v.push(vec![Tok::Num(l), Tok::Num(r), Tok::Num(rng.range(-300, 300))]);
            }
        }
    }
    v
}

fn good_rec(i: usize, nl: i64, nr: i64, rng: &mut Rng) -> Rec {
    let indexed = rng.chance(9, 10);
    Rec {
        ncols: if rng.chance(1, 3) { 18 } else { 19 },
        strings: StrKind::Ok,
        surface: surface_of(i),
        left: Num::Lit(if indexed { rng.below(nr.max(1) as u64) as i64 } else { -1 }),
        right: Num::Lit(if indexed { rng.below(nl.max(1) as u64) as i64 } else { -1 }),
        cost: Num::Lit(rng.range(-200, 3000)),
        pos: rng.below(3) as usize,
        dic_form: None,
        mode: Some(0),
        split_a: vec![],
        split_b: vec![],
        wstruct: vec![],
        syn_ok: true,
        has_syn: true,
        splits_concat: true,
    }
}

/// valid lexicon of n rows for an nl x nr matrix, with compounds whose splits concatenate
fn good_recs(n: usize, nl: i64, nr: i64, user: bool, rng: &mut Rng) -> Vec<Rec> {
    let mut recs: Vec<Rec> = (0..n).map(|i| good_rec(i, nl, nr, rng)).collect();
    // at least one indexed entry (a lexicon without any is a compilation error)
    if !recs.iter().any(|r| matches!(r.left, Num::Lit(x) if x >= 0)) {
        recs[0].left = Num::Lit(0);
        recs[0].right = Num::Lit(0);
    }
    let mut is_part = vec![false; n];
    for i in 0..n {
        if n >= 3 && !is_part[i] && rng.chance(1, 4) {
            let j = rng.below(n as u64) as usize;
            let k = rng.below(n as u64) as usize;
            let simple = |r: &Rec| r.split_a.is_empty() && r.split_b.is_empty();
            if simple(&recs[j]) && simple(&recs[k]) && j != i && k != i {
                is_part[j] = true;
                is_part[k] = true;
                recs[i].surface = format!("{}{}", recs[j].surface, recs[k].surface);
                let refs = vec![Wid::Lit(user, j as i64), Wid::Lit(user, k as i64)];
                recs[i].mode = Some(if rng.chance(1, 2) { 1 } else { 2 });
                recs[i].split_a = refs.clone();
                if rng.chance(1, 2) {
                    recs[i].split_b = refs.clone();
                }
                if rng.chance(1, 2) {
                    recs[i].wstruct = refs;
                }
            }
        }
        if !user && rng.chance(1, 6) {
            // dictionary form: any existing entry.  Not generated for user dictionaries: the reader resolves a user entry's
            // dictionary form inside the user lexicon while the builder validates it against the system one (owned by C05/C12)
            recs[i].dic_form = Some(Wid::Lit(false, rng.below(n as u64) as i64));
        }
    }
    recs
}

fn num_grid(rng: &mut Rng, d: i64, other: i64) -> Num {
    match rng.below(12) {
        0 => Num::Bad("x".into()),
        1 => Num::Bad("".into()),
        2 => Num::Bad("1.5".into()),
        3 => Num::Lit(32768),
        4 => Num::Lit(-32769),
        5 => Num::Lit(d),
        6 => Num::Lit(d + 1),
        7 => Num::Lit(other),
        8 => Num::Lit(d - 1),
        9 => Num::Lit(-2),
        10 => Num::Lit(-1),
        _ => Num::Lit(32767),
    }
}
fn wid_grid(rng: &mut Rng, n: usize, user: bool) -> Wid {
    let n = n as i64;
    match rng.below(10) {
        0 => Wid::Bad("x".into()),
        1 => Wid::Bad("-1".into()),
        2 => Wid::Lit(false, n),
        3 => Wid::Lit(false, n + 5),
        4 => Wid::Lit(true, n),
        5 => Wid::Lit(true, 0),
        6 => Wid::Lit(false, 268435455),
        7 => Wid::Lit(false, 268435456),
        8 => Wid::Lit(false, if user { SYS_WORDS as i64 } else { n - 1 }),
        _ => Wid::Lit(false, 4294967296),
    }
}

/// damage exactly one aspect of one row
fn mutate_rec(recs: &mut Vec<Rec>, nl: i64, nr: i64, user: bool, rng: &mut Rng) -> &'static str {
    let n = recs.len();
    let i = rng.below(n as u64) as usize;
    let r = &mut recs[i];
    match rng.below(14) {
        0 => {
            r.ncols = 1 + rng.below(17) as usize;
            "row_truncated"
        }
        1 => {
            r.left = num_grid(rng, nr, nl);
            "left_id_grid"
        }
        2 => {
            r.right = num_grid(rng, nl, nr);
            "right_id_grid"
        }
        3 => {
            r.cost = match rng.below(4) {
                0 => Num::Lit(32768),
                1 => Num::Lit(-32769),
                2 => Num::Bad("abc".into()),
                _ => Num::Lit(-32768),
            };
            "cost_grid"
        }
        4 => {
            r.strings = if rng.chance(1, 2) { StrKind::TooLong } else { StrKind::BadEscape };
            if r.ncols < 13 {
                r.ncols = 19;
            }
            "string_limit_or_escape"
        }
        5 if !user => {
            r.dic_form = Some(wid_grid(rng, n, user));
            "dic_form_grid"
        }
        5 => {
            r.dic_form = Some(if rng.chance(1, 2) { Wid::Bad("x".into()) } else { Wid::Lit(false, SYS_WORDS as i64 + 3) });
            "dic_form_grid"
        }
        6 => {
            r.mode = match rng.below(3) {
                0 => None,
                1 => Some(1),
                _ => Some(2),
            };
            "mode"
        }
        7 => {
            r.mode = Some(2);
            r.split_a = vec![wid_grid(rng, n, user)];
            r.splits_concat = true; // decided below for the valid-reference case
            "split_a_grid"
        }
        8 => {
            r.mode = Some(1);
            r.split_b = vec![wid_grid(rng, n, user), Wid::Lit(user, 0)];
            "split_b_grid"
        }
        9 => {
            r.wstruct = vec![wid_grid(rng, n, user)];
            "word_structure_grid"
        }
        10 => {
            let k = if rng.chance(1, 2) { 127 } else { 128 };
            r.wstruct = (0..k).map(|_| Wid::Lit(user, 0)).collect();
            "array_length_127_128"
        }
        11 => {
            r.has_syn = true;
            r.ncols = 19;
            r.syn_ok = false;
            "synonym_bad"
        }
        12 => {
            if rng.chance(1, 2) {
                r.surface = String::new();
                "empty_surface"
            } else {
                r.surface = if rng.chance(1, 2) { format!("\u{0}{}", r.surface) } else { format!("{}\u{0}あ", r.surface) };
                "nul_in_surface"
            }
        }
        _ => {
            r.mode = Some(0);
            r.split_a = vec![Wid::Lit(user, 0)];
            "mode_a_with_split"
        }
    }
}

/// splits that reference existing entries whose surfaces do not spell the headword make analysis fail (known finding):
/// decide the flag from the rendered case
fn fix_concat_flags(recs: &mut Vec<Rec>, user: bool) {
    let n = recs.len();
    let surf: Vec<String> = recs.iter().map(|r| r.surface.clone()).collect();
    let sys_surf: Vec<String> = (0..SYS_WORDS).map(|i| surface_of(90 + i)).collect();
    for r in recs.iter_mut() {
        let mut ok = true;
        for list in [&r.split_a, &r.split_b] {
            if list.is_empty() {
                continue;
            }
            let mut cat = String::new();
            let mut resolvable = true;
            for w in list.iter() {
                match w {
                    Wid::Lit(u, k) => {
                        let k = *k as usize;
                        if user && !*u {
                            if k < SYS_WORDS { cat.push_str(&sys_surf[k]) } else { resolvable = false }
                        } else if (user && *u) || (!user && !*u) {
                            if k < n { cat.push_str(&surf[k]) } else { resolvable = false }
                        } else {
                            resolvable = false
                        }
                    }
                    Wid::Bad(_) => resolvable = false,
                }
            }
            if resolvable && cat != r.surface {
                ok = false;
            }
        }
        r.splits_concat = ok;
    }
}

struct FailingWriter {
    limit: usize,
    written: usize,
}
impl Write for FailingWriter {
    fn write(&mut self, buf: &[u8]) -> std::io::Result<usize> {
        if self.written >= self.limit {
            return Err(std::io::Error::new(std::io::ErrorKind::Other, "sink full"));
        }
        let n = usize::min(buf.len(), self.limit - self.written);
        self.written += n;
        Ok(n)
    }
    fn flush(&mut self) -> std::io::Result<()> {
        Ok(())
    }
}

struct OneByte(Vec<u8>);
impl Write for OneByte {
    fn write(&mut self, buf: &[u8]) -> std::io::Result<usize> {
        if buf.is_empty() {
            return Ok(0);
        }
        self.0.push(buf[0]);
        Ok(1)
    }
    fn flush(&mut self) -> std::io::Result<()> {
        Ok(())
    }
}

/// offset of the first matrix byte in a compiled dictionary (header, POS table, the two dimensions come before it)
fn matrix_offset(bytes: &[u8]) -> usize {
    match sudachi::dic::grammar::Grammar::parse(bytes, 272) {
        Ok(g) => {
            let cm = g.conn_matrix();
            272 + g.storage_size - 2 * cm.num_left() * cm.num_right()
        }
        Err(_) => 0,
    }
}

/// one row of the fault enumeration: the sink of the first compile accepted k bytes; then the SAME builder compiled again into a
/// sink that accepts everything
struct Retry {
    k: usize,
    first: &'static str,
    retry: &'static str,
    retry_same_as_fresh: bool,
}

/// verdict of the Rust-side oracle on one row (None = as the property demands)
fn judge_retry(r: &Retry, total: usize) -> Option<String> {
    if r.first == "SPanic" || r.retry == "SPanic" {
        return Some(format!("sink failing after {} of {} bytes: compilation panicked (first call {}, retry {})", r.k, total, r.first, r.retry));
    }
    if r.first == "SOk" && r.k < total {
        return Some(format!("sink failing after {} of {} bytes was reported as success", r.k, total));
    }
    if r.first != "SOk" && r.k >= total {
        return Some(format!("sink accepting {} >= {} bytes: compilation failed", r.k, total));
    }
    // the retry on the same builder: an error value is tolerated, success must be the dictionary of a fresh build
    if r.retry == "SOk" && !r.retry_same_as_fresh {
        return Some(format!(
            "after a sink failure at byte {} of {} the same builder compiled again into a good sink and reported success, but the bytes differ from a fresh build of the same input",
            r.k, total
        ));
    }
    None
}

fn retry_rows(env: &Env, matrix: Option<&[u8]>, lexicon: &[u8], fresh: &[u8], step: usize) -> Vec<Retry> {
    let total = fresh.len();
    let mut rows = vec![];
    let mut k = 0;
    while k <= total + 1 {
        let r = session(env, matrix, lexicon, &[Attempt::Fail(k), Attempt::Good]);
        let first = r[0].status;
        let (retry, same) = match r.get(1) {
            Some(x) => (x.status, x.status == "SOk" && same_dict(&x.bytes, fresh)),
            None => (first, false),
        };
        rows.push(Retry { k, first, retry, retry_same_as_fresh: same });
        k += if k + step > total && k < total { total - k } else { step };
    }
    rows
}

fn fault_enumeration(sink: &mut Sink, env: &Env, rng: &mut Rng, case: &Case, step: usize) {
    let matrix = case.matrix_text(rng);
    let lexicon = case.lexicon_text();
    let mb = matrix.as_ref().map(|m| m.as_bytes());
    let full = build(env, mb, lexicon.as_bytes());
    if full.status != "SOk" {
        return;
    }
    let total = full.bytes.len();
    let moff = matrix_offset(&full.bytes);
    let rows = retry_rows(env, mb, lexicon.as_bytes(), &full.bytes, step);
    let mut bad: Option<String> = rows.iter().filter_map(|r| judge_retry(r, total)).next();
    // longer histories on one builder: two failed calls, a one-byte-per-call sink, then a good sink
    for _ in 0..8 {
        let k1 = rng.below(total as u64 + 1) as usize;
        let k2 = rng.below(total as u64 + 1) as usize;
        let r = session(env, mb, lexicon.as_bytes(), &[Attempt::Fail(k1), Attempt::Fail(k2), Attempt::OneByte, Attempt::Good]);
        for (i, x) in r.iter().enumerate() {
            let want_ok = i >= 2 || (i == 0 && k1 >= total) || (i == 1 && k2 >= total);
            if x.status == "SPanic" || (x.status == "SOk") != want_ok || (x.status == "SOk" && !same_dict(&x.bytes, &full.bytes) && i >= 2) {
                bad.get_or_insert(format!(
                    "history on one builder [sink failing at {}, sink failing at {}, one byte per call, good sink]: call {} reported {} {}",
                    k1, k2, i + 1, x.status,
                    if x.status == "SOk" { "with bytes that differ from a fresh build" } else { x.msg.as_str() }
                ));
            }
        }
    }
    sink.tag("fault_enumeration_inputs");
    sink.tag_n("fault_enumeration_offsets", rows.len() as u64);
    sink.tag_n("retry_on_same_builder_after_sink_failure", rows.len() as u64);
    let term = format!(
        "check_retry_all {} {} {} {}",
        case.coq(),
        cz(total as i64),
        cz(moff as i64),
        clist(rows.iter().map(|r| format!("({}, {}, {}, {})", cz(r.k as i64), r.first, r.retry, cbool(r.retry_same_as_fresh))))
    );
    let mut d = desc(case, &matrix, &lexicon, "fault_enumeration");
    d["total_bytes"] = json!(total);
    d["matrix_offset"] = json!(moff);
    let id = sink.case(term, d, true);
    if let Some(b) = bad {
        sink.fail(id, &b, "");
    }
}

fn damage(text: &str, rng: &mut Rng) -> Vec<u8> {
    let mut b = text.as_bytes().to_vec();
    for _ in 0..(1 + rng.below(3)) {
        if b.is_empty() {
            break;
        }
        let p = rng.below(b.len() as u64) as usize;
        match rng.below(8) {
            0 => b.truncate(p),
            1 => b[p] = rng.below(256) as u8,
            2 => b.insert(p, b'"'),
            3 => b.insert(p, b','),
            4 => b.insert(p, b'\n'),
            5 => {
                b.remove(p);
            }
            6 => b.insert(p, *rng.pick(&[0xffu8, 0xc3, 0x00, b'\r', b'\\', b'/', b'-', b'U'])),
            _ => {
                let q = rng.below(b.len() as u64) as usize;
                b.swap(p, q)
            }
        }
    }
    b
}

fn run_raw(sink: &mut Sink, env: &Env, matrix: Option<Vec<u8>>, lexicon: Vec<u8>, shape: &str) {
    let b = build(env, matrix.as_deref(), &lexicon);
    sink.tag(shape);
    sink.tag(&format!("impl={}", b.status));
    let d = json!({"kind": "c06-raw", "shape": shape, "matrix_bytes": matrix, "lexicon_bytes": lexicon, "known_class": ""});
    let id = sink.case_rust_only(d, b.status != "SOk");
    if b.status == "SPanic" {
        sink.fail(id, &format!("compilation panicked: {}", b.msg), "");
        return;
    }
    if let Some(what) = check_second(env, matrix.is_none(), &b, &["あいxか1。".to_string()]) {
        sink.fail(id, &what, "");
    }
    if b.status == "SOk" {
        let text = String::from_utf8_lossy(&lexicon).to_string();
        let probe: String = text.chars().filter(|c| !c.is_ascii() && *c != '\u{fffd}').take(40).collect();
        let lr = load_and_analyse(env, matrix.is_none(), &b.bytes, &[probe, "あいxか1。".to_string()]);
        if !lr.ok {
            // damaged split references can produce the known finding too: splits that still resolve but no longer spell the headword
            let col = |l: &str, k: usize| l.split(',').nth(k).map(|c| c != "*" && !c.is_empty()).unwrap_or(false);
            let cls = if lr.msg.contains("analysis") && matrix.is_none() && text.lines().any(|l| col(l, 13)) {
                KNOWN_USER_DICFORM
            } else if lr.msg.contains("analysis") && text.lines().any(|l| col(l, 15) || col(l, 16)) {
                KNOWN_SPLIT
            } else {
                ""
            };
            sink.fail(id, &format!("compilation of damaged input reported success, then {}", lr.msg), cls);
        }
    }
}

pub fn run(args: &Args) {
    let mut sink = Sink::new("C06", &args.out, &["Model.GuardLang", "Model.Params", "Model.Build"], args.seed, &args.tier);
    sink.shard_size = 60;
    sink.rule("system dictionaries (matrix text nl x nr in 0..6, square and non-square, blank lines / tabs / missing cells) and user dictionaries (against a 4x3 system dictionary) with 1..14 rows incl. compounds with split / word-structure references; structured stream = valid input with exactly one damaged aspect (row arity, left/right/cost from the boundary grid, over-long string / bad escape, dangling or malformed references, array length 127/128, mode, synonyms, empty surface; matrix: empty text, header arity / sign / non-numeric, coordinates at and beyond the dimension, negative, wrong arity); malformed stream = byte-level damage (truncation, quotes, invalid UTF-8, swaps); every case compiles twice on one builder (second outcome and bytes must equal the first) after resolving twice; fault enumeration = sink accepting exactly k bytes for every k (quick: every k of small dictionaries), each followed by a retry on the same builder into a good sink (Err or the bytes of a fresh build), plus longer histories [fail, fail, one byte per call, good]; non-trivial = compilation failed or more than one row; distinct by generated Coq term");
    let dir = args.work.join("c06_res");
    std::fs::create_dir_all(&dir).unwrap();
    std::fs::copy(format!("{}/sudachi/tests/resources/char.def", repo()), dir.join("char.def")).unwrap();
    let mut env = Env { dir, sys_bytes: vec![] };
    {
        let mut b = DictBuilder::new_system();
        b.read_conn(sys_matrix_text().as_bytes()).expect("sys matrix");
        b.read_lexicon(sys_lexicon_text().as_bytes()).expect("sys lexicon");
        b.resolve().expect("sys resolve");
        let mut out = vec![];
        b.compile(&mut out).expect("sys compile");
        env.sys_bytes = out;
    }
    if let Some(p) = &args.replay {
        let v: Value = serde_json::from_str(&std::fs::read_to_string(p).unwrap()).unwrap();
        let c = &v["case"];
        let bytes = |x: &Value| -> Option<Vec<u8>> { x.as_array().map(|a| a.iter().map(|b| b.as_u64().unwrap() as u8).collect()) };
        let (matrix, lexicon): (Option<Vec<u8>>, Vec<u8>) = if c["kind"] == "c06-raw" && !c["lexicon_bytes"].is_null() {
            (bytes(&c["matrix_bytes"]), bytes(&c["lexicon_bytes"]).unwrap())
        } else {
            (c["matrix"].as_str().map(|s| s.as_bytes().to_vec()), c["lexicon"].as_str().unwrap_or("").as_bytes().to_vec())
        };
        println!("replaying C06 case (shape {})", c["shape"]);
        let m = matrix.map(|m| String::from_utf8_lossy(&m).to_string());
        run_texts(&mut sink, &env, None, m.clone(), String::from_utf8_lossy(&lexicon).to_string(), "replay", true);
        if c["shape"] == "fault_enumeration" {
            let mb = m.as_ref().map(|x| x.as_bytes());
            let fresh = build(&env, mb, &lexicon).bytes;
            let total = fresh.len();
            println!("fault enumeration over {} bytes (matrix starts at byte {}): first compile into a sink accepting k bytes, then a retry on the same builder into a good sink", total, matrix_offset(&fresh));
            let mut wrong = 0;
            for r in retry_rows(&env, mb, &lexicon, &fresh, 1) {
                if let Some(what) = judge_retry(&r, total) {
                    wrong += 1;
                    if wrong <= 5 {
                        println!("  k={}: first call {}, retry {}, retry equals a fresh build: {} -- {}", r.k, r.first, r.retry, r.retry_same_as_fresh, what);
                    }
                    let id = sink.case_rust_only(json!({"kind": "c06-raw", "shape": "fault_enumeration_replay", "k": r.k}), true);
                    sink.fail(id, &what, "");
                }
            }
            println!("  offsets with a wrong outcome: {}", wrong);
        }
        sink.finish();
        return;
    }
    let mut rng = Rng::new(args.seed);
    let env = env;
    // ---- directed: the defects of the pinned tree and their neighbours
    let one = |l: i64, r: i64| -> Vec<Rec> {
        let mut rr = good_rec(0, 1, 1, &mut Rng::new(7));
        rr.left = Num::Lit(l);
        rr.right = Num::Lit(r);
        vec![rr]
    };
    let m33 = |extra: Vec<Vec<Tok>>| -> Base {
        let mut v = vec![vec![Tok::Num(3), Tok::Num(3)], vec![Tok::Num(0), Tok::Num(0), Tok::Num(5)]];
        v.extend(extra);
        Base::System(v)
    };
    let directed: Vec<(&str, Case)> = vec![
        ("directed_empty_matrix_text", Case { base: Base::System(vec![]), recs: one(0, 0) }),
        ("directed_blank_matrix_text", Case { base: Base::System(vec![vec![], vec![]]), recs: one(0, 0) }),
        ("directed_coord_eq_dim", Case { base: m33(vec![vec![Tok::Num(3), Tok::Num(0), Tok::Num(7)]]), recs: one(0, 0) }),
        ("directed_coord_eq_dim", Case { base: m33(vec![vec![Tok::Num(0), Tok::Num(3), Tok::Num(7)]]), recs: one(0, 0) }),
        ("directed_coord_negative", Case { base: m33(vec![vec![Tok::Num(-1), Tok::Num(0), Tok::Num(7)]]), recs: one(0, 0) }),
        ("directed_coord_negative", Case { base: m33(vec![vec![Tok::Num(0), Tok::Num(-1), Tok::Num(7)]]), recs: one(0, 0) }),
        ("directed_coord_negative", Case { base: m33(vec![vec![Tok::Num(-1), Tok::Num(1), Tok::Num(7)]]), recs: one(0, 0) }),
        ("directed_negative_right_id", Case { base: m33(vec![]), recs: one(0, -5) }),
        ("directed_negative_right_id", Case { base: m33(vec![]), recs: one(0, -1) }),
        ("directed_not_indexed", Case { base: m33(vec![]), recs: one(-1, -1) }),
        ("directed_non_square", Case { base: Base::System(good_matrix(3, 2, &mut Rng::new(3))), recs: one(2, 1) }),
        ("directed_non_square", Case { base: Base::System(good_matrix(3, 2, &mut Rng::new(3))), recs: one(1, 2) }),
        ("directed_non_square", Case { base: Base::System(good_matrix(2, 3, &mut Rng::new(3))), recs: one(2, 1) }),
        ("directed_zero_dimension", Case { base: Base::System(vec![vec![Tok::Num(0), Tok::Num(0)]]), recs: one(-1, -1) }),
        ("directed_zero_dimension", Case { base: Base::System(vec![vec![Tok::Num(0), Tok::Num(3)]]), recs: one(-1, -1) }),
        ("directed_negative_dimension", Case { base: Base::System(vec![vec![Tok::Num(-1), Tok::Num(3)]]), recs: one(0, 0) }),
        ("directed_header_three_fields", Case { base: Base::System(vec![vec![Tok::Num(3), Tok::Num(3), Tok::Num(3)]]), recs: one(0, 0) }),
        ("directed_user_non_square", Case { base: Base::User, recs: one(3, 2) }),
        ("directed_user_non_square", Case { base: Base::User, recs: one(2, 3) }),
        ("directed_user_negative_right_id", Case { base: Base::User, recs: one(0, -3) }),
    ];
    for (shape, c) in &directed {
        emit(&mut sink, &env, &mut rng, c, shape);
    }
    // split units that do not spell the headword (known finding)
    {
        let mut recs = good_recs(4, 3, 3, false, &mut Rng::new(11));
        for r in recs.iter_mut() {
            r.split_a.clear();
            r.split_b.clear();
            r.wstruct.clear();
            r.mode = Some(0);
        }
        recs[0].surface = "あい".into();
        recs[1].surface = "ううう".into();
        recs[2].surface = "え".into();
        recs[0].mode = Some(2);
        recs[0].split_a = vec![Wid::Lit(false, 1), Wid::Lit(false, 2)];
        for r in recs.iter_mut() {
            r.left = Num::Lit(0);
            r.right = Num::Lit(0);
        }
        fix_concat_flags(&mut recs, false);
        emit(&mut sink, &env, &mut rng, &Case { base: Base::System(good_matrix(3, 3, &mut Rng::new(5))), recs }, "directed_split_surface_mismatch");
    }
    // user-dictionary dictionary-form reference (known finding, reader side): replayed on the implementation every run
    run_raw(&mut sink, &env, None, "ああ,0,0,100,ああ,名詞,普通名詞,一般,*,*,*,ヨミ,ああ,2,A,*,*,*\n".as_bytes().to_vec(), "directed_user_dic_form_reference");
    // NUL byte in a surface (was a panic of the trie builder)
    run_raw(&mut sink, &env, Some(sys_matrix_text().into_bytes()), "\u{0}ああ,0,0,100,ああ,名詞,普通名詞,一般,*,*,*,ヨミ,ああ,*,A,*,*,*\n".as_bytes().to_vec(), "directed_nul_in_surface");
    run_raw(&mut sink, &env, Some(sys_matrix_text().into_bytes()), Vec::new(), "directed_empty_lexicon");
    // ---- structured stream
    let n = args.n(700, 12000);
    for it in 0..n {
        let user = rng.chance(1, 4);
        let (nl, nr) = if user {
            (SYS_NL, SYS_NR)
        } else {
            let a = rng.range(1, 6);
            (a, if rng.chance(1, 2) { a } else { rng.range(1, 6) })
        };
        let nrows = 1 + rng.below(14) as usize;
        let mut recs = good_recs(nrows, nl, nr, user, &mut rng);
        let mut lines = if user { vec![] } else { good_matrix(nl, nr, &mut rng) };
        let shape: String;
        match if it % 5 == 0 { 0 } else { 1 + rng.below(if user { 1 } else { 2 }) } {
            0 => shape = "all_valid".into(),
            1 => shape = mutate_rec(&mut recs, nl, nr, user, &mut rng).into(),
            _ => {
                // damage the matrix text
                let k = rng.below(10);
                let hdr = lines.iter().position(|l| !l.is_empty()).unwrap();
                shape = match k {
                    0 => {
                        lines.clear();
                        if rng.chance(1, 2) {
                            lines.push(vec![]);
                        }
                        "matrix_no_header".into()
                    }
                    1 => {
                        lines[hdr] = vec![Tok::Num(nl)];
                        "matrix_header_one_field".into()
                    }
                    2 => {
                        lines[hdr] = vec![Tok::Num(nl), Tok::Bad("x".into())];
                        "matrix_header_non_numeric".into()
                    }
                    3 => {
                        lines[hdr] = vec![Tok::Num(*rng.pick(&[-1i64, 32768, -32769, 0])), Tok::Num(nr)];
                        "matrix_header_grid".into()
                    }
                    4 => {
                        let l = *rng.pick(&[nl, nl + 1, -1, 32767, 32768, -32768]);
                        lines.push(vec![Tok::Num(l), Tok::Num(rng.below(nr as u64) as i64), Tok::Num(1)]);
                        "matrix_left_coord_grid".into()
                    }
                    5 => {
                        let r = *rng.pick(&[nr, nr + 1, -1, 32767, 32768, -32768]);
                        lines.push(vec![Tok::Num(rng.below(nl as u64) as i64), Tok::Num(r), Tok::Num(1)]);
                        "matrix_right_coord_grid".into()
                    }
                    6 => {
                        lines.push(vec![Tok::Num(0), Tok::Num(0)]);
                        "matrix_line_two_fields".into()
                    }
                    7 => {
                        lines.push(vec![Tok::Num(0), Tok::Num(0), Tok::Num(1), Tok::Num(2)]);
                        "matrix_line_four_fields".into()
                    }
                    8 => {
                        lines.push(vec![Tok::Num(0), Tok::Num(0), Tok::Num(*rng.pick(&[32768i64, -32769]))]);
                        "matrix_cost_out_of_i16".into()
                    }
                    _ => {
                        lines.push(vec![Tok::Num(0), Tok::Bad("1.0".into()), Tok::Num(1)]);
                        "matrix_line_non_numeric".into()
                    }
                };
            }
        }
        fix_concat_flags(&mut recs, user);
        let case = Case { base: if user { Base::User } else { Base::System(lines) }, recs };
        emit(&mut sink, &env, &mut rng, &case, &shape);
    }
    // ---- fault enumeration
    let ninputs = args.n(6, 40);
    for i in 0..ninputs {
        let user = i % 3 == 2;
        let (nl, nr) = if user { (SYS_NL, SYS_NR) } else { (rng.range(1, 3), rng.range(1, 3)) };
        let recs = good_recs(1 + rng.below(4) as usize, nl, nr, user, &mut rng);
        let case = Case { base: if user { Base::User } else { Base::System(good_matrix(nl, nr, &mut rng)) }, recs };
        fault_enumeration(&mut sink, &env, &mut rng, &case, 1);
    }
    // ---- malformed stream (implementation only)
    for _ in 0..args.n(400, 8000) {
        let user = rng.chance(1, 4);
        let (nl, nr) = if user { (SYS_NL, SYS_NR) } else { (rng.range(1, 4), rng.range(1, 4)) };
        let recs = good_recs(1 + rng.below(6) as usize, nl, nr, user, &mut rng);
        let case = Case { base: if user { Base::User } else { Base::System(good_matrix(nl, nr, &mut rng)) }, recs };
        let matrix = case.matrix_text(&mut rng);
        let lexicon = case.lexicon_text();
        let which = rng.below(3);
        let m = matrix.map(|m| if which != 0 { damage(&m, &mut rng) } else { m.into_bytes() });
        let l = if which != 1 { damage(&lexicon, &mut rng) } else { lexicon.into_bytes() };
        run_raw(&mut sink, &env, m, l, if user { "damaged_bytes_user" } else { "damaged_bytes_system" });
    }
    sink.finish();
}
