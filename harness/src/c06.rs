//! C06 — the dictionary compiler is total and never emits an invalid dictionary.
//!
//! Structured stream: an abstract case (tokenised matrix lines + classified lexicon rows) is generated first and rendered to
//! text; the implementation runs read_conn / read_lexicon / resolve / compile under catch_unwind; every compiled dictionary is
//! loaded and probe texts are analysed in modes A, B, C (debug profile).  Malformed stream: byte-level damage of valid
//! inputs (implementation only).  Fault enumeration: a Write that accepts exactly k bytes, for every k below the total.
//! Builder state carried over between calls: every case compiles twice on the same DictBuilder, and after every injected sink
//! failure the same builder compiles again into a good sink.
use crate::common::*;
#[path = "c06_cli.rs"]
mod cli;
use serde_json::{json, Value};
use std::io::Write;
use sudachi::analysis::stateful_tokenizer::StatefulTokenizer;
use sudachi::analysis::stateless_tokenizer::DictionaryAccess;
use sudachi::analysis::Mode;
use sudachi::config::ConfigBuilder;
use sudachi::dic::build::DictBuilder;
use sudachi::dic::dictionary::JapaneseDictionary;
use sudachi::dic::storage::{Storage, SudachiDicData};

const KANA: [&str; 10] = ["あ", "い", "う", "か", "き", "く", "さ", "し", "す", "た"];
const POS: [&str; 3] = ["名詞,普通名詞,一般,*,*,*", "助詞,格助詞,*,*,*,*", "動詞,一般,*,*,*,*"];
pub const KNOWN_SPLIT: &str = "c06_split_surface_mismatch";
/// user dictionary row with a dictionary-form reference: the builder validates `<n>` against the system dictionary, the reader
/// resolves it inside the user lexicon (defect recorded by the C05/C12 group; only damaged bytes produce it here)
pub const KNOWN_USER_DICFORM: &str = "c06_user_dic_form_reference";

#[derive(Clone, Debug)]
enum Tok {
    Num(i64),
    Bad(String),
}
#[derive(Clone, Debug)]
enum Num {
    Lit(i64),
    Bad(String),
}
#[derive(Clone, Debug)]
enum Wid {
    Lit(bool, i64),
    Bad(String),
}
#[derive(Clone, Debug, PartialEq)]
enum StrKind {
    Ok,
    TooLong,
    BadEscape,
}
#[derive(Clone, Debug)]
struct Rec {
    ncols: usize,
    strings: StrKind,
    surface: String,
    left: Num,
    right: Num,
    cost: Num,
    pos: usize,
    dic_form: Option<Wid>,
    mode: Option<u8>, // None = garbage
    split_a: Vec<Wid>,
    split_b: Vec<Wid>,
    wstruct: Vec<Wid>,
    syn_ok: bool,
    has_syn: bool,
    /// number of synonym group ids in column 18 (2 = the usual `1/22`)
    syn_n: usize,
    splits_concat: bool,
    /// CSV text of the surface when it is not the decoded value held in `surface` (escapes); columns 0, 4 and 12 use it
    surface_text: Option<String>,
    /// column 11 (default ヨミ), column 12 (default: the surface), one POS component replaced
    reading: Option<String>,
    norm: Option<String>,
    pos_over: Option<(usize, String)>,
}
#[derive(Clone, Debug)]
enum Base {
    System(Vec<Vec<Tok>>),
    User,
}
#[derive(Clone, Debug)]
struct Case {
    base: Base,
    recs: Vec<Rec>,
}

// the system dictionary user dictionaries are built against: 4 x 3 matrix, 6 words
const SYS_NL: i64 = 4;
const SYS_NR: i64 = 3;
const SYS_WORDS: usize = 6;

/// the model knows a surface by a number: equal numbers = byte-identical surfaces (FNV-1a over the bytes)
fn surface_key(s: &str) -> u64 {
    let mut h: u64 = 0xcbf29ce484222325;
    for b in s.as_bytes() {
        h ^= *b as u64;
        h = h.wrapping_mul(0x100000001b3);
    }
    h
}

/// what parse.rs::unescape makes of a CSV field: \\uXXXX and \\u{X..} (1..6 hex digits) are decoded, anything else stays as it
/// is; Err for a code point that is no character (surrogates, above U+10FFFF)
fn decode_escapes(s: &str) -> Result<String, ()> {
    let cs: Vec<char> = s.chars().collect();
    let mut out = String::new();
    let mut i = 0;
    while i < cs.len() {
        if cs[i] == '\\' && i + 1 < cs.len() && cs[i + 1] == 'u' {
            let mut j = i + 2;
            let mut hex = String::new();
            let mut matched = false;
            if j < cs.len() && cs[j] == '{' {
                j += 1;
                while j < cs.len() && cs[j].is_ascii_hexdigit() && hex.len() < 6 {
                    hex.push(cs[j]);
                    j += 1;
                }
                if !hex.is_empty() && j < cs.len() && cs[j] == '}' {
                    j += 1;
                    matched = true;
                }
            }
            if !matched {
                hex.clear();
                j = i + 2;
                while j < cs.len() && cs[j].is_ascii_hexdigit() && hex.len() < 4 {
                    hex.push(cs[j]);
                    j += 1;
                }
                matched = hex.len() == 4;
            }
            if matched {
                match char::from_u32(u32::from_str_radix(&hex, 16).unwrap()) {
                    Some(c) => out.push(c),
                    None => return Err(()),
                }
                i = j;
                continue;
            }
        }
        out.push(cs[i]);
        i += 1;
    }
    Ok(out)
}

fn surface_of(i: usize) -> String {
    format!("{}{}", KANA[(i / 10) % 10], KANA[i % 10])
}

fn tok_text(t: &Tok) -> String {
    match t {
        Tok::Num(z) => z.to_string(),
        Tok::Bad(s) => s.clone(),
    }
}
fn num_text(n: &Num) -> String {
    match n {
        Num::Lit(z) => z.to_string(),
        Num::Bad(s) => s.clone(),
    }
}
fn wid_text(w: &Wid) -> String {
    match w {
        Wid::Lit(u, n) => format!("{}{}", if *u { "U" } else { "" }, n),
        Wid::Bad(s) => s.clone(),
    }
}
fn wids_text(ws: &[Wid]) -> String {
    if ws.is_empty() {
        "*".to_string()
    } else {
        ws.iter().map(wid_text).collect::<Vec<_>>().join("/")
    }
}

impl Case {
    fn matrix_text(&self, rng: &mut Rng) -> Option<String> {
        match &self.base {
            Base::User => None,
            Base::System(lines) => {
                let mut s = String::new();
                for l in lines {
                    if !l.is_empty() && rng.chance(1, 6) {
                        s.push_str("  ");
                    }
                    let sep = if rng.chance(1, 5) { "\t" } else if rng.chance(1, 5) { "  " } else { " " };
                    s.push_str(&l.iter().map(tok_text).collect::<Vec<_>>().join(sep));
                    if !l.is_empty() && rng.chance(1, 6) {
                        s.push(' ');
                    }
                    s.push('\n');
                }
                Some(s)
            }
        }
    }
    fn lexicon_text(&self) -> String {
        let mut s = String::new();
        for r in &self.recs {
            let s0 = r.surface_text.clone().unwrap_or_else(|| r.surface.clone());
            let mut cols: Vec<String> = vec![s0.clone(), num_text(&r.left), num_text(&r.right), num_text(&r.cost), s0.clone()];
            let mut pcs: Vec<String> = POS[r.pos % 3].split(',').map(|x| x.to_string()).collect();
            if let Some((k, v)) = &r.pos_over {
                pcs[*k % 6] = v.clone();
            }
            cols.extend(pcs);
            cols.push(match &r.reading {
                Some(x) => x.clone(),
                None if r.strings == StrKind::TooLong => "ア".repeat(11000),
                None => "ヨミ".to_string(),
            });
            cols.push(if r.strings == StrKind::BadEscape { "x\\u{110000}".to_string() } else { r.norm.clone().unwrap_or(s0) });
            cols.push(match &r.dic_form {
                None => "*".to_string(),
                Some(w) => wid_text(w),
            });
            cols.push(match r.mode {
                Some(0) => "A".to_string(),
                Some(1) => "B".to_string(),
                Some(2) => "C".to_string(),
                _ => "Q".to_string(),
            });
            cols.push(wids_text(&r.split_a));
            cols.push(wids_text(&r.split_b));
            cols.push(wids_text(&r.wstruct));
            if r.has_syn {
                cols.push(if r.syn_n != 2 {
                    (0..r.syn_n).map(|k| (k + 1).to_string()).collect::<Vec<_>>().join("/")
                } else if r.syn_ok {
                    "1/22".to_string()
                } else {
                    "1/x".to_string()
                });
            }
            cols.truncate(r.ncols);
            s.push_str(&cols.join(","));
            s.push('\n');
        }
        s
    }
    fn coq_lines(&self) -> String {
        match &self.base {
            Base::System(lines) => clist(lines.iter().map(|l| clist(l.iter().map(|t| match t {
                Tok::Num(z) => format!("TNum {}", cz(*z)),
                Tok::Bad(_) => "TBad".to_string(),
            })))),
            Base::User => "[]".to_string(),
        }
    }
    fn coq_recs(&self) -> String {
        let c = self.coq();
        // (mkInput <base> <recs>)
        let i = c.rfind(" [mkRec").or_else(|| c.rfind(" []")).unwrap();
        c[i + 1..c.len() - 1].to_string()
    }
    fn coq(&self) -> String {
        let base = match &self.base {
            Base::User => format!("(UserDic {} {} {})", cz(SYS_NL), cz(SYS_NR), cz(SYS_WORDS as i64)),
            Base::System(lines) => format!(
                "(SystemDic {})",
                clist(lines.iter().map(|l| clist(l.iter().map(|t| match t {
                    Tok::Num(z) => format!("TNum {}", cz(*z)),
                    Tok::Bad(_) => "TBad".to_string(),
                }))))
            ),
        };
        let num = |n: &Num| match n {
            Num::Lit(z) => format!("(NumLit {})", cz(*z)),
            Num::Bad(_) => "NumBad".to_string(),
        };
        let wid = |w: &Wid| match w {
            Wid::Lit(u, n) => format!("WLit {} {}", cbool(*u), cz(*n)),
            Wid::Bad(_) => "WBad".to_string(),
        };
        let recs = clist(self.recs.iter().map(|r| {
            format!(
                "mkRec {} {} {} {} {} {} {} {} {} {} {} {} {} {} {} {}",
                cz(r.ncols as i64),
                cbool(r.strings == StrKind::Ok),
                cbool(r.surface.is_empty()),
                num(&r.left),
                num(&r.right),
                num(&r.cost),
                match &r.dic_form {
                    None => "None".to_string(),
                    Some(w) => format!("(Some ({}))", wid(w)),
                },
                match r.mode {
                    Some(m) => format!("(Some {})", cz(m as i64)),
                    None => "None".to_string(),
                },
                clist(r.split_a.iter().map(wid)),
                clist(r.split_b.iter().map(wid)),
                clist(r.wstruct.iter().map(wid)),
                cbool(r.syn_ok || !r.has_syn),
                cbool(r.splits_concat),
                cbool(r.surface.contains('\0')),
                cn(surface_key(&r.surface)),
                cbool(r.surface_text.as_deref().unwrap_or(&r.surface).contains('\0'))
            )
        }));
        format!("(mkInput {} {})", base, recs)
    }
}

struct Built {
    status: &'static str,
    msg: String,
    bytes: Vec<u8>,
    /// outcome of a second `compile` on the same builder
    second_status: &'static str,
    second_same: bool,
    second_msg: String,
    second_bytes: Vec<u8>,
}

/// header settings applied to every builder of the current case (DictBuilder::set_description / set_compile_time)
#[derive(Clone, Debug, Default)]
struct Hdr {
    descr: Option<String>,
    time: Option<u64>,
}

struct Env {
    dir: std::path::PathBuf,
    sys_bytes: Vec<u8>,
    hdr: std::cell::RefCell<Hdr>,
    /// the standard build hands matrix and lexicon to the builder as file paths (written under the work directory) instead of bytes
    via_files: std::cell::Cell<bool>,
}

/// the bytes as a file under the work directory: the other kind of `AsDataSource`
fn as_file(env: &Env, name: &str, bytes: &[u8]) -> std::path::PathBuf {
    let p = env.dir.join(name);
    std::fs::write(&p, bytes).expect("write data source file");
    p
}

fn apply_hdr<D: DictionaryAccess>(env: &Env, b: &mut DictBuilder<D>) {
    let h = env.hdr.borrow();
    if let Some(d) = &h.descr {
        b.set_description(d.clone());
    }
    if let Some(t) = h.time {
        b.set_compile_time(std::time::UNIX_EPOCH + std::time::Duration::from_secs(t));
    }
}

fn sys_matrix_text() -> String {
    let mut m = format!("{} {}\n", SYS_NL, SYS_NR);
    for r in 0..SYS_NR {
        for l in 0..SYS_NL {
            m.push_str(&format!("{} {} {}\n", l, r, l * 3 + r));
        }
    }
    m
}
fn sys_lexicon_text() -> String {
    let mut s = String::new();
    for i in 0..SYS_WORDS {
        // ids below both dimensions, so that this dictionary compiles whichever dimension the validation compares with
        s.push_str(&format!("{},{},{},100,{},{},ヨミ,{},*,A,*,*,*\n", surface_of(90 + i), i % 3, i % 3, surface_of(90 + i), POS[i % 3], surface_of(90 + i)));
    }
    s
}

fn config(env: &Env) -> sudachi::config::Config {
    let t = format!(
        "{{\"path\":{},\"characterDefinitionFile\":\"char.def\",\"oovProviderPlugin\":[{{\"class\":\"com.worksap.nlp.sudachi.SimpleOovPlugin\",\"oovPOS\":[\"名詞\",\"普通名詞\",\"一般\",\"*\",\"*\",\"*\"],\"leftId\":0,\"rightId\":0,\"cost\":30000,\"userPOS\":\"allow\"}}]}}",
        serde_json::to_string(&env.dir.to_string_lossy()).unwrap()
    );
    ConfigBuilder::from_bytes(t.as_bytes()).unwrap().build()
}

fn load_system(env: &Env) -> JapaneseDictionary {
    JapaneseDictionary::from_cfg_storage(&config(env), SudachiDicData::new(Storage::Owned(env.sys_bytes.clone()))).expect("system dictionary loads")
}

/// one `compile` call of a session: into a sink that accepts everything, or one that accepts exactly k bytes
#[derive(Clone, Copy, Debug)]
enum Attempt {
    Good,
    Fail(usize),
    /// a sink that takes one byte per `write` call
    OneByte,
}

/// outcome of one compile call (or of the read stage when that already failed: then it is the only element)
#[derive(Clone, Debug)]
struct Attempted {
    status: &'static str,
    msg: String,
    bytes: Vec<u8>,
}

fn attempts_on<D: DictionaryAccess>(b: &mut DictBuilder<D>, attempts: &[Attempt]) -> Vec<Attempted> {
    let mut out = vec![];
    for a in attempts {
        let mut bytes = Vec::new();
        let r = match a {
            Attempt::Good => catch(|| b.compile(&mut bytes).map_err(|e| format!("compile: {}", e))),
            Attempt::Fail(k) => {
                let mut w = FailingWriter { limit: *k, written: 0 };
                catch(|| b.compile(&mut w).map_err(|e| format!("compile: {}", e)))
            }
            Attempt::OneByte => {
                let mut w = OneByte(vec![]);
                let r = catch(|| b.compile(&mut w).map_err(|e| format!("compile: {}", e)));
                bytes = w.0;
                r
            }
        };
        out.push(match r {
            Ok(Ok(())) => Attempted { status: "SOk", msg: String::new(), bytes },
            Ok(Err(e)) => Attempted { status: "SErr", msg: e, bytes: vec![] },
            Err(p) => Attempted { status: "SPanic", msg: p, bytes: vec![] },
        });
    }
    out
}

/// read_conn; read_lexicon; resolve once, then every compile call of `attempts` on the SAME builder.
/// A failure of the read stage is reported as the single outcome.
fn session(env: &Env, matrix: Option<&[u8]>, lexicon: &[u8], attempts: &[Attempt]) -> Vec<Attempted> {
    let read_failed = |r: Result<Result<(), String>, String>| -> Option<Attempted> {
        match r {
            Ok(Ok(())) => None,
            Ok(Err(e)) => Some(Attempted { status: "SErr", msg: e, bytes: vec![] }),
            Err(p) => Some(Attempted { status: "SPanic", msg: p, bytes: vec![] }),
        }
    };
    match matrix {
        Some(m) => {
            let mut b = DictBuilder::new_system();
            apply_hdr(env, &mut b);
            let files = if env.via_files.get() { Some((as_file(env, "session_matrix.def", m), as_file(env, "session_lex.csv", lexicon))) } else { None };
            let r = catch(|| {
                match &files {
                    Some((pm, pl)) => {
                        b.read_conn(pm.as_path()).map_err(|e| format!("read_conn: {}", e))?;
                        b.read_lexicon(pl.as_path()).map_err(|e| format!("read_lexicon: {}", e))?;
                    }
                    None => {
                        b.read_conn(m).map_err(|e| format!("read_conn: {}", e))?;
                        b.read_lexicon(lexicon).map_err(|e| format!("read_lexicon: {}", e))?;
                    }
                }
                b.resolve().map_err(|e| format!("resolve: {}", e))?;
                // resolving again must be harmless (everything is resolved already)
                b.resolve().map_err(|e| format!("second resolve: {}", e))?;
                Ok(())
            });
            match read_failed(r) {
                Some(f) => vec![f],
                None => attempts_on(&mut b, attempts),
            }
        }
        None => {
            let sys = load_system(env);
            let mut b = DictBuilder::new_user(&sys);
            apply_hdr(env, &mut b);
            let file = if env.via_files.get() { Some(as_file(env, "session_lex.csv", lexicon)) } else { None };
            let r = catch(|| {
                match &file {
                    Some(pl) => b.read_lexicon(pl.as_path()).map_err(|e| format!("read_lexicon: {}", e))?,
                    None => b.read_lexicon(lexicon).map_err(|e| format!("read_lexicon: {}", e))?,
                };
                b.resolve().map_err(|e| format!("resolve: {}", e))?;
                // resolving again must be harmless (everything is resolved already)
                b.resolve().map_err(|e| format!("second resolve: {}", e))?;
                Ok(())
            });
            match read_failed(r) {
                Some(f) => vec![f],
                None => attempts_on(&mut b, attempts),
            }
        }
    }
}

/// one call on a builder, in histories of arbitrary order
#[derive(Clone, Debug)]
enum Op {
    Conn(Vec<u8>),
    Lex(Vec<u8>),
    Resolve,
    Compile(Attempt),
}

fn ops_on<D: DictionaryAccess>(env: &Env, b: &mut DictBuilder<D>, ops: &[Op], files: &[bool]) -> Vec<Attempted> {
    let mut out = vec![];
    for (i, op) in ops.iter().enumerate() {
        let file = files.get(i).copied().unwrap_or(false);
        let st = |r: Result<Result<(), String>, String>| match r {
            Ok(Ok(())) => Attempted { status: "SOk", msg: String::new(), bytes: vec![] },
            Ok(Err(e)) => Attempted { status: "SErr", msg: e, bytes: vec![] },
            Err(p) => Attempted { status: "SPanic", msg: p, bytes: vec![] },
        };
        out.push(match op {
            Op::Conn(m) if file => {
                let p = as_file(env, &format!("history_{}_matrix.def", i), m);
                st(catch(|| b.read_conn(p.as_path()).map_err(|e| format!("read_conn: {}", e))))
            }
            Op::Lex(l) if file => {
                let p = as_file(env, &format!("history_{}_lex.csv", i), l);
                st(catch(|| b.read_lexicon(p.as_path()).map(|_| ()).map_err(|e| format!("read_lexicon: {}", e))))
            }
            Op::Conn(m) => st(catch(|| b.read_conn(&m[..]).map_err(|e| format!("read_conn: {}", e)))),
            Op::Lex(l) => st(catch(|| b.read_lexicon(&l[..]).map(|_| ()).map_err(|e| format!("read_lexicon: {}", e)))),
            Op::Resolve => st(catch(|| b.resolve().map(|_| ()).map_err(|e| format!("resolve: {}", e)))),
            Op::Compile(a) => attempts_on(b, &[*a]).pop().unwrap(),
        });
    }
    out
}

/// any history of calls on ONE builder; every call is carried out whatever the earlier ones returned
fn run_history(env: &Env, user: bool, ops: &[Op], files: &[bool]) -> Vec<Attempted> {
    if user {
        let sys = load_system(env);
        let mut b = DictBuilder::new_user(&sys);
        apply_hdr(env, &mut b);
        ops_on(env, &mut b, ops, files)
    } else {
        let mut b = DictBuilder::new_system();
        apply_hdr(env, &mut b);
        ops_on(env, &mut b, ops, files)
    }
}

/// independent reading of a compiled dictionary through the public API: every indexed word's connection ids lie inside the
/// matrix it will be used with, every dictionary-form / split / word-structure reference names an existing word
fn audit_dictionary(env: &Env, user: bool, bytes: &[u8]) -> Option<String> {
    use sudachi::dic::word_id::WordId;
    let cfg = config(env);
    let r = catch(|| {
        let mut data = SudachiDicData::new(Storage::Owned(if user { env.sys_bytes.clone() } else { bytes.to_vec() }));
        if user {
            data.add_user(Storage::Owned(bytes.to_vec()));
        }
        JapaneseDictionary::from_cfg_storage(&cfg, data)
    });
    let dict = match r {
        Ok(Ok(d)) => d,
        Ok(Err(e)) => return Some(format!("compiled dictionary does not load: {}", e)),
        Err(p) => return Some(format!("loading the compiled dictionary panicked: {}", p)),
    };
    let (nl, nr) = (dict.grammar().conn_matrix().num_left() as i64, dict.grammar().conn_matrix().num_right() as i64);
    let total = dict.lexicon().size() as usize;
    let nsys = if user { SYS_WORDS } else { total };
    let nuser = total - nsys;
    let exists = |w: WordId| -> bool { (w.dic() == 0 && (w.word() as usize) < nsys) || (w.dic() == 1 && (w.word() as usize) < nuser) };
    let (dic, n) = if user { (1u8, nuser) } else { (0u8, nsys) };
    for i in 0..n {
        let wid = WordId::new(dic, i as u32);
        let (l, r, _c) = dict.lexicon().get_word_param(wid);
        if l >= 0 && !((l as i64) < nr && r >= 0 && (r as i64) < nl) {
            return Some(format!("word {} of the compiled dictionary has left_id {} / right_id {} outside the {}x{} matrix it is used with", i, l, r, nl, nr));
        }
        let info = match catch(|| dict.lexicon().get_word_info(wid)) {
            Ok(Ok(x)) => x,
            Ok(Err(e)) => return Some(format!("word info {} of the compiled dictionary cannot be read: {}", i, e)),
            Err(p) => return Some(format!("reading word info {} of the compiled dictionary panicked: {}", i, p)),
        };
        for w in info.a_unit_split().iter().chain(info.b_unit_split()).chain(info.word_structure()) {
            if !exists(*w) {
                return Some(format!("word {} of the compiled dictionary refers to {:?}, which does not exist ({} system / {} user words)", i, w, nsys, nuser));
            }
        }
        let df = info.dictionary_form_word_id();
        // a user entry's dictionary form is resolved inside the user lexicon by the reader (recorded finding): not audited here
        if !user && df >= 0 && df as usize >= nsys {
            return Some(format!("word {} of the compiled dictionary has dictionary form {}, there are {} words", i, df, nsys));
        }
    }
    None
}

/// the index of a compiled dictionary, through the public API: the word ids `lookup` returns for a surface are exactly the
/// indexed words (left_id >= 0) of that dictionary which have this surface -- none lost, none invented.
/// Only for lexicons rendered by this file (column 0 = column 4, so that WordInfo::surface is the key of the index).
fn index_audit(env: &Env, user: bool, bytes: &[u8]) -> Option<String> {
    use sudachi::dic::word_id::WordId;
    let cfg = config(env);
    let r = catch(|| {
        let mut data = SudachiDicData::new(Storage::Owned(if user { env.sys_bytes.clone() } else { bytes.to_vec() }));
        if user {
            data.add_user(Storage::Owned(bytes.to_vec()));
        }
        JapaneseDictionary::from_cfg_storage(&cfg, data)
    });
    let dict = match r {
        Ok(Ok(d)) => d,
        _ => return None, // reported by load_and_analyse
    };
    let total = dict.lexicon().size() as usize;
    let (dic, n) = if user { (1u8, total - SYS_WORDS.min(total)) } else { (0u8, total) };
    let mut by_surface: std::collections::BTreeMap<String, Vec<u32>> = Default::default();
    for i in 0..n {
        let wid = WordId::new(dic, i as u32);
        let (l, _r, _c) = dict.lexicon().get_word_param(wid);
        if l < 0 {
            continue;
        }
        match catch(|| dict.lexicon().get_word_info(wid)) {
            Ok(Ok(info)) => by_surface.entry(info.surface().to_string()).or_default().push(i as u32),
            _ => return None, // reported by the audit of the entries
        }
    }
    for (s, ids) in by_surface.iter() {
        let found = catch(|| {
            let mut v: Vec<u32> = dict.lexicon().lookup(s.as_bytes(), 0).filter(|e| e.end as usize == s.len() && e.word_id.dic() == dic).map(|e| e.word_id.word()).collect();
            v.sort();
            v
        });
        match found {
            Err(p) => return Some(format!("lookup of the surface {:?} in the compiled dictionary panicked: {}", s, p)),
            Ok(v) => {
                if &v != ids {
                    let missing: Vec<u32> = ids.iter().filter(|i| !v.contains(i)).cloned().collect();
                    let extra: Vec<u32> = v.iter().filter(|i| !ids.contains(i)).cloned().collect();
                    return Some(format!(
                        "{} indexed entries of the lexicon have the surface {:?}; looking that surface up in the compiled dictionary returns {} word ids ({} of the entries are not found, first: {:?}; {} ids that are not such entries, first: {:?})",
                        ids.len(), s, v.len(), missing.len(), missing.first(), extra.len(), extra.first()
                    ));
                }
            }
        }
    }
    None
}

/// every string of every row comes back from the compiled dictionary as it was written (after decoding its escapes): the
/// headword (WordInfo::surface), the byte length of the surface (head_word_length), reading, normalised form and the six POS
/// components.  Only for lexicons rendered by this file (no quoted fields), one row per line.
fn strings_audit(env: &Env, user: bool, bytes: &[u8], lexicon: &str) -> Option<String> {
    use sudachi::dic::word_id::WordId;
    let mut rows: Vec<Vec<String>> = vec![];
    for l in lexicon.split('\n').filter(|l| !l.is_empty()) {
        let c: Vec<&str> = l.split(',').collect();
        if c.len() < 13 {
            return None;
        }
        let mut d = vec![];
        for k in [0usize, 4, 5, 6, 7, 8, 9, 10, 11, 12] {
            match decode_escapes(c[k]) {
                Ok(x) => d.push(x),
                Err(_) => return None,
            }
        }
        rows.push(d);
    }
    let cfg = config(env);
    let r = catch(|| {
        let mut data = SudachiDicData::new(Storage::Owned(if user { env.sys_bytes.clone() } else { bytes.to_vec() }));
        if user {
            data.add_user(Storage::Owned(bytes.to_vec()));
        }
        JapaneseDictionary::from_cfg_storage(&cfg, data)
    });
    let dict = match r {
        Ok(Ok(d)) => d,
        _ => return None, // reported by load_and_analyse
    };
    let total = dict.lexicon().size() as usize;
    let (dic, n) = if user { (1u8, total - SYS_WORDS.min(total)) } else { (0u8, total) };
    if n != rows.len() {
        return Some(format!("the lexicon has {} rows, the compiled dictionary {} words", rows.len(), n));
    }
    let show = |x: &str| -> String {
        let units = x.encode_utf16().count();
        if x.chars().count() > 24 { format!("{:?}.. ({} UTF-16 code units, {} bytes)", x.chars().take(12).collect::<String>(), units, x.len()) } else { format!("{:?} ({} UTF-16 code units, {} bytes)", x, units, x.len()) }
    };
    for (i, row) in rows.iter().enumerate() {
        let wid = WordId::new(dic, i as u32);
        let info = match catch(|| dict.lexicon().get_word_info(wid)) {
            Ok(Ok(x)) => x,
            Ok(Err(e)) => return Some(format!("the word info of row {} cannot be read back: {}", i, e)),
            Err(p) => return Some(format!("reading back the word info of row {} panicked: {}", i, p)),
        };
        let pos: Vec<String> = dict.grammar().pos_list.get(info.pos_id() as usize).cloned().unwrap_or_default();
        let got: Vec<(&str, String, &String)> = vec![
            ("headword", info.surface().to_string(), &row[1]),
            ("reading", info.reading_form().to_string(), &row[8]),
            ("normalized form", info.normalized_form().to_string(), &row[9]),
        ];
        for (what, g, want) in got {
            if &g != want {
                return Some(format!("the {} of row {} was written as {} and reads back as {}", what, i, show(want), show(&g)));
            }
        }
        if info.head_word_length() as usize != row[0].len() {
            return Some(format!("the surface of row {} has {} bytes, the compiled dictionary says {}", i, row[0].len(), info.head_word_length()));
        }
        for k in 0..6 {
            if pos.get(k) != Some(&row[2 + k]) {
                return Some(format!("POS component {} of row {} was written as {} and reads back as {}", k + 1, i, show(&row[2 + k]), pos.get(k).map(|x| show(x)).unwrap_or_else(|| "nothing".to_string())));
            }
        }
    }
    None
}

/// two dictionaries are the same up to the creation time stored in the header (bytes 8..16)
fn same_dict(a: &[u8], b: &[u8]) -> bool {
    a.len() == b.len() && (a.len() < 16 || (a[..8] == b[..8] && a[16..] == b[16..]))
}

/// the standard build of every case: compile TWICE on the same builder; `second` is the outcome of the repeated call
fn build(env: &Env, matrix: Option<&[u8]>, lexicon: &[u8]) -> Built {
    let mut r = session(env, matrix, lexicon, &[Attempt::Good, Attempt::Good]);
    let first = r.remove(0);
    let (second_status, second_same, second_msg, second_bytes) = match r.pop() {
        Some(s) => (s.status, s.status == first.status && s.bytes == first.bytes, s.msg, s.bytes),
        // the read stage failed: there is no compile call to repeat
        None => (first.status, true, String::new(), vec![]),
    };
    Built { status: first.status, msg: first.msg, bytes: first.bytes, second_status, second_same, second_msg, second_bytes }
}

/// what the repeated compile of one builder must be: the same outcome, byte for byte
fn check_second(env: &Env, user: bool, b: &Built, probes: &[String]) -> Option<String> {
    if b.second_same {
        return None;
    }
    if b.second_status != b.status {
        return Some(format!("first compile of the builder reported {}, a second compile on the same builder reported {} {}", b.status, b.second_status, b.second_msg));
    }
    let lr = load_and_analyse(env, user, &b.second_bytes, probes);
    Some(format!(
        "a second compile on the same builder reported success with different bytes ({} instead of {}); that output: {}",
        b.second_bytes.len(),
        b.bytes.len(),
        if lr.ok { "loads".to_string() } else { lr.msg }
    ))
}

struct LoadResult {
    ok: bool,
    msg: String,
    dims: (i64, i64),
    cells: Vec<(i64, i64, i64)>,
}

/// load the compiled dictionary and analyse the probe texts in every mode, touching every field of every morpheme
fn load_and_analyse(env: &Env, user: bool, bytes: &[u8], probes: &[String]) -> LoadResult {
    let mut res = LoadResult { ok: true, msg: String::new(), dims: (0, 0), cells: vec![] };
    let cfg = config(env);
    let r = catch(|| {
        let mut data = SudachiDicData::new(Storage::Owned(if user { env.sys_bytes.clone() } else { bytes.to_vec() }));
        if user {
            data.add_user(Storage::Owned(bytes.to_vec()));
        }
        JapaneseDictionary::from_cfg_storage(&cfg, data)
    });
    let dict = match r {
        Ok(Ok(d)) => d,
        Ok(Err(e)) => {
            res.ok = false;
            res.msg = format!("compiled dictionary does not load: {}", e);
            return res;
        }
        Err(p) => {
            res.ok = false;
            res.msg = format!("loading the compiled dictionary panicked: {}", p);
            return res;
        }
    };
    let (nl, nr) = (dict.grammar().conn_matrix().num_left() as i64, dict.grammar().conn_matrix().num_right() as i64);
    res.dims = (nl, nr);
    if nl * nr <= 400 {
        for r in 0..nr {
            for l in 0..nl {
                res.cells.push((l, r, dict.grammar().connect_cost(l as i16, r as i16) as i64));
            }
        }
    }
    for t in probes {
        for mode in [Mode::C, Mode::B, Mode::A] {
            let r = catch(|| -> Result<usize, String> {
                let mut tok = StatefulTokenizer::new(&dict, mode);
                tok.reset().push_str(t);
                tok.do_tokenize().map_err(|e| format!("{}", e))?;
                let ml = tok.into_morpheme_list().map_err(|e| format!("{}", e))?;
                let mut n = 0;
                for m in ml.iter() {
                    n += m.surface().len() + m.dictionary_form().len() + m.normalized_form().len() + m.reading_form().len() + m.part_of_speech().len();
                    n += m.synonym_group_ids().len();
                    for sm in [Mode::A, Mode::B] {
                        let sub = m.split(sm).map_err(|e| format!("{}", e))?;
                        for x in sub.iter() {
                            n += x.surface().len() + x.part_of_speech().len();
                        }
                    }
                }
                Ok(n)
            });
            match r {
                Ok(Ok(_)) => {}
                Ok(Err(e)) => {
                    res.ok = false;
                    res.msg = format!("analysis of {:?} in mode {:?} returned an error: {}", t, mode, e);
                    return res;
                }
                Err(p) => {
                    res.ok = false;
                    res.msg = format!("analysis of {:?} in mode {:?} panicked: {}", t, mode, p);
                    return res;
                }
            }
        }
    }
    res
}

fn probes(case: &Case) -> Vec<String> {
    let mut all = String::new();
    let mut v = vec![];
    for r in case.recs.iter().take(40) {
        if r.surface.len() <= 3000 {
            all.push_str(&r.surface);
        }
        v.push(r.surface.clone());
    }
    v.truncate(12);
    v.push(format!("{}x1。", all));
    v.push((90..96).map(surface_of).collect::<String>());
    v.push(String::new());
    v
}

fn desc(case: &Case, matrix: &Option<String>, lexicon: &str, shape: &str) -> Value {
    let lx: String = if lexicon.len() > 200_000 { format!("{}...[{} bytes]", lexicon.chars().take(300).collect::<String>(), lexicon.len()) } else { lexicon.to_string() };
    json!({"kind": "c06", "shape": shape, "user": matches!(case.base, Base::User), "matrix": matrix, "lexicon": lx,
           "known_class": if case.recs.iter().any(|r| !r.splits_concat) { KNOWN_SPLIT } else { "" }})
}

fn emit(sink: &mut Sink, env: &Env, rng: &mut Rng, case: &Case, shape: &str) {
    let matrix = case.matrix_text(rng);
    let lexicon = case.lexicon_text();
    run_texts(sink, env, Some(case), matrix, lexicon, shape, false, true);
}

/// run one (matrix text, lexicon text) pair; with `case` the Coq term is produced too
fn run_texts(sink: &mut Sink, env: &Env, case: Option<&Case>, matrix: Option<String>, lexicon: String, shape: &str, verbose: bool, rendered_here: bool) {
    let user = matrix.is_none();
    let b = build(env, matrix.as_ref().map(|m| m.as_bytes()), lexicon.as_bytes());
    let pr = match case {
        Some(c) => probes(c),
        None => vec![lexicon.chars().filter(|c| !c.is_ascii() && *c != '\u{feff}').take(60).collect::<String>(), "あいxか1。".to_string()],
    };
    let lr = if b.status == "SOk" { load_and_analyse(env, user, &b.bytes, &pr) } else { LoadResult { ok: true, msg: String::new(), dims: (0, 0), cells: vec![] } };
    sink.tag(shape);
    sink.tag(&format!("impl={}", b.status));
    sink.tag(if user { "user_dictionary" } else { "system_dictionary" });
    let mismatch = case.map(|c| c.recs.iter().any(|r| !r.splits_concat)).unwrap_or(false);
    let d = match case {
        Some(c) => {
            let mut dd = desc(c, &matrix, &lexicon, shape);
            let h = env.hdr.borrow();
            dd["via_files"] = json!(env.via_files.get());
            dd["descr"] = json!(h.descr);
            dd["time"] = json!(h.time);
            dd
        }
        None => json!({"kind": "c06-raw", "shape": shape, "matrix": matrix, "lexicon": lexicon, "known_class": ""}),
    };
    // success => every string of every row reads back as written
    let strings_back = if rendered_here && b.status == "SOk" && lr.ok { strings_audit(env, user, &b.bytes, &lexicon) } else { None };
    // most frequent surface among the indexed rows (only for lexicons rendered by this file)
    let mut most: Option<(String, usize)> = None;
    if rendered_here {
        let mut count: std::collections::BTreeMap<String, usize> = Default::default();
        for r in parse_back_lexicon(&lexicon) {
            if matches!(r.left, Num::Lit(x) if x >= 0) {
                *count.entry(r.surface.clone()).or_default() += 1;
            }
        }
        most = count.into_iter().max_by_key(|(_, k)| *k);
    }
    if verbose {
        if let Some((s, k)) = &most {
            if *k > 100 {
                println!("{} indexed rows (left_id >= 0) have the surface {:?}: their ids form one array of the word-id table, the format allows 127 elements", k, s);
            }
        }
        println!("matrix text: {:?}\nlexicon text: {:?}", matrix, if lexicon.len() > 4000 { format!("{}...[{} bytes]", lexicon.chars().take(600).collect::<String>(), lexicon.len()) } else { lexicon.clone() });
        println!("implementation: build {} {}", b.status, b.msg);
        println!("  compiled bytes: {}; loads and analyses: {} {}", b.bytes.len(), lr.ok, lr.msg);
        println!("  second compile on the same builder: {} {}; same outcome and bytes: {}", b.second_status, b.second_msg, b.second_same);
        println!("  matrix read back: dims {:?}, cells {:?}", lr.dims, lr.cells.iter().take(30).collect::<Vec<_>>());
    }
    let id = match case {
        Some(c) => {
            // the known finding is excluded from the predicate only for the analysis clause; everything else is still compared
            let analyses = (lr.ok && strings_back.is_none()) || (mismatch && lr.msg.contains("analysis"));
            let h = env.hdr.borrow().clone();
            let hdr_bytes: Vec<u8> = b.bytes.iter().take(272).cloned().collect();
            let time = match h.time {
                Some(t) => t,
                // not set: whatever the builder took from the clock
                None => if hdr_bytes.len() >= 16 { u64::from_le_bytes(hdr_bytes[8..16].try_into().unwrap()) } else { 0 },
            };
            let term = format!(
                "check_build_h {} {} {} {} {} {} {} {} ({}, {}) {} {}",
                c.coq(),
                cbool(user),
                cn(time),
                ctext(h.descr.as_deref().unwrap_or("")),
                cbytes(&hdr_bytes),
                b.status,
                b.second_status,
                cbool(b.second_same),
                cz(lr.dims.0),
                cz(lr.dims.1),
                clist(lr.cells.iter().map(|(l, r, v)| format!("({}, {}, {})", cz(*l), cz(*r), cz(*v)))),
                cbool(analyses)
            );
            sink.case(term, d, b.status != "SOk" || c.recs.len() > 1)
        }
        None => sink.case_rust_only(d, b.status != "SOk"),
    };
    if b.status == "SPanic" {
        sink.fail(id, &format!("compilation panicked: {}", b.msg), "");
    } else if b.status == "SOk" && !lr.ok {
        let cls = if mismatch && lr.msg.contains("analysis") { KNOWN_SPLIT } else { "" };
        sink.fail(id, &format!("compilation reported success, then {}", lr.msg), cls);
    }
    if let Some(what) = check_second(env, user, &b, &pr) {
        sink.fail(id, &what, "");
    }
    if b.status == "SOk" {
        if let Some(what) = check_header(env, &b.bytes) {
            sink.fail(id, &what, "");
        }
        if let Some((s, k)) = &most {
            if *k > 127 {
                sink.fail(id, &format!("compilation reported success for a lexicon in which {} indexed rows have the surface {:?}: the ids of one surface form one array of the word-id table, which the format limits to 127 elements", k, s), "");
            }
        }
        if let Some(what) = &strings_back {
            if verbose {
                println!("  strings read back: {}", what);
            }
            sink.fail(id, &format!("compilation reported success, but {}", what), "");
        }
        if rendered_here {
            if let Some(what) = index_audit(env, user, &b.bytes) {
                if verbose {
                    println!("  index read back: {}", what);
                }
                sink.fail(id, &format!("compilation reported success, but {}", what), "");
            }
        }
    }
}

/// the header of a compiled dictionary read back through Header::parse: description and time are the ones that were set
fn check_header(env: &Env, bytes: &[u8]) -> Option<String> {
    let h = env.hdr.borrow();
    match sudachi::dic::header::Header::parse(bytes) {
        Err(e) => Some(format!("the header of the compiled dictionary cannot be parsed: {:?}", e)),
        Ok(p) => {
            if let Some(d) = &h.descr {
                if !d.contains('\0') && &p.description != d {
                    return Some(format!("description set on the builder ({} bytes, {} characters) does not come back from the header: got {} bytes", d.len(), d.chars().count(), p.description.len()));
                }
            }
            if let Some(t) = h.time {
                if p.create_time != t {
                    return Some(format!("compile time {} set on the builder, header says {}", t, p.create_time));
                }
            }
            None
        }
    }
}

/// descriptions around the 256-byte field: ASCII and multi-byte text at 255 / 256 / 257 bytes and characters
fn gen_hdr(rng: &mut Rng) -> Hdr {
    let rep = |s: &str, n: usize| s.repeat(n);
    let descr = match rng.below(14) {
        0 => None,
        1 => Some(String::new()),
        2 => Some(rep("d", *rng.pick(&[1usize, 100, 255, 256, 257, 300]))),
        3 => Some(rep("辞", *rng.pick(&[1usize, 85, 86, 100, 256, 257]))),
        4 => Some(rep("é", *rng.pick(&[127usize, 128, 129, 256]))),
        5 => Some(rep("𠮷", *rng.pick(&[63usize, 64, 65, 256]))),
        6 | 7 => {
            // mixed text with a chosen byte length
            let total = *rng.pick(&[254usize, 255, 256, 257, 258, 259]);
            let k = rng.below(80) as usize;
            let mut s = rep("書", k.min(total / 3));
            while s.len() < total {
                s.push('x');
            }
            Some(s)
        }
        8 => Some("system dictionary 2026".to_string()),
        9 => Some("ab\u{0}cd".to_string()),
        10 => Some(rep("辞", 85) + "x"),
        11 => Some(rep("辞", 85) + "é"),
        12 => Some("x".to_string() + &rep("辞", 85)),
        _ => Some(rep("あ", 200)),
    };
    let time = match rng.below(5) {
        0 => Some(0),
        1 => Some(1),
        2 => Some(4294967296 + rng.below(1000)),
        3 => Some(1700000000 + rng.below(100000)),
        _ => None,
    };
    Hdr { descr, time }
}

// ---------------------------------------------------------------- call histories

/// one call of a modelled history: the abstract form (for the model) and the text handed to the implementation
#[derive(Clone, Debug)]
enum HOp {
    Conn(Vec<Vec<Tok>>, String),
    Lex(Vec<Rec>, String),
    Resolve,
    Compile,
}

fn hop_name(o: &HOp) -> &'static str {
    match o {
        HOp::Conn(..) => "read_conn",
        HOp::Lex(..) => "read_lexicon",
        HOp::Resolve => "resolve",
        HOp::Compile => "compile",
    }
}

fn source_name(files: &[bool], i: usize) -> &'static str {
    if files.get(i).copied().unwrap_or(false) { "file" } else { "bytes" }
}

fn hops_json(ops: &[HOp], files: &[bool]) -> Value {
    json!(ops
        .iter()
        .enumerate()
        .map(|(i, o)| match o {
            HOp::Conn(_, t) => json!({"op": "read_conn", "text": t, "source": source_name(files, i)}),
            HOp::Lex(_, t) => json!({"op": "read_lexicon", "text": t, "source": source_name(files, i)}),
            HOp::Resolve => json!({"op": "resolve"}),
            HOp::Compile => json!({"op": "compile"}),
        })
        .collect::<Vec<_>>())
}

struct CallObs {
    status: &'static str,
    msg: String,
    dims: (i64, i64),
    cells: Vec<(i64, i64, i64)>,
    fine: bool,
    problem: String,
}

/// run a history on the implementation; every successful compile is audited, loaded and used for analysis
fn observe_history(env: &Env, user: bool, ops: &[Op], files: &[bool], probes: &[String], rendered_here: bool) -> Vec<CallObs> {
    let rs = run_history(env, user, ops, files);
    ops.iter()
        .zip(rs.into_iter())
        .map(|(o, r)| {
            let mut ob = CallObs { status: r.status, msg: r.msg, dims: (0, 0), cells: vec![], fine: true, problem: String::new() };
            if let (Op::Compile(_), "SOk") = (o, r.status) {
                if !r.bytes.is_empty() {
                    if let Some(a) = audit_dictionary(env, user, &r.bytes) {
                        ob.fine = false;
                        ob.problem = a;
                    }
                    if rendered_here && ob.fine {
                        if let Some(a) = index_audit(env, user, &r.bytes) {
                            ob.fine = false;
                            ob.problem = a;
                        }
                    }
                    let lr = load_and_analyse(env, user, &r.bytes, probes);
                    ob.dims = lr.dims;
                    ob.cells = lr.cells;
                    if !lr.ok && ob.fine {
                        ob.fine = false;
                        ob.problem = lr.msg;
                    }
                    if ob.fine {
                        if let Some(h) = check_header(env, &r.bytes) {
                            ob.fine = false;
                            ob.problem = h;
                        }
                    }
                }
            }
            ob
        })
        .collect()
}

fn emit_history(sink: &mut Sink, env: &Env, user: bool, hops: &[HOp], shape: &str, verbose: bool) {
    emit_history_src(sink, env, user, hops, &[], shape, verbose)
}

/// `files[i]`: call i hands its text to the builder as a file path instead of bytes in memory (the model is the same)
fn emit_history_src(sink: &mut Sink, env: &Env, user: bool, hops: &[HOp], files: &[bool], shape: &str, verbose: bool) {
    let ops: Vec<Op> = hops
        .iter()
        .map(|o| match o {
            HOp::Conn(_, t) => Op::Conn(t.clone().into_bytes()),
            HOp::Lex(_, t) => Op::Lex(t.clone().into_bytes()),
            HOp::Resolve => Op::Resolve,
            HOp::Compile => Op::Compile(Attempt::Good),
        })
        .collect();
    let mut probes: Vec<String> = vec![];
    for o in hops {
        if let HOp::Lex(recs, _) = o {
            probes.push(recs.iter().take(10).map(|r| r.surface.clone()).collect::<String>());
        }
    }
    probes.push("x1。".to_string());
    let obs = observe_history(env, user, &ops, files, &probes, true);
    let coq_src = |i: usize| if files.get(i).copied().unwrap_or(false) { "SFile" } else { "SBytes" };
    let coq_ops = clist(hops.iter().enumerate().map(|(i, o)| match o {
        HOp::Conn(lines, _) => format!("OConn {} {}", coq_src(i), Case { base: Base::System(lines.clone()), recs: vec![] }.coq_lines()),
        HOp::Lex(recs, _) => format!("OLex {} {}", coq_src(i), Case { base: Base::User, recs: recs.clone() }.coq_recs()),
        HOp::Resolve => "OResolve".to_string(),
        HOp::Compile => "OCompile".to_string(),
    }));
    let coq_obs = clist(obs.iter().map(|o| {
        format!(
            "({}, ({}, {}), {}, {})",
            o.status,
            cz(o.dims.0),
            cz(o.dims.1),
            clist(o.cells.iter().map(|(l, r, v)| format!("({}, {}, {})", cz(*l), cz(*r), cz(*v)))),
            cbool(o.fine)
        )
    }));
    let term = format!(
        "check_history {} {} {} {} {} {} {}",
        cbool(user), cz(SYS_NL), cz(SYS_NR), cz(SYS_WORDS as i64), ctext(env.hdr.borrow().descr.as_deref().unwrap_or("")), coq_ops, coq_obs
    );
    sink.tag(&format!("history:{}", shape));
    if files.iter().any(|f| *f) {
        sink.tag("history_with_file_sources");
    }
    sink.tag_n("history_calls", hops.len() as u64);
    let d = json!({"kind": "c06-history", "shape": shape, "user": user, "ops": hops_json(hops, files), "known_class": "",
                   "descr": env.hdr.borrow().descr, "time": env.hdr.borrow().time});
    let id = sink.case(term, d, true);
    let mut conn_ok = false;
    for (i, (h, o)) in hops.iter().zip(obs.iter()).enumerate() {
        if verbose {
            println!("  call {} {} -> {} {}{}", i + 1, hop_name(h), o.status, o.msg, if o.fine { String::new() } else { format!("  [{}]", o.problem) });
        }
        if o.status == "SPanic" {
            sink.fail(id, &format!("call {} ({}) of the history {} panicked: {}", i + 1, hop_name(h), history_names(hops, files), o.msg), "");
        }
        if let HOp::Compile = h {
            if o.status == "SOk" && !o.fine && (user || conn_ok) {
                sink.fail(id, &format!("call {} (compile) of the history {} reported success, but {}", i + 1, history_names(hops, files), o.problem), "");
            }
        }
        if let HOp::Conn(..) = h {
            conn_ok = conn_ok || o.status == "SOk";
        }
    }
}

fn history_names(hops: &[HOp], files: &[bool]) -> String {
    format!("[{}]", hops.iter().enumerate().map(|(i, h)| if files.get(i).copied().unwrap_or(false) { format!("{}(file)", hop_name(h)) } else { hop_name(h).to_string() }).collect::<Vec<_>>().join(", "))
}

/// inverse of the renderers of this file (matrix_text / lexicon_text), so that a replay can hand the abstract calls to the model
fn parse_back_matrix(t: &str) -> Vec<Vec<Tok>> {
    t.split('\n')
        .map(|l| l.split_whitespace().map(|w| match w.parse::<i64>() { Ok(z) if !w.starts_with('+') => Tok::Num(z), _ => Tok::Bad(w.to_string()) }).collect())
        .collect::<Vec<Vec<Tok>>>()
        .into_iter()
        .rev()
        .skip_while(|l: &Vec<Tok>| l.is_empty())
        .collect::<Vec<_>>()
        .into_iter()
        .rev()
        .collect()
}
fn parse_back_lexicon(t: &str) -> Vec<Rec> {
    let num = |s: &str| match s.parse::<i64>() { Ok(z) if !s.starts_with('+') => Num::Lit(z), _ => Num::Bad(s.to_string()) };
    let wid = |s: &str| -> Wid {
        let (u, d) = if let Some(r) = s.strip_prefix('U') { (true, r) } else { (false, s) };
        match d.parse::<i64>() { Ok(z) if !d.is_empty() && d.chars().all(|c| c.is_ascii_digit()) => Wid::Lit(u, z), _ => Wid::Bad(s.to_string()) }
    };
    let wids = |s: &str| -> Vec<Wid> { if s == "*" || s.is_empty() { vec![] } else { s.split('/').map(wid).collect() } };
    t.lines().filter(|l| !l.is_empty()).map(|l| {
        let c: Vec<&str> = l.split(',').collect();
        let g = |i: usize| -> &str { c.get(i).copied().unwrap_or("") };
        let pos = POS.iter().position(|p| p.split(',').collect::<Vec<_>>() == c.get(5..11).map(|x| x.to_vec()).unwrap_or_default()).unwrap_or(0);
        let text_cols: Vec<&str> = std::iter::once(g(0)).chain((4..13).map(|i| g(i))).collect();
        let decoded0 = decode_escapes(g(0));
        Rec {
            ncols: c.len(),
            strings: if text_cols.iter().any(|x| x.len() > 32767) {
                StrKind::TooLong
            } else if text_cols.iter().any(|x| decode_escapes(x).is_err()) {
                StrKind::BadEscape
            } else {
                StrKind::Ok
            },
            surface: decoded0.clone().unwrap_or_else(|_| g(0).to_string()),
            surface_text: match &decoded0 { Ok(d) if d == g(0) => None, _ => Some(g(0).to_string()) },
            reading: if c.len() > 11 && g(11) != "ヨミ" { Some(g(11).to_string()) } else { None },
            norm: if c.len() > 12 && g(12) != g(0) { Some(g(12).to_string()) } else { None },
            pos_over: None,
            left: num(g(1)),
            right: num(g(2)),
            cost: num(g(3)),
            pos,
            dic_form: if g(13) == "*" || c.len() <= 13 { None } else { Some(wid(g(13))) },
            mode: match g(14) { "A" => Some(0), "B" => Some(1), "C" => Some(2), _ => None },
            split_a: wids(g(15)),
            split_b: wids(g(16)),
            wstruct: wids(g(17)),
            syn_ok: c.len() < 19 || g(18) == "1/22" || (g(18).split('/').count() <= 127 && g(18).split('/').all(|x| !x.is_empty() && x.chars().all(|ch| ch.is_ascii_digit()))),
            has_syn: c.len() >= 19,
            syn_n: if c.len() >= 19 { g(18).split('/').count() } else { 2 },
            splits_concat: true,
        }
    }).collect()
}

fn replay_history(sink: &mut Sink, env: &Env, c: &Value) {
    let user = c["user"].as_bool().unwrap_or(false);
    if c["shape"] == "rust_only" {
        // implementation only: the texts of the calls are replayed in order
        let mut ops = vec![];
        let files: Vec<bool> = c["ops"].as_array().unwrap().iter().map(|o| o["source"] == "file").collect();
        for o in c["ops"].as_array().unwrap() {
            ops.push(match o["op"].as_str().unwrap() {
                "read_conn" => Op::Conn(o["text"].as_str().unwrap().as_bytes().to_vec()),
                "read_lexicon" => Op::Lex(o["text"].as_str().unwrap().as_bytes().to_vec()),
                "resolve" => Op::Resolve,
                _ => Op::Compile(Attempt::Good),
            });
        }
        let obs = observe_history(env, user, &ops, &files, &["ああいいううええ".to_string()], false);
        println!("history on one {} builder (implementation only; failing sinks of the original run are replayed as good sinks):", if user { "user-dictionary" } else { "system-dictionary" });
        let id = sink.case_rust_only(json!({"kind": "c06-history", "shape": "replay"}), true);
        let mut conn_ok = false;
        for (i, (o, ob)) in ops.iter().zip(obs.iter()).enumerate() {
            let (name, text) = match o {
                Op::Conn(t) => ("read_conn", String::from_utf8_lossy(t).to_string()),
                Op::Lex(t) => ("read_lexicon", String::from_utf8_lossy(t).to_string()),
                Op::Resolve => ("resolve", String::new()),
                Op::Compile(_) => ("compile", String::new()),
            };
            println!("  call {} {}{} {:?} -> {} {}", i + 1, name, if files[i] { " (as a file path)" } else { "" }, text.chars().take(200).collect::<String>(), ob.status, ob.msg);
            if ob.status == "SPanic" {
                sink.fail(id, &format!("call {} ({}) panicked: {}", i + 1, name, ob.msg), "");
            }
            if name == "compile" && ob.status == "SOk" && !ob.fine && (user || conn_ok) {
                sink.fail(id, &format!("call {} (compile) reported success, but {}", i + 1, ob.problem), "");
            }
            if name == "read_conn" {
                conn_ok = conn_ok || ob.status == "SOk";
            }
        }
        return;
    }
    let mut hops = vec![];
    let files: Vec<bool> = c["ops"].as_array().unwrap().iter().map(|o| o["source"] == "file").collect();
    for o in c["ops"].as_array().unwrap() {
        let text = o["text"].as_str().unwrap_or("").to_string();
        hops.push(match o["op"].as_str().unwrap() {
            "read_conn" => HOp::Conn(parse_back_matrix(&text), text),
            "read_lexicon" => HOp::Lex(parse_back_lexicon(&text), text),
            "resolve" => HOp::Resolve,
            _ => HOp::Compile,
        });
    }
    println!("history on one {} builder:", if user { "user-dictionary" } else { "system-dictionary" });
    for (i, h) in hops.iter().enumerate() {
        match h {
            HOp::Conn(_, t) | HOp::Lex(_, t) => println!("  call {} {}{} {:?}", i + 1, hop_name(h), if files[i] { " (as a file path)" } else { "" }, t.chars().take(300).collect::<String>()),
            _ => println!("  call {} {}", i + 1, hop_name(h)),
        }
    }
    println!("implementation:");
    emit_history_src(sink, env, user, &hops, &files, "replay", true);
}

/// a chunk of simple rows (no split references) with ids valid for an nl x nr matrix, surfaces unique per chunk number
fn chunk(k: usize, n: usize, nl: i64, nr: i64, rng: &mut Rng) -> Vec<Rec> {
    (0..n).map(|i| {
        let mut r = good_rec(k * 15 + i, nl, nr, rng);
        if matches!(r.left, Num::Lit(x) if x < 0) && i == 0 {
            r.left = Num::Lit(0);
            r.right = Num::Lit(0);
        }
        r
    }).collect()
}

fn lex_op(recs: Vec<Rec>) -> HOp {
    let t = Case { base: Base::User, recs: recs.clone() }.lexicon_text();
    HOp::Lex(recs, t)
}
fn conn_op(lines: Vec<Vec<Tok>>, rng: &mut Rng) -> HOp {
    let t = Case { base: Base::System(lines.clone()), recs: vec![] }.matrix_text(rng).unwrap();
    HOp::Conn(lines, t)
}

/// random call histories: matrices of two sizes (the second possibly smaller, possibly failing at a cost line or at the
/// header), lexicon chunks (valid for the first matrix; some with ids at the edge of the second, dangling references, a
/// malformed row in the middle), resolve and compile anywhere and repeatedly
fn gen_history(rng: &mut Rng, user: bool) -> (Vec<HOp>, String) {
    let (nl1, nr1) = if user { (SYS_NL, SYS_NR) } else { (rng.range(2, 6), rng.range(2, 6)) };
    let (nl2, nr2) = (rng.range(1, nl1), rng.range(1, nr1));
    let mut ops: Vec<HOp> = vec![];
    let mut tags: Vec<&str> = vec![];
    let mut conn_failed = false;
    let mut chunk_no = 0;
    let len = 3 + rng.below(6);
    for step in 0..len {
        let what = if step + 1 == len { 9 } else { rng.below(12) };
        match what {
            0 | 1 if !user && !conn_failed => ops.push(conn_op(good_matrix(nl1, nr1, rng), rng)),
            2 if !user && !conn_failed => {
                ops.push(conn_op(good_matrix(nl2, nr2, rng), rng));
                tags.push("smaller_matrix");
            }
            3 if !user && !conn_failed => {
                // fails at a cost line after the header was taken
                let mut m = good_matrix(nl2, nr2, rng);
                let at = 1 + rng.below(m.len() as u64) as usize;
                m.insert(at.min(m.len()), vec![Tok::Num(0), Tok::Bad("x".into()), Tok::Num(1)]);
                ops.push(conn_op(m, rng));
                conn_failed = true;
                tags.push("matrix_fails_at_a_line");
            }
            4 if !user && !conn_failed => {
                ops.push(conn_op(vec![vec![Tok::Num(nl2), Tok::Bad("q".into())]], rng));
                conn_failed = true;
                tags.push("matrix_fails_at_the_header");
            }
            5 | 6 => {
                ops.push(lex_op(chunk(chunk_no, 1 + rng.below(4) as usize, nl1, nr1, rng)));
                chunk_no += 1;
            }
            7 => {
                // a chunk with one questionable row
                let mut c = chunk(chunk_no, 1 + rng.below(3) as usize, nl1, nr1, rng);
                chunk_no += 1;
                let i = rng.below(c.len() as u64) as usize;
                match rng.below(5) {
                    0 => {
                        c[i].left = Num::Lit(*rng.pick(&[nr2, nr1 - 1, nr1]));
                        c[i].right = Num::Lit(0);
                        tags.push("row_id_at_matrix_edge");
                    }
                    1 => {
                        c[i].left = Num::Lit(0);
                        c[i].right = Num::Lit(*rng.pick(&[nl2, nl1 - 1, nl1, -1]));
                        tags.push("row_id_at_matrix_edge");
                    }
                    2 => {
                        c[i].wstruct = vec![Wid::Lit(user, *rng.pick(&[0i64, 40, 2]))];
                        tags.push("row_reference");
                    }
                    3 => {
                        c[i].ncols = 5;
                        tags.push("row_malformed_in_the_middle");
                    }
                    _ => {
                        c[i].dic_form = if user { None } else { Some(Wid::Lit(false, *rng.pick(&[0i64, 30]))) };
                        tags.push("row_reference");
                    }
                }
                ops.push(lex_op(c));
            }
            8 => ops.push(HOp::Resolve),
            _ => ops.push(HOp::Compile),
        }
    }
    tags.sort();
    tags.dedup();
    (ops, if tags.is_empty() { "plain".to_string() } else { tags.join("+") })
}

/// implementation-only histories: what the model does not cover (inline split units, failing sinks between the calls, a
/// matrix read after a failed one, a matrix on a user builder, damaged bytes); the audit is the oracle
fn rust_only_history(sink: &mut Sink, env: &Env, rng: &mut Rng) {
    let user = rng.chance(1, 3);
    let (nl, nr) = if user { (SYS_NL, SYS_NR) } else { (rng.range(2, 5), rng.range(2, 5)) };
    let row = |s: &str, l: i64, r: i64, tail: &str| format!("{},{},{},100,{},{},ヨミ,{},*,{}\n", s, l, r, s, POS[0], s, tail);
    let inline = format!("C,\"ああ,{},ヨミ/いい,{},ヨミ\",*,*", POS[0], POS[0]);
    let mtext = |nl: i64, nr: i64, rng: &mut Rng| Case { base: Base::System(good_matrix(nl, nr, rng)), recs: vec![] }.matrix_text(rng).unwrap();
    let mut ops: Vec<Op> = vec![];
    let mut names: Vec<String> = vec![];
    let len = 3 + rng.below(7);
    for step in 0..len {
        let what = if step + 1 == len { 20 } else { rng.below(16) };
        let (o, n): (Op, &str) = match what {
            0 | 1 => (Op::Conn(mtext(nl, nr, rng).into_bytes()), "read_conn"),
            2 => (Op::Conn(mtext(rng.range(1, nl), rng.range(1, nr), rng).into_bytes()), "read_conn(smaller)"),
            3 => (Op::Conn(mtext(nl + 3, nr + 3, rng).into_bytes()), "read_conn(bigger)"),
            4 => (Op::Conn(damage(&mtext(nl, nr, rng), rng)), "read_conn(damaged)"),
            5 => (Op::Lex(format!("{}{}", row("ああ", 0, 0, "A,*,*,*"), row("いい", 0, 0, "A,*,*,*")).into_bytes()), "read_lexicon(base)"),
            6 => (Op::Lex(row("ああいい", 0, 0, &inline).into_bytes()), "read_lexicon(inline splits)"),
            7 => (Op::Lex(row("うう", nr - 1, nl - 1, "A,*,*,*").into_bytes()), "read_lexicon(edge ids)"),
            8 => (Op::Lex(row("ええ", nr + 2, nl + 2, "A,*,*,*").into_bytes()), "read_lexicon(ids for the bigger matrix)"),
            9 => (Op::Lex(damage(&format!("{}{}", row("おお", 0, 0, "A,*,*,*"), row("かか", 0, 0, "A,*,*,*")), rng)), "read_lexicon(damaged)"),
            10 | 11 => (Op::Resolve, "resolve"),
            12 => (Op::Compile(Attempt::Fail(rng.below(900) as usize)), "compile(failing sink)"),
            13 => (Op::Compile(Attempt::OneByte), "compile(one byte per call)"),
            _ => (Op::Compile(Attempt::Good), "compile"),
        };
        ops.push(o);
        names.push(n.to_string());
    }
    // every read_conn / read_lexicon of a third of these histories takes its data as a file path, the others mix the kinds
    let all_files = rng.chance(1, 3);
    let files: Vec<bool> = ops.iter().map(|o| matches!(o, Op::Conn(_) | Op::Lex(_)) && (all_files || rng.chance(1, 3))).collect();
    for (i, n) in names.iter_mut().enumerate() {
        if files[i] {
            n.push_str(" as a file");
        }
    }
    let obs = observe_history(env, user, &ops, &files, &["ああいいううええ".to_string()], false);
    sink.tag(if user { "history_rust_only:user" } else { "history_rust_only:system" });
    if files.iter().any(|f| *f) {
        sink.tag("history_with_file_sources");
    }
    sink.tag_n("history_calls", ops.len() as u64);
    let jops: Vec<Value> = ops.iter().enumerate().map(|(i, o)| match o {
        Op::Conn(t) => json!({"op": "read_conn", "text": String::from_utf8_lossy(t), "source": source_name(&files, i)}),
        Op::Lex(t) => json!({"op": "read_lexicon", "text": String::from_utf8_lossy(t), "source": source_name(&files, i)}),
        Op::Resolve => json!({"op": "resolve"}),
        Op::Compile(_) => json!({"op": "compile"}),
    }).collect();
    let id = sink.case_rust_only(json!({"kind": "c06-history", "shape": "rust_only", "user": user, "ops": jops, "known_class": ""}), true);
    let mut conn_ok = false;
    for (i, ((o, ob), n)) in ops.iter().zip(obs.iter()).zip(names.iter()).enumerate() {
        if ob.status == "SPanic" {
            sink.fail(id, &format!("call {} ({}) of the history [{}] panicked: {}", i + 1, n, names.join(", "), ob.msg), "");
        }
        if let Op::Compile(a) = o {
            let sink_ok = !matches!(a, Attempt::Fail(_));
            if sink_ok && ob.status == "SOk" && !ob.fine && (user || conn_ok) {
                sink.fail(id, &format!("call {} ({}) of the history [{}] reported success, but {}", i + 1, n, names.join(", "), ob.problem), "");
            }
        }
        if let Op::Conn(_) = o {
            conn_ok = conn_ok || ob.status == "SOk";
        }
    }
}

// ---------------------------------------------------------------- generators

fn good_matrix(nl: i64, nr: i64, rng: &mut Rng) -> Vec<Vec<Tok>> {
    let mut v = vec![];
    if rng.chance(1, 4) {
        v.push(vec![]);
    }
    v.push(vec![Tok::Num(nl), Tok::Num(nr)]);
    for r in 0..nr {
        for l in 0..nl {
            if rng.chance(1, 10) {
                v.push(vec![]);
            }
            if rng.chance(5, 6) {
                v.push(vec![Tok::Num(l), Tok::Num(r), Tok::Num(rng.range(-300, 300))]);
            }
        }
    }
    v
}

fn good_rec(i: usize, nl: i64, nr: i64, rng: &mut Rng) -> Rec {
    let indexed = rng.chance(9, 10);
    Rec {
        ncols: if rng.chance(1, 3) { 18 } else { 19 },
        strings: StrKind::Ok,
        surface: surface_of(i),
        left: Num::Lit(if indexed { rng.below(nr.max(1) as u64) as i64 } else { -1 }),
        right: Num::Lit(if indexed { rng.below(nl.max(1) as u64) as i64 } else { -1 }),
        cost: Num::Lit(rng.range(-200, 3000)),
        pos: rng.below(3) as usize,
        dic_form: None,
        mode: Some(0),
        split_a: vec![],
        split_b: vec![],
        wstruct: vec![],
        syn_ok: true,
        has_syn: true,
        syn_n: 2,
        splits_concat: true,
        surface_text: None,
        reading: None,
        norm: None,
        pos_over: None,
    }
}

/// `k` indexed rows with one and the same surface (the ids of such rows form ONE array of the word-id table, limit 127),
/// `unindexed` more rows of that surface with left_id -1 (they are not in the index), a few other rows in between
fn homograph_recs(k: usize, unindexed: usize, slot: usize, nl: i64, nr: i64, rng: &mut Rng) -> Vec<Rec> {
    let indexed = |mut r: Rec, rng: &mut Rng| -> Rec {
        r.left = Num::Lit(rng.below(nr.max(1) as u64) as i64);
        r.right = Num::Lit(rng.below(nl.max(1) as u64) as i64);
        r
    };
    let mut recs = vec![indexed(good_rec(slot + 1, nl, nr, rng), rng)];
    for h in 0..k {
        recs.push(indexed(good_rec(slot, nl, nr, rng), rng));
        if h == k / 2 {
            recs.push(good_rec(slot + 2, nl, nr, rng));
            for _ in 0..unindexed {
                let mut r = good_rec(slot, nl, nr, rng);
                r.left = Num::Lit(-1);
                r.right = Num::Lit(-1);
                recs.push(r);
            }
        }
    }
    recs
}

/// valid lexicon of n rows for an nl x nr matrix, with compounds whose splits concatenate
fn good_recs(n: usize, nl: i64, nr: i64, user: bool, rng: &mut Rng) -> Vec<Rec> {
    let mut recs: Vec<Rec> = (0..n).map(|i| good_rec(i, nl, nr, rng)).collect();
    // at least one indexed entry (a lexicon without any is a compilation error)
    if !recs.iter().any(|r| matches!(r.left, Num::Lit(x) if x >= 0)) {
        recs[0].left = Num::Lit(0);
        recs[0].right = Num::Lit(0);
    }
    let mut is_part = vec![false; n];
    for i in 0..n {
        if n >= 3 && !is_part[i] && rng.chance(1, 4) {
            let j = rng.below(n as u64) as usize;
            let k = rng.below(n as u64) as usize;
            let simple = |r: &Rec| r.split_a.is_empty() && r.split_b.is_empty();
            if simple(&recs[j]) && simple(&recs[k]) && j != i && k != i {
                is_part[j] = true;
                is_part[k] = true;
                recs[i].surface = format!("{}{}", recs[j].surface, recs[k].surface);
                let refs = vec![Wid::Lit(user, j as i64), Wid::Lit(user, k as i64)];
                recs[i].mode = Some(if rng.chance(1, 2) { 1 } else { 2 });
                recs[i].split_a = refs.clone();
                if rng.chance(1, 2) {
                    recs[i].split_b = refs.clone();
                }
                if rng.chance(1, 2) {
                    recs[i].wstruct = refs;
                }
            }
        }
        if !user && rng.chance(1, 6) {
            // dictionary form: any existing entry.  Not generated for user dictionaries: the reader resolves a user entry's
            // dictionary form inside the user lexicon while the builder validates it against the system one (owned by C05/C12)
            recs[i].dic_form = Some(Wid::Lit(false, rng.below(n as u64) as i64));
        }
    }
    recs
}

fn num_grid(rng: &mut Rng, d: i64, other: i64) -> Num {
    match rng.below(12) {
        0 => Num::Bad("x".into()),
        1 => Num::Bad("".into()),
        2 => Num::Bad("1.5".into()),
        3 => Num::Lit(32768),
        4 => Num::Lit(-32769),
        5 => Num::Lit(d),
        6 => Num::Lit(d + 1),
        7 => Num::Lit(other),
        8 => Num::Lit(d - 1),
        9 => Num::Lit(-2),
        10 => Num::Lit(-1),
        _ => Num::Lit(32767),
    }
}
fn wid_grid(rng: &mut Rng, n: usize, user: bool) -> Wid {
    let n = n as i64;
    match rng.below(10) {
        0 => Wid::Bad("x".into()),
        1 => Wid::Bad("-1".into()),
        2 => Wid::Lit(false, n),
        3 => Wid::Lit(false, n + 5),
        4 => Wid::Lit(true, n),
        5 => Wid::Lit(true, 0),
        6 => Wid::Lit(false, 268435455),
        7 => Wid::Lit(false, 268435456),
        8 => Wid::Lit(false, if user { SYS_WORDS as i64 } else { n - 1 }),
        _ => Wid::Lit(false, 4294967296),
    }
}

/// damage exactly one aspect of one row
fn mutate_rec(recs: &mut Vec<Rec>, nl: i64, nr: i64, user: bool, rng: &mut Rng) -> &'static str {
    let n = recs.len();
    let i = rng.below(n as u64) as usize;
    let r = &mut recs[i];
    match rng.below(16) {
        0 => {
            r.ncols = 1 + rng.below(17) as usize;
            "row_truncated"
        }
        1 => {
            r.left = num_grid(rng, nr, nl);
            "left_id_grid"
        }
        2 => {
            r.right = num_grid(rng, nl, nr);
            "right_id_grid"
        }
        3 => {
            r.cost = match rng.below(4) {
                0 => Num::Lit(32768),
                1 => Num::Lit(-32769),
                2 => Num::Bad("abc".into()),
                _ => Num::Lit(-32768),
            };
            "cost_grid"
        }
        4 => {
            r.strings = if rng.chance(1, 2) { StrKind::TooLong } else { StrKind::BadEscape };
            if r.ncols < 13 {
                r.ncols = 19;
            }
            "string_limit_or_escape"
        }
        5 if !user => {
            r.dic_form = Some(wid_grid(rng, n, user));
            "dic_form_grid"
        }
        5 => {
            r.dic_form = Some(if rng.chance(1, 2) { Wid::Bad("x".into()) } else { Wid::Lit(false, SYS_WORDS as i64 + 3) });
            "dic_form_grid"
        }
        6 => {
            r.mode = match rng.below(3) {
                0 => None,
                1 => Some(1),
                _ => Some(2),
            };
            "mode"
        }
        7 => {
            r.mode = Some(2);
            r.split_a = vec![wid_grid(rng, n, user)];
            r.splits_concat = true; // decided below for the valid-reference case
            "split_a_grid"
        }
        8 => {
            r.mode = Some(1);
            r.split_b = vec![wid_grid(rng, n, user), Wid::Lit(user, 0)];
            "split_b_grid"
        }
        9 => {
            r.wstruct = vec![wid_grid(rng, n, user)];
            "word_structure_grid"
        }
        10 => {
            // every per-entry array at its limit: 127 items are taken, 128 are an error value
            let k = if rng.chance(1, 2) { 127 } else { 128 };
            let j = (i + 1) % n;
            match rng.below(4) {
                0 => {
                    r.wstruct = (0..k).map(|_| Wid::Lit(user, 0)).collect();
                    "array_length_127_128"
                }
                1 | 2 if j != i => {
                    // split units that spell the headword: the other row, k times
                    let which_a = rng.chance(1, 2);
                    let part = recs[j].surface.clone();
                    let r = &mut recs[i];
                    r.surface = part.repeat(k);
                    r.mode = Some(if which_a { 2 } else { 1 });
                    r.dic_form = None;
                    r.wstruct = vec![];
                    let refs: Vec<Wid> = (0..k).map(|_| Wid::Lit(user, j as i64)).collect();
                    if which_a {
                        r.split_a = refs;
                        r.split_b = vec![];
                        "split_a_length_127_128"
                    } else {
                        r.split_b = refs;
                        r.split_a = vec![];
                        "split_b_length_127_128"
                    }
                }
                _ => {
                    r.has_syn = true;
                    r.ncols = 19;
                    r.syn_n = k;
                    r.syn_ok = k <= 127;
                    "synonym_ids_127_128"
                }
            }
        }
        11 => {
            r.has_syn = true;
            r.ncols = 19;
            r.syn_ok = false;
            "synonym_bad"
        }
        12 => {
            if rng.chance(1, 2) {
                r.surface = String::new();
                "empty_surface"
            } else {
                r.surface = if rng.chance(1, 2) { format!("\u{0}{}", r.surface) } else { format!("{}\u{0}あ", r.surface) };
                "nul_in_surface"
            }
        }
        13 => {
            // a string at a boundary of the length prefix (one byte below 127 code units, 15 bits at most)
            let n = *rng.pick(&[126usize, 127, 128, 129, 255, 256, 257, 1000, 32767, 32768]);
            let text = match rng.below(3) {
                0 => "a".repeat(n),
                1 if n <= 10922 => "ア".repeat(n),
                _ => format!("{}{}", "𠮷".repeat(n.min(16000) / 2), "b".repeat(n.min(16000) % 2)),
            };
            if text.len() > 32767 {
                r.strings = StrKind::TooLong;
            }
            if r.ncols < 13 {
                r.ncols = 19;
            }
            match rng.below(4) {
                0 => r.reading = Some(text),
                1 => r.norm = Some(text),
                2 if text.len() <= 300 => r.pos_over = Some((rng.below(6) as usize, text)),
                _ => {
                    r.surface = text;
                    r.mode = Some(0);
                    r.split_a = vec![];
                    r.split_b = vec![];
                }
            }
            "string_length_grid"
        }
        14 => {
            // the surface written with an escape
            let (text, decoded): (String, Option<String>) = match rng.below(8) {
                0 => ("\\u0000".into(), Some("\u{0}".into())),
                1 => (format!("{}\\u{{0}}", r.surface), Some(format!("{}\0", r.surface))),
                2 => (format!("\\u{{00000}}{}", r.surface), Some(format!("\0{}", r.surface))),
                3 => ("\\u3055\\u{3057}".into(), Some("さし".into())),
                4 => (format!("{}\\u{{}}", r.surface), Some(format!("{}\\u{{}}", r.surface))),
                5 => ("\\uDC00".into(), None),
                6 => (format!("{}\\u0041", r.surface), Some(format!("{}A", r.surface))),
                _ => ("\\u{1F600}".into(), Some("😀".into())),
            };
            match decoded {
                Some(d) => {
                    r.surface_text = if d != text { Some(text) } else { None };
                    r.surface = d;
                }
                None => {
                    r.surface = text;
                    r.strings = StrKind::BadEscape;
                }
            }
            if r.ncols < 13 {
                r.ncols = 19;
            }
            r.mode = Some(0);
            r.split_a = vec![];
            r.split_b = vec![];
            "escaped_surface_grid"
        }
        _ => {
            r.mode = Some(0);
            r.split_a = vec![Wid::Lit(user, 0)];
            "mode_a_with_split"
        }
    }
}

/// splits that reference existing entries whose surfaces do not spell the headword make analysis fail (known finding):
/// decide the flag from the rendered case
fn fix_concat_flags(recs: &mut Vec<Rec>, user: bool) {
    let n = recs.len();
    let surf: Vec<String> = recs.iter().map(|r| r.surface.clone()).collect();
    let sys_surf: Vec<String> = (0..SYS_WORDS).map(|i| surface_of(90 + i)).collect();
    for r in recs.iter_mut() {
        let mut ok = true;
        for list in [&r.split_a, &r.split_b] {
            if list.is_empty() {
                continue;
            }
            let mut cat = String::new();
            let mut resolvable = true;
            for w in list.iter() {
                match w {
                    Wid::Lit(u, k) => {
                        let k = *k as usize;
                        if user && !*u {
                            if k < SYS_WORDS { cat.push_str(&sys_surf[k]) } else { resolvable = false }
                        } else if (user && *u) || (!user && !*u) {
                            if k < n { cat.push_str(&surf[k]) } else { resolvable = false }
                        } else {
                            resolvable = false
                        }
                    }
                    Wid::Bad(_) => resolvable = false,
                }
            }
            if resolvable && cat != r.surface {
                ok = false;
            }
        }
        r.splits_concat = ok;
    }
}

struct FailingWriter {
    limit: usize,
    written: usize,
}
impl Write for FailingWriter {
    fn write(&mut self, buf: &[u8]) -> std::io::Result<usize> {
        if self.written >= self.limit {
            return Err(std::io::Error::new(std::io::ErrorKind::Other, "sink full"));
        }
        let n = usize::min(buf.len(), self.limit - self.written);
        self.written += n;
        Ok(n)
    }
    fn flush(&mut self) -> std::io::Result<()> {
        Ok(())
    }
}

struct OneByte(Vec<u8>);
impl Write for OneByte {
    fn write(&mut self, buf: &[u8]) -> std::io::Result<usize> {
        if buf.is_empty() {
            return Ok(0);
        }
        self.0.push(buf[0]);
        Ok(1)
    }
    fn flush(&mut self) -> std::io::Result<()> {
        Ok(())
    }
}

/// offset of the first matrix byte in a compiled dictionary (header, POS table, the two dimensions come before it)
fn matrix_offset(bytes: &[u8]) -> usize {
    match sudachi::dic::grammar::Grammar::parse(bytes, 272) {
        Ok(g) => {
            let cm = g.conn_matrix();
            272 + g.storage_size - 2 * cm.num_left() * cm.num_right()
        }
        Err(_) => 0,
    }
}

/// one row of the fault enumeration: the sink of the first compile accepted k bytes; then the SAME builder compiled again into a
/// sink that accepts everything
struct Retry {
    k: usize,
    first: &'static str,
    retry: &'static str,
    retry_same_as_fresh: bool,
}

/// verdict of the Rust-side oracle on one row (None = as the property demands)
fn judge_retry(r: &Retry, total: usize) -> Option<String> {
    if r.first == "SPanic" || r.retry == "SPanic" {
        return Some(format!("sink failing after {} of {} bytes: compilation panicked (first call {}, retry {})", r.k, total, r.first, r.retry));
    }
    if r.first == "SOk" && r.k < total {
        return Some(format!("sink failing after {} of {} bytes was reported as success", r.k, total));
    }
    if r.first != "SOk" && r.k >= total {
        return Some(format!("sink accepting {} >= {} bytes: compilation failed", r.k, total));
    }
    // the retry on the same builder: an error value is tolerated, success must be the dictionary of a fresh build
    if r.retry == "SOk" && !r.retry_same_as_fresh {
        return Some(format!(
            "after a sink failure at byte {} of {} the same builder compiled again into a good sink and reported success, but the bytes differ from a fresh build of the same input",
            r.k, total
        ));
    }
    None
}

fn retry_rows(env: &Env, matrix: Option<&[u8]>, lexicon: &[u8], fresh: &[u8], step: usize) -> Vec<Retry> {
    let total = fresh.len();
    let mut rows = vec![];
    let mut k = 0;
    while k <= total + 1 {
        let r = session(env, matrix, lexicon, &[Attempt::Fail(k), Attempt::Good]);
        let first = r[0].status;
        let (retry, same) = match r.get(1) {
            Some(x) => (x.status, x.status == "SOk" && same_dict(&x.bytes, fresh)),
            None => (first, false),
        };
        rows.push(Retry { k, first, retry, retry_same_as_fresh: same });
        k += if k + step > total && k < total { total - k } else { step };
    }
    rows
}

fn fault_enumeration(sink: &mut Sink, env: &Env, rng: &mut Rng, case: &Case, step: usize) {
    let matrix = case.matrix_text(rng);
    let lexicon = case.lexicon_text();
    let mb = matrix.as_ref().map(|m| m.as_bytes());
    let full = build(env, mb, lexicon.as_bytes());
    if full.status != "SOk" {
        return;
    }
    let total = full.bytes.len();
    let moff = matrix_offset(&full.bytes);
    let rows = retry_rows(env, mb, lexicon.as_bytes(), &full.bytes, step);
    let mut bad: Option<String> = rows.iter().filter_map(|r| judge_retry(r, total)).next();
    // longer histories on one builder: two failed calls, a one-byte-per-call sink, then a good sink
    for _ in 0..8 {
        let k1 = rng.below(total as u64 + 1) as usize;
        let k2 = rng.below(total as u64 + 1) as usize;
        let r = session(env, mb, lexicon.as_bytes(), &[Attempt::Fail(k1), Attempt::Fail(k2), Attempt::OneByte, Attempt::Good]);
        for (i, x) in r.iter().enumerate() {
            let want_ok = i >= 2 || (i == 0 && k1 >= total) || (i == 1 && k2 >= total);
            if x.status == "SPanic" || (x.status == "SOk") != want_ok || (x.status == "SOk" && !same_dict(&x.bytes, &full.bytes) && i >= 2) {
                bad.get_or_insert(format!(
                    "history on one builder [sink failing at {}, sink failing at {}, one byte per call, good sink]: call {} reported {} {}",
                    k1, k2, i + 1, x.status,
                    if x.status == "SOk" { "with bytes that differ from a fresh build" } else { x.msg.as_str() }
                ));
            }
        }
    }
    sink.tag("fault_enumeration_inputs");
    sink.tag_n("fault_enumeration_offsets", rows.len() as u64);
    sink.tag_n("retry_on_same_builder_after_sink_failure", rows.len() as u64);
    let term = format!(
        "check_retry_all {} {} {} {}",
        case.coq(),
        cz(total as i64),
        cz(moff as i64),
        clist(rows.iter().map(|r| format!("({}, {}, {}, {})", cz(r.k as i64), r.first, r.retry, cbool(r.retry_same_as_fresh))))
    );
    let mut d = desc(case, &matrix, &lexicon, "fault_enumeration");
    d["descr"] = json!(env.hdr.borrow().descr);
    d["time"] = json!(env.hdr.borrow().time);
    d["total_bytes"] = json!(total);
    d["matrix_offset"] = json!(moff);
    let id = sink.case(term, d, true);
    if let Some(b) = bad {
        sink.fail(id, &b, "");
    }
}

fn damage(text: &str, rng: &mut Rng) -> Vec<u8> {
    let mut b = text.as_bytes().to_vec();
    for _ in 0..(1 + rng.below(3)) {
        if b.is_empty() {
            break;
        }
        let p = rng.below(b.len() as u64) as usize;
        match rng.below(8) {
            0 => b.truncate(p),
            1 => b[p] = rng.below(256) as u8,
            2 => b.insert(p, b'"'),
            3 => b.insert(p, b','),
            4 => b.insert(p, b'\n'),
            5 => {
                b.remove(p);
            }
            6 => b.insert(p, *rng.pick(&[0xffu8, 0xc3, 0x00, b'\r', b'\\', b'/', b'-', b'U'])),
            _ => {
                let q = rng.below(b.len() as u64) as usize;
                b.swap(p, q)
            }
        }
    }
    b
}

fn run_raw(sink: &mut Sink, env: &Env, matrix: Option<Vec<u8>>, lexicon: Vec<u8>, shape: &str) {
    let b = build(env, matrix.as_deref(), &lexicon);
    sink.tag(shape);
    sink.tag(&format!("impl={}", b.status));
    let d = json!({"kind": "c06-raw", "shape": shape, "matrix_bytes": matrix, "lexicon_bytes": lexicon, "known_class": ""});
    let id = sink.case_rust_only(d, b.status != "SOk");
    if b.status == "SPanic" {
        sink.fail(id, &format!("compilation panicked: {}", b.msg), "");
        return;
    }
    if let Some(what) = check_second(env, matrix.is_none(), &b, &["あいxか1。".to_string()]) {
        sink.fail(id, &what, "");
    }
    if b.status == "SOk" {
        let text = String::from_utf8_lossy(&lexicon).to_string();
        let probe: String = text.chars().filter(|c| !c.is_ascii() && *c != '\u{fffd}').take(40).collect();
        let lr = load_and_analyse(env, matrix.is_none(), &b.bytes, &[probe, "あいxか1。".to_string()]);
        if !lr.ok {
            // damaged split references can produce the known finding too: splits that still resolve but no longer spell the headword
            let col = |l: &str, k: usize| l.split(',').nth(k).map(|c| c != "*" && !c.is_empty()).unwrap_or(false);
            let cls = if lr.msg.contains("analysis") && matrix.is_none() && text.lines().any(|l| col(l, 13)) {
                KNOWN_USER_DICFORM
            } else if lr.msg.contains("analysis") && text.lines().any(|l| col(l, 15) || col(l, 16)) {
                KNOWN_SPLIT
            } else {
                ""
            };
            sink.fail(id, &format!("compilation of damaged input reported success, then {}", lr.msg), cls);
        }
    }
}

pub fn run(args: &Args) {
    let mut sink = Sink::new("C06", &args.out, &["Model.GuardLang", "Model.Params", "Model.Build", "Model.BuildHistory"], args.seed, &args.tier);
    sink.shard_size = 60;
    sink.rule("system dictionaries (matrix text nl x nr in 0..6, square and non-square, blank lines / tabs / missing cells) and user dictionaries (against a 4x3 system dictionary) with 1..14 rows incl. compounds with split / word-structure references; structured stream = valid input with exactly one damaged aspect (row arity, left/right/cost from the boundary grid, over-long string / bad escape, dangling or malformed references, split lists / word structure / synonym ids of 127 and 128 items, strings of 126 .. 32768 code units / bytes in reading, normalised form, surface and POS components, surfaces written with \\u escapes (of U+0000, of ordinary characters, of no character, and texts that only look like one), mode, synonyms, empty surface; matrix: empty text, header arity / sign / non-numeric, coordinates at and beyond the dimension, negative, wrong arity); malformed stream = byte-level damage (truncation, quotes, invalid UTF-8, swaps); directed: 126..300 indexed rows with one surface (the id array of the word-id table: 127 compile and each row is found by lookup, 128+ are an error value), in one lexicon, next to unindexed rows of that surface, for two surfaces, over several read_lexicon calls; every case compiles twice on one builder (second outcome and bytes must equal the first) after resolving twice; other routes = `sudachi build` / `ubuild` and sudachipy.build_system_dic / build_user_dic from the working tree on 1..2500-row inputs (normal: output file = in-process bytes; failing output file at 5 offsets: must report an error) and a sixth of the structured system cases through the command-line tool; fault enumeration = sink accepting exactly k bytes for every k (quick: every k of small dictionaries), each followed by a retry on the same builder into a good sink (Err or the bytes of a fresh build), plus longer histories [fail, fail, one byte per call, good]; non-trivial = compilation failed or more than one row; distinct by generated Coq term");
    let dir = args.work.join("c06_res");
    std::fs::create_dir_all(&dir).unwrap();
    std::fs::copy(format!("{}/sudachi/tests/resources/char.def", repo()), dir.join("char.def")).unwrap();
    let mut env = Env { dir, sys_bytes: vec![], hdr: Default::default(), via_files: Default::default() };
    {
        let mut b = DictBuilder::new_system();
        b.read_conn(sys_matrix_text().as_bytes()).expect("sys matrix");
        b.read_lexicon(sys_lexicon_text().as_bytes()).expect("sys lexicon");
        b.resolve().expect("sys resolve");
        let mut out = vec![];
        b.compile(&mut out).expect("sys compile");
        env.sys_bytes = out;
    }
    if let Some(p) = &args.replay {
        let v: Value = serde_json::from_str(&std::fs::read_to_string(p).unwrap()).unwrap();
        let c = &v["case"];
        let bytes = |x: &Value| -> Option<Vec<u8>> { x.as_array().map(|a| a.iter().map(|b| b.as_u64().unwrap() as u8).collect()) };
        let (matrix, lexicon): (Option<Vec<u8>>, Vec<u8>) = if c["kind"] == "c06-raw" && !c["lexicon_bytes"].is_null() {
            (bytes(&c["matrix_bytes"]), bytes(&c["lexicon_bytes"]).unwrap())
        } else {
            (c["matrix"].as_str().map(|s| s.as_bytes().to_vec()), c["lexicon"].as_str().unwrap_or("").as_bytes().to_vec())
        };
        println!("replaying C06 case (shape {})", c["shape"]);
        *env.hdr.borrow_mut() = Hdr { descr: c["descr"].as_str().map(|x| x.to_string()), time: c["time"].as_u64() };
        env.via_files.set(c["via_files"] == true);
        if env.via_files.get() {
            println!("matrix and lexicon are handed to the builder as file paths");
        }
        if c["kind"] == "c06-route" {
            cli::replay_route(&mut sink, &env, args, c);
            sink.finish();
            return;
        }
        if c["kind"] == "c06-history" {
            replay_history(&mut sink, &env, c);
            sink.finish();
            return;
        }
        let m = matrix.map(|m| String::from_utf8_lossy(&m).to_string());
        run_texts(&mut sink, &env, None, m.clone(), String::from_utf8_lossy(&lexicon).to_string(), "replay", true, c["kind"] == "c06");
        if c["shape"] == "fault_enumeration" {
            let mb = m.as_ref().map(|x| x.as_bytes());
            let fresh = build(&env, mb, &lexicon).bytes;
            let total = fresh.len();
            println!("fault enumeration over {} bytes (matrix starts at byte {}): first compile into a sink accepting k bytes, then a retry on the same builder into a good sink", total, matrix_offset(&fresh));
            let mut wrong = 0;
            for r in retry_rows(&env, mb, &lexicon, &fresh, 1) {
                if let Some(what) = judge_retry(&r, total) {
                    wrong += 1;
                    if wrong <= 5 {
                        println!("  k={}: first call {}, retry {}, retry equals a fresh build: {} -- {}", r.k, r.first, r.retry, r.retry_same_as_fresh, what);
                    }
                    let id = sink.case_rust_only(json!({"kind": "c06-raw", "shape": "fault_enumeration_replay", "k": r.k}), true);
                    sink.fail(id, &what, "");
                }
            }
            println!("  offsets with a wrong outcome: {}", wrong);
        }
        sink.finish();
        return;
    }
    let mut rng = Rng::new(args.seed);
    let env = env;
    // ---- directed: the defects of the pinned tree and their neighbours
    let one = |l: i64, r: i64| -> Vec<Rec> {
        let mut rr = good_rec(0, 1, 1, &mut Rng::new(7));
        rr.left = Num::Lit(l);
        rr.right = Num::Lit(r);
        vec![rr]
    };
    let m33 = |extra: Vec<Vec<Tok>>| -> Base {
        let mut v = vec![vec![Tok::Num(3), Tok::Num(3)], vec![Tok::Num(0), Tok::Num(0), Tok::Num(5)]];
        v.extend(extra);
        Base::System(v)
    };
    let directed: Vec<(&str, Case)> = vec![
        ("directed_empty_matrix_text", Case { base: Base::System(vec![]), recs: one(0, 0) }),
        ("directed_blank_matrix_text", Case { base: Base::System(vec![vec![], vec![]]), recs: one(0, 0) }),
        ("directed_coord_eq_dim", Case { base: m33(vec![vec![Tok::Num(3), Tok::Num(0), Tok::Num(7)]]), recs: one(0, 0) }),
        ("directed_coord_eq_dim", Case { base: m33(vec![vec![Tok::Num(0), Tok::Num(3), Tok::Num(7)]]), recs: one(0, 0) }),
        ("directed_coord_negative", Case { base: m33(vec![vec![Tok::Num(-1), Tok::Num(0), Tok::Num(7)]]), recs: one(0, 0) }),
        ("directed_coord_negative", Case { base: m33(vec![vec![Tok::Num(0), Tok::Num(-1), Tok::Num(7)]]), recs: one(0, 0) }),
        ("directed_coord_negative", Case { base: m33(vec![vec![Tok::Num(-1), Tok::Num(1), Tok::Num(7)]]), recs: one(0, 0) }),
        ("directed_negative_right_id", Case { base: m33(vec![]), recs: one(0, -5) }),
        ("directed_negative_right_id", Case { base: m33(vec![]), recs: one(0, -1) }),
        ("directed_not_indexed", Case { base: m33(vec![]), recs: one(-1, -1) }),
        ("directed_non_square", Case { base: Base::System(good_matrix(3, 2, &mut Rng::new(3))), recs: one(2, 1) }),
        ("directed_non_square", Case { base: Base::System(good_matrix(3, 2, &mut Rng::new(3))), recs: one(1, 2) }),
        ("directed_non_square", Case { base: Base::System(good_matrix(2, 3, &mut Rng::new(3))), recs: one(2, 1) }),
        ("directed_zero_dimension", Case { base: Base::System(vec![vec![Tok::Num(0), Tok::Num(0)]]), recs: one(-1, -1) }),
        ("directed_zero_dimension", Case { base: Base::System(vec![vec![Tok::Num(0), Tok::Num(3)]]), recs: one(-1, -1) }),
        ("directed_negative_dimension", Case { base: Base::System(vec![vec![Tok::Num(-1), Tok::Num(3)]]), recs: one(0, 0) }),
        ("directed_header_three_fields", Case { base: Base::System(vec![vec![Tok::Num(3), Tok::Num(3), Tok::Num(3)]]), recs: one(0, 0) }),
        ("directed_user_non_square", Case { base: Base::User, recs: one(3, 2) }),
        ("directed_user_non_square", Case { base: Base::User, recs: one(2, 3) }),
        ("directed_user_negative_right_id", Case { base: Base::User, recs: one(0, -3) }),
    ];
    for (shape, c) in &directed {
        emit(&mut sink, &env, &mut rng, c, shape);
    }
    // a row whose left_id is negative but not -1 is not indexed either: next to an indexed row it compiles, and analysis of
    // its surface must not meet it in the lattice
    for (l, r) in [(-2i64, 0i64), (-2, -2), (-3, 1), (-32768, 0), (-1, 0)] {
        for user in [false, true] {
            let mut recs = one(0, 0);
            let mut second = good_rec(1, 1, 1, &mut Rng::new(8));
            second.left = Num::Lit(l);
            second.right = Num::Lit(r);
            recs.push(second);
            let case = Case { base: if user { Base::User } else { m33(vec![]) }, recs };
            emit(&mut sink, &env, &mut rng, &case, "directed_negative_left_id_is_not_indexed");
        }
    }
    // the arrays of the word-id table: 126 .. 300 indexed rows with one surface (127 is the limit of the format: it must
    // compile and every one of the rows must be found under the surface; 128 and more must be an error value)
    for (k, unindexed, user) in [(126usize, 0usize, false), (127, 0, false), (128, 0, false), (129, 0, false), (255, 0, false), (256, 0, false), (257, 0, false), (300, 0, false),
                                 (127, 5, false), (128, 3, false), (127, 0, true), (128, 0, true), (256, 2, true)] {
        let mut r5 = Rng::new(500 + k as u64 + unindexed as u64);
        let (nl, nr) = if user { (SYS_NL, SYS_NR) } else { (3, 2) };
        let recs = homograph_recs(k, unindexed, 50, nl, nr, &mut r5);
        let case = Case { base: if user { Base::User } else { Base::System(good_matrix(nl, nr, &mut Rng::new(3))) }, recs };
        emit(&mut sink, &env, &mut rng, &case, &format!("directed_homographs_{}{}", k, if unindexed > 0 { "_plus_unindexed" } else { "" }));
    }
    {
        // two surfaces: 127 + 127 compile, 127 + 128 do not
        for second in [127usize, 128] {
            let mut r5 = Rng::new(600 + second as u64);
            let mut recs = homograph_recs(127, 1, 50, 3, 2, &mut r5);
            recs.extend(homograph_recs(second, 0, 60, 3, 2, &mut r5));
            let case = Case { base: Base::System(good_matrix(3, 2, &mut Rng::new(3))), recs };
            emit(&mut sink, &env, &mut rng, &case, &format!("directed_homographs_127_and_{}", second));
        }
    }
    // ---- strings at the length boundaries of the format: the length prefix is one byte below 127 and two bytes (high bit
    // set) from 127 on, 15 bits at most; strings of 126 .. 32767 UTF-16 code units (ASCII, kana, surrogate pairs) in reading,
    // normalised form, surface + headword (whose BYTE length is written too) and every POS component must read back; one byte
    // more than MAX_DIC_STRING_LEN is an error value
    {
        let two = |user: bool, f: &dyn Fn(&mut Rec)| -> Case {
            let (nl, nr) = if user { (SYS_NL, SYS_NR) } else { (3, 3) };
            let mut r8 = Rng::new(88);
            let mut first = good_rec(0, nl, nr, &mut r8);
            first.left = Num::Lit(0);
            first.right = Num::Lit(0);
            let mut second = good_rec(1, nl, nr, &mut r8);
            second.left = Num::Lit(0);
            second.right = Num::Lit(0);
            second.has_syn = true;
            second.ncols = 19;
            f(&mut second);
            Case { base: if user { Base::User } else { m33(vec![]) }, recs: vec![first, second] }
        };
        let units = |kind: usize, n: usize| -> String {
            match kind {
                0 => "a".repeat(n),
                1 => "ア".repeat(n),
                // surrogate pairs: two code units each
                _ => format!("{}{}", "𠮷".repeat(n / 2), "b".repeat(n % 2)),
            }
        };
        let bytes_of = |n: usize| -> String { format!("{}{}", "あ".repeat(n / 3), "c".repeat(n % 3)) };
        let mut cases: Vec<(String, Case)> = vec![];
        for user in [false, true] {
            for n in [126usize, 127, 128, 129, 255, 256, 257, 16383, 16384, 32766, 32767, 32768] {
                if user && !(127..=129).contains(&n) {
                    continue;
                }
                for kind in 0..3 {
                    let text = units(kind, n);
                    if kind > 0 && n > 257 && text.len() > 32767 && n != 10923 {
                        continue; // kana beyond the byte limit: one case below
                    }
                    let too_long = text.len() > 32767;
                    let t = text.clone();
                    cases.push((format!("directed_string_length_reading_{}", n), two(user, &move |r: &mut Rec| {
                        r.reading = Some(t.clone());
                        if too_long { r.strings = StrKind::TooLong; }
                    })));
                    let t = text.clone();
                    cases.push((format!("directed_string_length_normalized_{}", n), two(user, &move |r: &mut Rec| {
                        r.norm = Some(t.clone());
                        if too_long { r.strings = StrKind::TooLong; }
                    })));
                    let t = text.clone();
                    cases.push((format!("directed_string_length_surface_{}", n), two(user, &move |r: &mut Rec| {
                        r.surface = t.clone();
                        if too_long { r.strings = StrKind::TooLong; }
                    })));
                }
                if n <= 257 {
                    // a surface of exactly n BYTES (fewer code units)
                    let t = bytes_of(n);
                    cases.push((format!("directed_string_length_surface_{}_bytes", n), two(user, &move |r: &mut Rec| r.surface = t.clone())));
                    for k in 0..6 {
                        if k > 0 && !(127..=129).contains(&n) {
                            continue;
                        }
                        let t = units(if k % 2 == 0 { 0 } else { 1 }, n);
                        cases.push((format!("directed_string_length_pos_component_{}", n), two(user, &move |r: &mut Rec| r.pos_over = Some((k, t.clone())))));
                    }
                }
            }
        }
        // kana at the byte limit: 10922 x 3 + 1 = 32767 bytes fit, 10923 x 3 = 32769 bytes do not
        let t = format!("{}d", "ア".repeat(10922));
        cases.push(("directed_string_length_reading_32767_bytes".to_string(), two(false, &move |r: &mut Rec| r.reading = Some(t.clone()))));
        cases.push(("directed_string_length_reading_32769_bytes".to_string(), two(false, &|r: &mut Rec| {
            r.reading = Some("ア".repeat(10923));
            r.strings = StrKind::TooLong;
        })));
        for (shape, c) in &cases {
            emit(&mut sink, &env, &mut rng, c, shape);
        }
    }
    // ---- surfaces written with escapes: the checks on the surface (empty, U+0000) are about the DECODED value; an escape
    // that is no character is an error value; a text that only looks like an escape stays as it is
    {
        let forms: Vec<(&str, Option<&str>)> = vec![
            // (CSV text, decoded value; None = not decodable)
            ("\\u0000", Some("\u{0}")), ("\\u{0}", Some("\u{0}")), ("\\u{00}", Some("\u{0}")), ("\\u{000000}", Some("\u{0}")),
            ("a\\u0000b", Some("a\u{0}b")), ("あ\\u{0}", Some("あ\u{0}")), ("\\u0000あ", Some("\u{0}あ")), ("あい\\u{0000}うえ", Some("あい\u{0}うえ")),
            ("\\u3042", Some("あ")), ("\\u{3042}\\u3044", Some("あい")), ("\\u0041bc", Some("Abc")), ("\\u{20BB7}", Some("𠮷")), ("x\\u00e9", Some("xé")),
            ("\\u{}", Some("\\u{}")), ("\\u{0000000}", Some("\\u{0000000}")), ("\\u00", Some("\\u00")), ("\\u", Some("\\u")), ("\\U0000", Some("\\U0000")),
            ("\\uD800", None), ("\\u{110000}", None), ("a\\uDFFFb", None),
        ];
        for user in [false, true] {
            for indexed in [true, false] {
                for (text, decoded) in &forms {
                    let (nl, nr) = if user { (SYS_NL, SYS_NR) } else { (3, 3) };
                    let mut r8 = Rng::new(89);
                    let mut first = good_rec(0, nl, nr, &mut r8);
                    first.left = Num::Lit(0);
                    first.right = Num::Lit(0);
                    let mut second = good_rec(1, nl, nr, &mut r8);
                    second.left = Num::Lit(if indexed { 0 } else { -1 });
                    second.right = Num::Lit(if indexed { 0 } else { -1 });
                    match decoded {
                        Some(d) => {
                            debug_assert_eq!(decode_escapes(text).as_deref(), Ok(*d));
                            second.surface = d.to_string();
                            if d != text {
                                second.surface_text = Some(text.to_string());
                            }
                        }
                        None => {
                            second.surface = text.to_string();
                            second.strings = StrKind::BadEscape;
                        }
                    }
                    // the offending row first, last and alone
                    for order in 0..3 {
                        let recs = match order {
                            0 => vec![first.clone(), second.clone()],
                            1 => vec![second.clone(), first.clone()],
                            _ => vec![second.clone()],
                        };
                        if order == 2 && (user || !indexed) {
                            continue;
                        }
                        let case = Case { base: if user { Base::User } else { m33(vec![]) }, recs };
                        emit(&mut sink, &env, &mut rng, &case, if indexed { "directed_escaped_surface_indexed" } else { "directed_escaped_surface_not_indexed" });
                    }
                }
            }
        }
    }
    // split units that do not spell the headword (known finding)
    {
        let mut recs = good_recs(4, 3, 3, false, &mut Rng::new(11));
        for r in recs.iter_mut() {
            r.split_a.clear();
            r.split_b.clear();
            r.wstruct.clear();
            r.mode = Some(0);
        }
        recs[0].surface = "あい".into();
        recs[1].surface = "ううう".into();
        recs[2].surface = "え".into();
        recs[0].mode = Some(2);
        recs[0].split_a = vec![Wid::Lit(false, 1), Wid::Lit(false, 2)];
        for r in recs.iter_mut() {
            r.left = Num::Lit(0);
            r.right = Num::Lit(0);
        }
        fix_concat_flags(&mut recs, false);
        emit(&mut sink, &env, &mut rng, &Case { base: Base::System(good_matrix(3, 3, &mut Rng::new(5))), recs }, "directed_split_surface_mismatch");
    }
    // user-dictionary dictionary-form reference (known finding, reader side): replayed on the implementation every run
    run_raw(&mut sink, &env, None, "ああ,0,0,100,ああ,名詞,普通名詞,一般,*,*,*,ヨミ,ああ,2,A,*,*,*\n".as_bytes().to_vec(), "directed_user_dic_form_reference");
    // NUL byte in a surface (was a panic of the trie builder)
    run_raw(&mut sink, &env, Some(sys_matrix_text().into_bytes()), "\u{0}ああ,0,0,100,ああ,名詞,普通名詞,一般,*,*,*,ヨミ,ああ,*,A,*,*,*\n".as_bytes().to_vec(), "directed_nul_in_surface");
    run_raw(&mut sink, &env, Some(sys_matrix_text().into_bytes()), Vec::new(), "directed_empty_lexicon");
    // ---- structured stream
    let mut routed: Vec<(Option<String>, String, String)> = vec![];
    let n = args.n(700, 12000);
    for it in 0..n {
        let user = rng.chance(1, 4);
        let (nl, nr) = if user {
            (SYS_NL, SYS_NR)
        } else {
            let a = rng.range(1, 6);
            (a, if rng.chance(1, 2) { a } else { rng.range(1, 6) })
        };
        let nrows = 1 + rng.below(14) as usize;
        let mut recs = good_recs(nrows, nl, nr, user, &mut rng);
        let mut lines = if user { vec![] } else { good_matrix(nl, nr, &mut rng) };
        let shape: String;
        match if it % 5 == 0 { 0 } else { 1 + rng.below(if user { 1 } else { 2 }) } {
            0 => shape = "all_valid".into(),
            1 => shape = mutate_rec(&mut recs, nl, nr, user, &mut rng).into(),
            _ => {
                // damage the matrix text
                let k = rng.below(10);
                let hdr = lines.iter().position(|l| !l.is_empty()).unwrap();
                shape = match k {
                    0 => {
                        lines.clear();
                        if rng.chance(1, 2) {
                            lines.push(vec![]);
                        }
                        "matrix_no_header".into()
                    }
                    1 => {
                        lines[hdr] = vec![Tok::Num(nl)];
                        "matrix_header_one_field".into()
                    }
                    2 => {
                        lines[hdr] = vec![Tok::Num(nl), Tok::Bad("x".into())];
                        "matrix_header_non_numeric".into()
                    }
                    3 => {
                        lines[hdr] = vec![Tok::Num(*rng.pick(&[-1i64, 32768, -32769, 0])), Tok::Num(nr)];
                        "matrix_header_grid".into()
                    }
                    4 => {
                        let l = *rng.pick(&[nl, nl + 1, -1, 32767, 32768, -32768]);
                        lines.push(vec![Tok::Num(l), Tok::Num(rng.below(nr as u64) as i64), Tok::Num(1)]);
                        "matrix_left_coord_grid".into()
                    }
                    5 => {
                        let r = *rng.pick(&[nr, nr + 1, -1, 32767, 32768, -32768]);
                        lines.push(vec![Tok::Num(rng.below(nl as u64) as i64), Tok::Num(r), Tok::Num(1)]);
                        "matrix_right_coord_grid".into()
                    }
                    6 => {
                        lines.push(vec![Tok::Num(0), Tok::Num(0)]);
                        "matrix_line_two_fields".into()
                    }
                    7 => {
                        lines.push(vec![Tok::Num(0), Tok::Num(0), Tok::Num(1), Tok::Num(2)]);
                        "matrix_line_four_fields".into()
                    }
                    8 => {
                        lines.push(vec![Tok::Num(0), Tok::Num(0), Tok::Num(*rng.pick(&[32768i64, -32769]))]);
                        "matrix_cost_out_of_i16".into()
                    }
                    _ => {
                        lines.push(vec![Tok::Num(0), Tok::Bad("1.0".into()), Tok::Num(1)]);
                        "matrix_line_non_numeric".into()
                    }
                };
            }
        }
        fix_concat_flags(&mut recs, user);
        let case = Case { base: if user { Base::User } else { Base::System(lines) }, recs };
        if it % 3 == 1 {
            *env.hdr.borrow_mut() = gen_hdr(&mut rng);
            sink.tag("with_header_settings");
        }
        if it % 4 == 3 {
            env.via_files.set(true);
            sink.tag("sources_as_files");
        }
        emit(&mut sink, &env, &mut rng, &case, &shape);
        env.via_files.set(false);
        *env.hdr.borrow_mut() = Hdr::default();
        if it % 6 == 2 && !user && routed.len() < 300 {
            // the same abstract case goes through the command-line tool later
            routed.push((case.matrix_text(&mut rng), case.lexicon_text(), shape.to_string()));
        }
    }
    // ---- call histories on one builder
    {
        let m = |nl: i64, nr: i64| good_matrix(nl, nr, &mut Rng::new(9));
        let mut r9 = Rng::new(9);
        let big = {
            let mut c = chunk(0, 2, 5, 5, &mut r9);
            c[0].left = Num::Lit(4);
            c[0].right = Num::Lit(4);
            c
        };
        let small_ok = chunk(1, 2, 2, 2, &mut r9);
        let dangling = {
            let mut c = chunk(2, 1, 2, 2, &mut r9);
            c[0].wstruct = vec![Wid::Lit(false, 40)];
            c
        };
        let mut fail_line = m(2, 2);
        fail_line.push(vec![Tok::Bad("x".into()), Tok::Num(0), Tok::Num(1)]);
        let directed: Vec<(&str, Vec<HOp>)> = vec![
            ("directed_usual_order", vec![conn_op(m(5, 5), &mut r9), lex_op(big.clone()), HOp::Resolve, HOp::Compile]),
            ("directed_rows_after_resolve", vec![conn_op(m(2, 2), &mut r9), lex_op(small_ok.clone()), HOp::Resolve, lex_op(big.clone()), HOp::Compile]),
            ("directed_dangling_reference_after_resolve", vec![conn_op(m(2, 2), &mut r9), lex_op(small_ok.clone()), HOp::Resolve, lex_op(dangling.clone()), HOp::Compile]),
            ("directed_matrix_after_resolve", vec![lex_op(big.clone()), HOp::Resolve, conn_op(m(2, 2), &mut r9), HOp::Compile]),
            ("directed_smaller_matrix_after_resolve", vec![conn_op(m(5, 5), &mut r9), lex_op(big.clone()), HOp::Resolve, HOp::Compile, conn_op(m(2, 2), &mut r9), HOp::Compile]),
            ("directed_matrix_fails_at_a_line", vec![conn_op(m(5, 5), &mut r9), lex_op(big.clone()), conn_op(fail_line.clone(), &mut r9), HOp::Compile]),
            ("directed_compile_resolve_compile", vec![conn_op(m(5, 5), &mut r9), lex_op(big.clone()), HOp::Compile, HOp::Resolve, HOp::Compile, lex_op(small_ok.clone()), HOp::Compile]),
            ("directed_no_matrix", vec![lex_op(small_ok.clone()), HOp::Compile]),
            // whatever was validated at some earlier call, compile answers for the state it finds: a smaller matrix read after
            // resolve (with and without a matrix before it, after one or two resolves, failing half-way, after a compile)
            ("directed_resolve_then_smaller_matrix", vec![conn_op(m(5, 5), &mut r9), lex_op(big.clone()), HOp::Resolve, conn_op(m(2, 2), &mut r9), HOp::Compile]),
            ("directed_resolve_then_smaller_matrix", vec![conn_op(m(5, 5), &mut r9), lex_op(big.clone()), HOp::Resolve, HOp::Resolve, conn_op(m(2, 2), &mut r9), HOp::Compile, HOp::Compile]),
            ("directed_resolve_then_smaller_matrix", vec![lex_op(big.clone()), HOp::Resolve, conn_op(m(5, 5), &mut r9), HOp::Compile, conn_op(m(2, 2), &mut r9), HOp::Resolve, HOp::Compile]),
            ("directed_resolve_then_smaller_matrix_failing_at_a_line", vec![conn_op(m(5, 5), &mut r9), lex_op(big.clone()), HOp::Resolve, conn_op(fail_line.clone(), &mut r9), HOp::Compile]),
            ("directed_resolve_then_non_square_matrix", vec![conn_op(m(5, 5), &mut r9), lex_op(big.clone()), HOp::Resolve, conn_op(m(5, 2), &mut r9), HOp::Compile, conn_op(m(2, 5), &mut r9), HOp::Compile]),
            ("directed_dangling_reference_between_resolves", vec![conn_op(m(2, 2), &mut r9), lex_op(small_ok.clone()), HOp::Resolve, lex_op(dangling.clone()), HOp::Resolve, HOp::Compile]),
        ];
        for (shape, ops) in &directed {
            emit_history(&mut sink, &env, false, ops, shape, false);
            // the same calls with their data handed over as file paths: all of them, only the matrices, only the last matrix
            let is_conn: Vec<bool> = ops.iter().map(|o| matches!(o, HOp::Conn(..))).collect();
            let is_src: Vec<bool> = ops.iter().map(|o| matches!(o, HOp::Conn(..) | HOp::Lex(..))).collect();
            let last_conn = is_conn.iter().rposition(|c| *c);
            let only_last: Vec<bool> = (0..ops.len()).map(|i| Some(i) == last_conn).collect();
            emit_history_src(&mut sink, &env, false, ops, &is_src, &format!("{}_files", shape), false);
            if is_conn.iter().filter(|c| **c).count() >= 1 && is_conn != is_src {
                emit_history_src(&mut sink, &env, false, ops, &is_conn, &format!("{}_matrix_files", shape), false);
            }
            if is_conn.iter().filter(|c| **c).count() >= 2 {
                emit_history_src(&mut sink, &env, false, ops, &only_last, &format!("{}_last_matrix_file", shape), false);
            }
        }
        // user-dictionary builders: rows with ids beyond the system dictionary's matrix / a dangling reference after resolve
        {
            let ok = chunk(3, 2, SYS_NL, SYS_NR, &mut r9);
            let mut edge = chunk(4, 1, SYS_NL, SYS_NR, &mut r9);
            edge[0].left = Num::Lit(SYS_NR);
            edge[0].right = Num::Lit(0);
            let mut dang = chunk(5, 1, SYS_NL, SYS_NR, &mut r9);
            dang[0].wstruct = vec![Wid::Lit(true, 40)];
            emit_history_src(&mut sink, &env, true, &[lex_op(ok.clone()), HOp::Resolve, lex_op(edge.clone()), HOp::Compile], &[true, false, true, false], "directed_user_rows_after_resolve_files", false);
            emit_history(&mut sink, &env, true, &[lex_op(ok.clone()), HOp::Resolve, lex_op(edge), HOp::Compile], "directed_user_rows_after_resolve", false);
            emit_history(&mut sink, &env, true, &[lex_op(ok.clone()), HOp::Resolve, HOp::Compile, lex_op(dang), HOp::Compile, HOp::Resolve, HOp::Compile], "directed_user_rows_after_resolve", false);
        }
        // homographs spread over several read_lexicon calls count together: 64 + 63 compile, one more does not
        for user in [false, true] {
            let (nl, nr) = if user { (SYS_NL, SYS_NR) } else { (3, 2) };
            let mut r6 = Rng::new(66);
            let a = homograph_recs(64, 1, 50, nl, nr, &mut r6);
            let b: Vec<Rec> = homograph_recs(63, 0, 50, nl, nr, &mut r6).into_iter().skip(1).filter(|r| r.surface == surface_of(50)).collect();
            let c: Vec<Rec> = homograph_recs(1, 0, 50, nl, nr, &mut r6).into_iter().filter(|r| r.surface == surface_of(50)).collect();
            let mut ops = vec![];
            if !user {
                ops.push(conn_op(good_matrix(nl, nr, &mut Rng::new(3)), &mut r9));
            }
            ops.extend(vec![lex_op(a), lex_op(b), HOp::Resolve, HOp::Compile, lex_op(c), HOp::Compile]);
            emit_history(&mut sink, &env, user, &ops, "directed_homographs_over_several_calls", false);
            let files: Vec<bool> = ops.iter().map(|o| matches!(o, HOp::Conn(..) | HOp::Lex(..))).collect();
            emit_history_src(&mut sink, &env, user, &ops, &files, "directed_homographs_over_several_calls_files", false);
        }
    }
    for i in 0..args.n(260, 4000) {
        let user = i % 4 == 3;
        let (ops, shape) = gen_history(&mut rng, user);
        if i % 5 == 0 {
            *env.hdr.borrow_mut() = gen_hdr(&mut rng);
        }
        // the data source of every read_conn / read_lexicon is a dimension of the history: bytes, file paths, a mix
        let files: Vec<bool> = match i % 3 {
            0 => vec![],
            1 => ops.iter().map(|o| matches!(o, HOp::Conn(..) | HOp::Lex(..))).collect(),
            _ => ops.iter().map(|o| matches!(o, HOp::Conn(..) | HOp::Lex(..)) && rng.chance(1, 2)).collect(),
        };
        emit_history_src(&mut sink, &env, user, &ops, &files, &shape, false);
        *env.hdr.borrow_mut() = Hdr::default();
    }
    for _ in 0..args.n(200, 4000) {
        rust_only_history(&mut sink, &env, &mut rng);
    }
    // ---- the other public routes to the compiler: command-line tool and Python functions
    cli::run_routes(&mut sink, &env, &mut rng, args, &routed);
    // ---- fault enumeration
    let ninputs = args.n(6, 40);
    for i in 0..ninputs {
        let user = i % 3 == 2;
        let (nl, nr) = if user { (SYS_NL, SYS_NR) } else { (rng.range(1, 3), rng.range(1, 3)) };
        let recs = good_recs(1 + rng.below(4) as usize, nl, nr, user, &mut rng);
        let case = Case { base: if user { Base::User } else { Base::System(good_matrix(nl, nr, &mut rng)) }, recs };
        if i % 3 == 1 {
            *env.hdr.borrow_mut() = Hdr { descr: Some("辞".repeat(85)), time: Some(1234567) };
        }
        fault_enumeration(&mut sink, &env, &mut rng, &case, 1);
        *env.hdr.borrow_mut() = Hdr::default();
    }
    // ---- malformed stream (implementation only)
    for _ in 0..args.n(400, 8000) {
        let user = rng.chance(1, 4);
        let (nl, nr) = if user { (SYS_NL, SYS_NR) } else { (rng.range(1, 4), rng.range(1, 4)) };
        let recs = good_recs(1 + rng.below(6) as usize, nl, nr, user, &mut rng);
        let case = Case { base: if user { Base::User } else { Base::System(good_matrix(nl, nr, &mut rng)) }, recs };
        let matrix = case.matrix_text(&mut rng);
        let lexicon = case.lexicon_text();
        let which = rng.below(3);
        let m = matrix.map(|m| if which != 0 { damage(&m, &mut rng) } else { m.into_bytes() });
        let l = if which != 1 { damage(&lexicon, &mut rng) } else { lexicon.into_bytes() };
        run_raw(&mut sink, &env, m, l, if user { "damaged_bytes_user" } else { "damaged_bytes_system" });
    }
    sink.finish();
}
