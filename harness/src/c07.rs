//! C07 — text normalisation is the specified context-free function of the input.
//!
//! Runs DefaultInputTextPlugin / ProlongedSoundMarkPlugin / IgnoreYomiganaPlugin (loaded through a config JSON into a
//! JapaneseDictionary built from the test lexicon) on generated rewrite tables / settings / texts, records
//! `InputBuffer::current()` and the offset map at every code-point boundary, and ships the Unicode oracle values
//! (std case mapping, unicode-normalization) of the code points of each case to the Coq model.
use crate::common::*;
use serde_json::{json, Value};
use std::collections::{BTreeMap, BTreeSet};
use std::path::PathBuf;
use sudachi::analysis::stateless_tokenizer::DictionaryAccess;
use sudachi::config::ConfigBuilder;
use sudachi::dic::build::DictBuilder;
use sudachi::dic::dictionary::JapaneseDictionary;
use sudachi::dic::storage::{Storage, SudachiDicData};
use sudachi::input_text::InputBuffer;
use unicode_normalization::{is_nfkc_quick, IsNormalized, UnicodeNormalization};

struct Env {
    sys: Vec<u8>,
    dir: PathBuf,
    chardef: String,
    n: usize,
}

impl Env {
    fn new(args: &Args) -> Env {
        let dir = args.work.join("c07tmp");
        let _ = std::fs::remove_dir_all(&dir);
        std::fs::create_dir_all(&dir).unwrap();
        let dir = std::fs::canonicalize(&dir).unwrap();
        let res = format!("{}/sudachi/tests/resources", repo());
        let mut b = DictBuilder::new_system();
        let conn = std::fs::read(format!("{}/matrix_10x10.def", res)).unwrap();
        let lex = std::fs::read(format!("{}/lex.csv", res)).unwrap();
        b.read_conn(conn.as_slice()).unwrap();
        b.read_lexicon(lex.as_slice()).unwrap();
        b.resolve().unwrap();
        let mut sys = Vec::new();
        b.compile(&mut sys).unwrap();
        Env { sys, dir, chardef: format!("{}/char.def", res), n: 0 }
    }

    fn file(&mut self, stem: &str, content: &str) -> String {
        self.n += 1;
        let p = self.dir.join(format!("{}_{}.def", stem, self.n % 8));
        std::fs::write(&p, content).unwrap();
        p.to_string_lossy().to_string()
    }

    /// dictionary with exactly one input-text plugin
    fn dict(&self, chardef: &str, plugin: Value) -> Result<JapaneseDictionary, String> {
        let cfg = json!({
            "path": self.dir.to_string_lossy(),
            "characterDefinitionFile": chardef,
            "inputTextPlugin": [plugin],
            "oovProviderPlugin": [{"class": "com.worksap.nlp.sudachi.SimpleOovPlugin",
                "oovPOS": ["名詞", "普通名詞", "一般", "*", "*", "*"], "leftId": 8, "rightId": 8, "cost": 6000}],
        });
        let cfg = ConfigBuilder::from_bytes(cfg.to_string().as_bytes()).map_err(|e| format!("{:?}", e))?.build();
        match catch(|| JapaneseDictionary::from_cfg_storage(&cfg, SudachiDicData::new(Storage::Owned(self.sys.clone())))) {
            Ok(Ok(d)) => Ok(d),
            Ok(Err(e)) => Err(format!("{:?}", e)),
            Err(p) => Err(format!("panic: {}", p)),
        }
    }
}

/// implementation output: the rewritten text and m2o at every code-point boundary of it (incl. the end)
fn run_plugin(d: &JapaneseDictionary, text: &str) -> Result<(String, Vec<usize>), String> {
    let r = catch(|| {
        let mut buf = InputBuffer::from(text);
        let p = &d.input_text_plugins()[0];
        match p.rewrite(&mut buf) {
            Ok(()) => {
                let cur = buf.current().to_string();
                let mut offs: Vec<usize> = cur.char_indices().map(|(b, _)| buf.get_original_index(b)).collect();
                offs.push(buf.get_original_index(cur.len()));
                Ok((cur, offs))
            }
            Err(e) => Err(format!("error: {:?}", e)),
        }
    });
    match r {
        Ok(x) => x,
        Err(p) => Err(format!("panic: {}", p)),
    }
}

fn cps(s: &str) -> Vec<u32> {
    s.chars().map(|c| c as u32).collect()
}
fn cl(v: &[u32]) -> String {
    clist(v.iter().map(|c| cn(*c)))
}
fn cout(r: &Result<(String, Vec<usize>), String>) -> (String, String) {
    match r {
        Ok((s, o)) => (format!("(Some {})", ctext(s)), clist(o.iter().map(|x| cnu(*x)))),
        Err(_) => ("None".to_string(), "[]".to_string()),
    }
}

// ------------------------------------------------------------------ Unicode oracle
fn lower(c: char) -> Vec<char> {
    c.to_lowercase().collect()
}
fn nfkc_of(v: &[char]) -> Vec<char> {
    v.iter().cloned().nfkc().collect()
}
fn qc_yes(c: char) -> bool {
    matches!(is_nfkc_quick(std::iter::once(c)), IsNormalized::Yes)
}
fn qc_text(s: &str) -> bool {
    matches!(is_nfkc_quick(s.chars()), IsNormalized::Yes)
}

/// `mkO lowers nfkcs qcno uppers` for the code points of `text`
fn oracle_term(text: &str) -> String {
    let set: BTreeSet<char> = text.chars().collect();
    let mut lowers = vec![];
    let mut nf: BTreeMap<Vec<u32>, Vec<u32>> = BTreeMap::new();
    let mut qcno = vec![];
    let mut uppers = vec![];
    for &c in &set {
        let l = lower(c);
        if l != vec![c] {
            lowers.push(format!("({}, {})", cn(c as u32), clist(l.iter().map(|x| cn(*x as u32)))));
        }
        for src in [vec![c], l.clone()] {
            let n = nfkc_of(&src);
            if n != src {
                nf.insert(src.iter().map(|x| *x as u32).collect(), n.iter().map(|x| *x as u32).collect());
            }
        }
        if !qc_yes(c) {
            qcno.push(cn(c as u32));
        }
        if c.is_uppercase() {
            uppers.push(cn(c as u32));
        }
    }
    format!(
        "(mkO {} {} {} {})",
        clist(lowers),
        clist(nf.iter().map(|(k, v)| format!("({}, {})", cl(k), cl(v)))),
        clist(qcno),
        clist(uppers)
    )
}

/// independent statement of the property on the Rust side: left to right, longest key, else lower-case then NFKC unless exempt
fn spec_normalize(table: &[(String, String)], ign: &[char], text: &str) -> String {
    let chars: Vec<char> = text.chars().collect();
    let keys: Vec<(Vec<char>, &str)> = table.iter().map(|(k, v)| (k.chars().collect(), v.as_str())).collect();
    let mut out = String::new();
    let mut i = 0;
    while i < chars.len() {
        let mut best: Option<(usize, &str)> = None;
        for (k, v) in &keys {
            if chars[i..].starts_with(k) && best.map_or(true, |b| k.len() > b.0) {
                best = Some((k.len(), v));
            }
        }
        if let Some((n, v)) = best {
            out.push_str(v);
            i += n;
            continue;
        }
        let l = lower(chars[i]);
        if ign.contains(&chars[i]) {
            out.extend(l.iter());
        } else {
            out.extend(nfkc_of(&l).iter());
        }
        i += 1;
    }
    out
}

// ------------------------------------------------------------------ generators: default plugin
const ALPHA: &[char] = &[
    'a', 'b', 'c', 'x', 'A', 'B', 'Ａ', 'ａ', 'ｶ', 'ﾞ', 'か', '\u{3099}', 'が', '㈱', 'Ⅲ', 'ⅲ', 'ǅ', 'İ', 'ß', 'ẞ', 'Σ', 'ﬁ', '①', 'ー',
    'ｰ', '徳', '(', '（', 'ク', '\u{1F600}', '\u{301}', 'e', '\u{212B}', '\u{212A}', 'ſ', '\u{1F88}', '\u{FDFA}', '\u{345}', '⼼', 'Д',
    'Â', 'Γ', '\u{1E9B}', '゛', '0', '９', '\u{2126}', '\u{3385}', '\u{1F80}', '\u{10400}', '\u{1D400}', '\u{2F800}', '\u{A0}',
];
const PLAIN: &[char] = &['a', 'b', 'c', 'x', 'e', 'か', 'ク', '徳', '0', 'ー', '(', 'ß', '\u{1F600}'];

/// strings for rewrite.def columns: no white space (the file format splits on it)
fn gen_string(rng: &mut Rng, alpha: &[char], max: usize) -> String {
    let n = 1 + rng.below(max as u64) as usize;
    (0..n).map(|_| *rng.pick(alpha)).map(|c| if c.is_whitespace() { 'x' } else { c }).collect()
}

struct Table {
    pairs: Vec<(String, String)>,
    ign: Vec<char>,
}

fn gen_table(rng: &mut Rng) -> Table {
    let mut pairs: Vec<(String, String)> = vec![];
    let small: &[char] = if rng.chance(1, 2) { &['a', 'b', 'c'] } else { ALPHA };
    let nk = rng.below(7) as usize;
    let add = |k: String, rng: &mut Rng, pairs: &mut Vec<(String, String)>| {
        let k: String = k.chars().map(|c| if c.is_whitespace() { 'x' } else { c }).collect();
        if pairs.iter().any(|(x, _)| *x == k) || k.starts_with('#') {
            return;
        }
        let al = if rng.chance(1, 3) { ALPHA } else { PLAIN };
        // the value is usually unrelated to the key; but also: the key itself (an identity rule protects its span from
        // lower-casing / NFKC and from shorter keys), a string that contains the key (rules are applied once, the result
        // is not scanned again), the key of another rule (a -> b, b -> c is not a -> c)
        let v = match rng.below(10) {
            0 | 1 => k.clone(),
            2 => format!("{}{}", k, gen_string(rng, al, 2)),
            3 => format!("{}{}", gen_string(rng, al, 1), k),
            4 if !pairs.is_empty() => rng.pick(&pairs[..]).0.clone(),
            _ => gen_string(rng, al, 3),
        };
        pairs.push((k, v));
    };
    for _ in 0..nk {
        let al = if rng.chance(2, 3) { small } else { ALPHA };
        let k = gen_string(rng, al, 3);
        // chains of keys that are prefixes of other keys
        if rng.chance(1, 2) {
            let mut ext = k.clone();
            ext.push(*rng.pick(small));
            add(ext.clone(), rng, &mut pairs);
            if rng.chance(1, 3) {
                ext.push(*rng.pick(small));
                add(ext, rng, &mut pairs);
            }
        }
        add(k, rng, &mut pairs);
    }
    // file order is irrelevant for the plugin (HashMap); shuffle to make sure the model does not depend on it either
    for i in (1..pairs.len()).rev() {
        let j = rng.below(i as u64 + 1) as usize;
        pairs.swap(i, j);
    }
    let ni = rng.below(4) as usize;
    let mut ign: Vec<char> = vec![];
    for _ in 0..ni {
        let c = *rng.pick(ALPHA);
        if !ign.contains(&c) && c != '#' && !c.is_whitespace() {
            ign.push(c);
        }
    }
    Table { pairs, ign }
}

fn render_table(t: &Table, rng: &mut Rng) -> String {
    let mut s = String::from("# generated\n");
    for c in &t.ign {
        s.push_str(&format!("{}\n", c));
    }
    if rng.chance(1, 2) {
        s.push_str("\n# replace char list\n");
    }
    for (k, v) in &t.pairs {
        s.push_str(&format!("{}{}{}\n", k, if rng.chance(1, 2) { "\t" } else { " " }, v));
    }
    s
}

fn gen_text(rng: &mut Rng, t: &Table, plain: bool) -> String {
    let n = rng.below(9) as usize;
    let mut s = String::new();
    for _ in 0..n {
        match rng.below(6) {
            0 | 1 if !t.pairs.is_empty() => {
                let k = &rng.pick(&t.pairs).0;
                if !plain || is_plain(k) {
                    s.push_str(k);
                    // a key cut short / continued
                    if rng.chance(1, 4) {
                        s.pop();
                    }
                }
            }
            2 if !t.ign.is_empty() && !plain => s.push(*rng.pick(&t.ign)),
            _ => s.push(*rng.pick(if plain { PLAIN } else { ALPHA })),
        }
    }
    s
}

/// text that takes the fast path: quick check Yes and no character that needs lower-casing
fn is_plain(s: &str) -> bool {
    qc_text(s) && s.chars().all(|c| !c.is_uppercase() && lower(c) == vec![c])
}

fn table_term(t: &Table) -> String {
    clist(t.pairs.iter().map(|(k, v)| format!("({}, {})", ctext(k), ctext(v))))
}

fn default_case(sink: &mut Sink, env: &mut Env, d: &JapaneseDictionary, t: &Table, text: &str, verbose: bool, extra_tag: &str) {
    let r = run_plugin(d, text);
    let want = spec_normalize(&t.pairs, &t.ign, text);
    let (o, offs) = cout(&r);
    let term = format!(
        "check_default {} {} {} {} {} {} {}",
        oracle_term(text),
        table_term(t),
        clist(t.ign.iter().map(|c| cn(*c as u32))),
        ctext(text),
        cbool(qc_text(text)),
        o,
        offs
    );
    let fast = is_plain(text);
    let chars: Vec<char> = text.chars().collect();
    let has_key = t.pairs.iter().any(|(k, _)| text.contains(k.as_str()));
    let overlapping_keys = t.pairs.iter().any(|(k, _)| t.pairs.iter().any(|(k2, _)| k2 != k && k2.starts_with(k.as_str()) && text.contains(k2.as_str())));
    let nontrivial = has_key || chars.iter().any(|c| lower(*c) != vec![*c] || !qc_yes(*c));
    sink.tag(if fast { "path=fast" } else { "path=slow" });
    if has_key {
        sink.tag("text_contains_key");
    }
    if overlapping_keys {
        sink.tag("text_contains_key_with_shorter_prefix_key");
    }
    if chars.iter().any(|c| t.ign.contains(c)) {
        sink.tag("text_contains_exempt_char");
    }
    if !extra_tag.is_empty() {
        sink.tag(extra_tag);
    }
    let desc = json!({"kind": "default", "text": text, "table": t.pairs, "exempt": t.ign.iter().map(|c| c.to_string()).collect::<Vec<_>>()});
    let id = sink.case(term, desc, nontrivial);
    match &r {
        Ok((cur, _)) => {
            if verbose {
                println!("implementation: {:?}\nspecification : {:?}", cur, want);
            }
            if *cur != want {
                sink.fail(id, &format!("text {:?} table {:?} exempt {:?}: implementation gives {:?}, specified normalisation is {:?}", text, t.pairs, t.ign, cur, want), "");
            }
        }
        Err(e) => {
            if verbose {
                println!("implementation: {}", e);
            }
            sink.fail(id, &format!("text {:?}: plugin failed: {}", text, e), "");
        }
    }
    let _ = env;
}

/// "how a span is rewritten never depends on unrelated characters elsewhere": T alone vs T next to a character that
/// forces the general path.  Rust-side check on the implementation only.
fn context_case(sink: &mut Sink, d: &JapaneseDictionary, t: &Table, text: &str) {
    // the separator is not part of any key and cannot extend a match
    let sep = '\u{A0}'; // NBSP: quick-check No, NFKC -> ' '
    if t.pairs.iter().any(|(k, _)| k.contains(sep) || k.contains('Ａ')) || t.ign.contains(&sep) || t.ign.contains(&'Ａ') {
        return;
    }
    let alone = run_plugin(d, text);
    let with = run_plugin(d, &format!("{}{}Ａ", text, sep));
    let pre = run_plugin(d, &format!("Ａ{}{}", sep, text));
    let id = sink.case_rust_only(json!({"kind": "default", "context": true, "text": text, "table": t.pairs,
        "exempt": t.ign.iter().map(|c| c.to_string()).collect::<Vec<_>>()}), true);
    sink.tag("context_pair");
    if let (Ok((a, _)), Ok((w, _)), Ok((p, _))) = (&alone, &with, &pre) {
        if format!("{} a", a) != *w {
            sink.fail(id, &format!("text {:?} table {:?}: alone -> {:?}, followed by an unrelated full-width letter -> {:?}", text, t.pairs, a, w), "");
        } else if format!("a {}", a) != *p {
            sink.fail(id, &format!("text {:?} table {:?}: alone -> {:?}, preceded by an unrelated full-width letter -> {:?}", text, t.pairs, a, p), "");
        }
    } else {
        sink.fail(id, &format!("text {:?}: plugin failed", text), "");
    }
}

fn default_stream(sink: &mut Sink, env: &mut Env, rng: &mut Rng, ntables: usize, per: usize) {
    for _ in 0..ntables {
        let t = gen_table(rng);
        let path = env.file("rewrite", &render_table(&t, rng));
        let d = match env.dict(&env.chardef.clone(), json!({"class": "com.worksap.nlp.sudachi.DefaultInputTextPlugin", "rewriteDef": path})) {
            Ok(d) => d,
            Err(e) => {
                let id = sink.case_rust_only(json!({"kind": "default-load", "table": t.pairs}), false);
                sink.fail(id, &format!("well-formed rewrite.def rejected: {}", e), "");
                continue;
            }
        };
        for k in 0..per {
            let plain = k % 3 == 0;
            let text = gen_text(rng, &t, plain);
            default_case(sink, env, &d, &t, &text, false, "");
            if plain && k % 2 == 0 {
                context_case(sink, &d, &t, &text);
            }
        }
    }
}

/// every scalar value alone and between two neighbours, for the shipped tables (thorough) / a stride of them (quick)
fn sweep_shipped(sink: &mut Sink, env: &mut Env, stride: u32) {
    for f in ["resources/rewrite.def", "sudachi/tests/resources/rewrite.def"] {
        let path = format!("{}/{}", repo(), f);
        let Ok(text) = std::fs::read_to_string(&path) else { continue };
        let mut t = Table { pairs: vec![], ign: vec![] };
        for line in text.lines() {
            let line = line.trim();
            if line.is_empty() || line.starts_with('#') {
                continue;
            }
            let cols: Vec<&str> = line.split_whitespace().collect();
            if cols.len() == 1 {
                t.ign.push(cols[0].chars().next().unwrap());
            } else {
                t.pairs.push((cols[0].to_string(), cols[1].to_string()));
            }
        }
        let d = env.dict(&env.chardef.clone(), json!({"class": "com.worksap.nlp.sudachi.DefaultInputTextPlugin", "rewriteDef": path})).unwrap();
        let mut bad = 0u64;
        let mut n = 0u64;
        let mut first: Option<String> = None;
        let mut c = 0u32;
        while c <= 0x10FFFF {
            if let Some(ch) = char::from_u32(c) {
                for s in [ch.to_string(), format!("か{}ﾞ", ch), format!("Ａ{}a", ch)] {
                    n += 1;
                    let want = spec_normalize(&t.pairs, &t.ign, &s);
                    match run_plugin(&d, &s) {
                        Ok((cur, _)) if cur == want => {}
                        other => {
                            bad += 1;
                            if first.is_none() {
                                first = Some(format!("{}: text {:?} (U+{:04X}): implementation {:?}, specified {:?}", f, s, c, other.map(|x| x.0), want));
                            }
                        }
                    }
                }
            }
            c += stride;
        }
        sink.tag_n(&format!("sweep_scalar_values[{}]", f), n);
        let id = sink.case_rust_only(json!({"kind": "sweep", "file": f, "stride": stride, "texts": n}), true);
        if let Some(w) = first {
            sink.fail(id, &format!("{} of {} single-character texts differ; first: {}", bad, n, w), "");
        }
        // a few shipped-table texts through the model as well
        for s in ["ÂＢΓД㈱ｶﾞウ゛⼼Ⅲ", "ｶﾞｷﾞかﾞABC", "う゛か゛Ⅲⅲ⺀", "abc", ""] {
            // only the keys that can occur in the text are sent to the model (the table has hundreds of rows)
            let sub = Table { pairs: t.pairs.iter().filter(|(k, _)| s.contains(k.chars().next().unwrap())).cloned().collect(), ign: t.ign.iter().filter(|c| s.contains(**c)).cloned().collect() };
            default_case(sink, env, &d, &sub, s, false, "corpus_shipped_table");
        }
    }
}

/// the oracle laws the theorems assume, checked over every Unicode scalar value (a test, not a proof)
fn law_sweep(sink: &mut Sink) {
    let mut bad: BTreeMap<&str, Vec<u32>> = BTreeMap::new();
    let mut n = 0u64;
    for c in 0..=0x10FFFFu32 {
        let Some(ch) = char::from_u32(c) else { continue };
        n += 1;
        let l = lower(ch);
        let n1 = nfkc_of(&[ch]);
        let nl = nfkc_of(&l);
        if qc_yes(ch) && nl != l {
            bad.entry("law_qc: quick-check Yes but NFKC(lower c) != lower c").or_default().push(c);
        }
        for r in [&l, &n1, &nl] {
            if r.is_empty() || (r[0] == ch && r.len() > 1) {
                bad.entry("law_head: an expansion is empty or starts with the character itself and is longer").or_default().push(c);
            }
        }
        if !ch.is_uppercase() && l != vec![ch] {
            bad.entry("informational: is_uppercase() false but to_lowercase() differs (title-case letters)").or_default().push(c);
        }
    }
    sink.tag_n("oracle_law_sweep_scalar_values", n);
    let id = sink.case_rust_only(json!({"kind": "law-sweep", "scalar_values": n}), true);
    for (k, v) in &bad {
        let show: Vec<String> = v.iter().take(40).map(|c| format!("U+{:04X}", c)).collect();
        sink.extra(&format!("oracle_sweep: {}", k), json!(show));
        if k.starts_with("law_") {
            sink.fail(id, &format!("oracle law violated for {} scalar values: {}: {}", v.len(), k, show.join(" ")), "");
        }
    }
}

// ------------------------------------------------------------------ prolonged sound marks
const PSM_MARKS: &[char] = &['ー', '〜', '〰', '-', '^', ']', '[', '\\', 'a', '~', '&', '\u{1F600}', '.'];
const PSM_OTHER: &[char] = &['ゴ', 'ル', 'x', '。', '\u{10400}', 'é'];

fn psm_stream(sink: &mut Sink, env: &mut Env, rng: &mut Rng, nsets: usize, per: usize) {
    for i in 0..nsets {
        let mut marks: Vec<char> = vec![];
        if i == 0 {
            marks = vec!['ー', '〜', '〰'];
        } else {
            for _ in 0..(1 + rng.below(4)) {
                let c = *rng.pick(PSM_MARKS);
                if !marks.contains(&c) {
                    marks.push(c);
                }
            }
        }
        let sym: Option<String> = match rng.below(5) {
            0 => None,
            1 => Some("ー".into()),
            2 => Some("==".into()),
            3 => Some("".into()),
            _ => Some(marks[0].to_string()),
        };
        let mut plugin = json!({"class": "com.worksap.nlp.sudachi.ProlongedSoundMarkPlugin",
            "prolongedSoundMarks": marks.iter().map(|c| c.to_string()).collect::<Vec<_>>()});
        if let Some(s) = &sym {
            plugin["replacementSymbol"] = json!(s);
        }
        let d = match env.dict(&env.chardef.clone(), plugin) {
            Ok(d) => d,
            Err(e) => {
                let id = sink.case_rust_only(json!({"kind": "psm-load", "marks": marks.iter().map(|c| c.to_string()).collect::<Vec<_>>()}), false);
                sink.fail(id, &format!("mark set rejected: {}", e), "");
                continue;
            }
        };
        let symv = sym.clone().unwrap_or("ー".to_string());
        for _ in 0..per {
            let n = rng.below(10) as usize;
            let text: String = (0..n).map(|_| if rng.chance(3, 5) { *rng.pick(&marks) } else if rng.chance(1, 2) { *rng.pick(PSM_MARKS) } else { *rng.pick(PSM_OTHER) }).collect();
            psm_case(sink, &d, &marks, &symv, &text, false);
        }
    }
}

fn psm_oracle(marks: &[char], sym: &str, text: &str) -> String {
    let ch: Vec<char> = text.chars().collect();
    let mut out = String::new();
    let mut i = 0;
    while i < ch.len() {
        let mut j = i;
        while j < ch.len() && marks.contains(&ch[j]) {
            j += 1;
        }
        if j - i >= 2 {
            out.push_str(sym);
            i = j;
        } else {
            out.push(ch[i]);
            i += 1;
        }
    }
    out
}

fn psm_case(sink: &mut Sink, d: &JapaneseDictionary, marks: &[char], sym: &str, text: &str, verbose: bool) {
    let r = run_plugin(d, text);
    let (o, offs) = cout(&r);
    let term = format!("check_psm {} {} {} {} {}", clist(marks.iter().map(|c| cn(*c as u32))), ctext(sym), ctext(text), o, offs);
    let want = psm_oracle(marks, sym, text);
    let ch: Vec<char> = text.chars().collect();
    let nontrivial = ch.windows(2).any(|w| marks.contains(&w[0]) && marks.contains(&w[1]));
    sink.tag(if nontrivial { "psm_has_run" } else { "psm_no_run" });
    let desc = json!({"kind": "psm", "text": text, "marks": marks.iter().map(|c| c.to_string()).collect::<Vec<_>>(), "symbol": sym});
    let id = sink.case(term, desc, nontrivial);
    if verbose {
        println!("implementation: {:?}\nspecification : {:?}", r, want);
    }
    match &r {
        Ok((cur, _)) if *cur == want => {}
        other => sink.fail(id, &format!("marks {:?} symbol {:?} text {:?}: implementation {:?}, specified {:?}", marks, sym, text, other, want), ""),
    }
}

// ------------------------------------------------------------------ yomigana
const Y_KANJI: &[char] = &['徳', '島', '行', '漢'];
const Y_READ: &[char] = &['と', 'く', 'し', 'マ', 'イ'];
const Y_BR: &[char] = &['(', ')', '（', '）', '[', ']', '《', '》'];
const Y_OTHER: &[char] = &['a', 'に', '。', '\u{10400}'];

struct YomiCfg {
    /// classes derived from the TEXT of the char.def in use (union of the definition lines), never from the implementation
    kanji: Vec<(u32, u32)>,
    reading: Vec<(u32, u32)>,
    lbs: Vec<char>,
    rbs: Vec<char>,
    maxlen: usize,
    chardef: String,
    /// shipped definition file (relative to the repository) instead of a generated one
    chardef_file: Option<String>,
}

/// Independent reading of a char.def: the code points whose class set (union of all covering lines, as C17 proves
/// get_category_types computes it) intersects KANJI, resp. HIRAGANA|KATAKANA.  `ALL` contains every class bit.
fn chardef_classes(text: &str) -> (Vec<(u32, u32)>, Vec<(u32, u32)>) {
    let mut kanji = vec![];
    let mut reading = vec![];
    for line in text.lines() {
        let line = line.split('#').next().unwrap().trim();
        if !line.starts_with("0x") {
            continue;
        }
        let cols: Vec<&str> = line.split_whitespace().collect();
        let r: Vec<&str> = cols[0].split("..").collect();
        let hex = |x: &str| u32::from_str_radix(x.trim_start_matches("0x"), 16).unwrap();
        let lo = hex(r[0]);
        let hi = if r.len() > 1 { hex(r[1]) } else { lo };
        if cols[1..].iter().any(|c| *c == "KANJI" || *c == "ALL") {
            kanji.push((lo, hi));
        }
        if cols[1..].iter().any(|c| *c == "HIRAGANA" || *c == "KATAKANA" || *c == "ALL") {
            reading.push((lo, hi));
        }
    }
    (kanji, reading)
}

/// the code points on both sides of both ends of every definition range: begin-1, begin, end, end+1
fn boundary_chars(rs: &[(u32, u32)]) -> Vec<char> {
    let mut v: Vec<char> = vec![];
    for (lo, hi) in rs {
        for x in [lo.wrapping_sub(1), *lo, *hi, hi + 1] {
            if let Some(c) = char::from_u32(x) {
                if x != u32::MAX && !v.contains(&c) {
                    v.push(c);
                }
            }
        }
    }
    v
}

fn in_class(rs: &[(u32, u32)], c: char) -> bool {
    rs.iter().any(|(a, b)| *a <= c as u32 && c as u32 <= *b)
}

fn gen_yomi(rng: &mut Rng, first: bool) -> YomiCfg {
    // definition lines; mostly the natural ones, sometimes overlapping with brackets / each other, single points, ALL blocks
    let mut kanji: Vec<(u32, u32)> = vec![(0x4E00, 0x9FFF)];
    let mut reading: Vec<(u32, u32)> = vec![(0x3041, 0x309F), (0x30A1, 0x30FF)];
    let mut all: Vec<(u32, u32)> = vec![];
    let mut lbs = vec!['(', '（'];
    let mut rbs = vec![')', '）'];
    let mut maxlen = 4;
    if !first {
        if rng.chance(1, 4) {
            reading.push((0x28, 0x29)); // brackets are readings too: greedy R{1,n} must backtrack
        }
        if rng.chance(1, 5) {
            kanji.push((0x3068, 0x3068)); // 'と' is both kanji and reading
        }
        if rng.chance(1, 5) {
            kanji.push((0x61, 0x61));
        }
        if rng.chance(1, 3) {
            lbs = (0..1 + rng.below(3)).map(|_| *rng.pick(Y_BR)).collect();
            rbs = (0..1 + rng.below(3)).map(|_| *rng.pick(Y_BR)).collect();
        }
        // further runs: short ranges, single points, runs that touch each other, an ALL block
        for _ in 0..rng.below(4) {
            let lo = *rng.pick(&[0x3005u32, 0x3007, 0x3400, 0x2E80, 0xF900, 0x62, 0x3100, 0xFF66, 0x1F3FB, 0x31F0]) + rng.below(3) as u32;
            let hi = lo + if rng.chance(1, 3) { 0 } else { rng.below(6) as u32 };
            if rng.chance(1, 2) {
                kanji.push((lo, hi));
            } else {
                reading.push((lo, hi));
            }
        }
        if rng.chance(1, 3) {
            let lo = *rng.pick(&[0x0300u32, 0x20D0, 0xFE00, 0x1F3FB, 0x200C]);
            all.push((lo, lo + rng.below(8) as u32));
        }
        maxlen = 1 + rng.below(4) as usize;
    }
    lbs.dedup();
    rbs.dedup();
    let line = |lo: u32, hi: u32, cat: &str| if lo == hi { format!("0x{:04X} {}\n", lo, cat) } else { format!("0x{:04X}..0x{:04X} {}\n", lo, hi, cat) };
    let mut cd = String::new();
    for (lo, hi) in &kanji {
        cd.push_str(&line(*lo, *hi, "KANJI"));
    }
    for (i, (lo, hi)) in reading.iter().enumerate() {
        cd.push_str(&line(*lo, *hi, if i % 2 == 0 { "HIRAGANA" } else { "KATAKANA" }));
    }
    for (lo, hi) in &all {
        cd.push_str(&line(*lo, *hi, "ALL NOOOVBOW # block"));
    }
    cd.push_str("0x0030..0x0039 NUMERIC\n");
    let (k, r) = chardef_classes(&cd);
    YomiCfg { kanji: k, reading: r, lbs, rbs, maxlen, chardef: cd, chardef_file: None }
}

/// the shipped definition files with the settings of the shipped configuration
fn shipped_yomi(file: &str) -> Option<YomiCfg> {
    let text = std::fs::read_to_string(format!("{}/{}", repo(), file)).ok()?;
    let (kanji, reading) = chardef_classes(&text);
    Some(YomiCfg { kanji, reading, lbs: vec!['(', '（'], rbs: vec![')', '）'], maxlen: 4, chardef: String::new(), chardef_file: Some(file.to_string()) })
}

fn yomi_dict(env: &mut Env, y: &YomiCfg) -> Result<JapaneseDictionary, String> {
    let cd = match &y.chardef_file {
        Some(f) => format!("{}/{}", repo(), f),
        None => env.file("char", &y.chardef),
    };
    let plugin = json!({"class": "com.worksap.nlp.sudachi.IgnoreYomiganaPlugin",
        "leftBrackets": y.lbs.iter().map(|c| c.to_string()).collect::<Vec<_>>(),
        "rightBrackets": y.rbs.iter().map(|c| c.to_string()).collect::<Vec<_>>(),
        "maxYomiganaLength": y.maxlen});
    env.dict(&cd, plugin)
}

/// Directed: every code point next to an end of a definition range (begin-1, begin, end, end+1), once in the kanji
/// position and once in the reading position of an otherwise perfect candidate.  `group` candidates per text.
fn yomi_boundary_sweep(sink: &mut Sink, d: &JapaneseDictionary, y: &YomiCfg, group: usize) {
    // a character that certainly is a kanji / a reading for this definition file, and brackets that are neither
    let Some(k0) = y.kanji.iter().filter_map(|(lo, _)| char::from_u32(*lo)).find(|c| !y.lbs.contains(c) && !y.rbs.contains(c)) else { return };
    let Some(r0) = y.reading.iter().filter_map(|(lo, _)| char::from_u32(*lo)).find(|c| !y.lbs.contains(c) && !y.rbs.contains(c)) else { return };
    let (lb, rb) = (y.lbs[0], y.rbs[0]);
    let mut cands: Vec<String> = vec![];
    for b in boundary_chars(&y.kanji) {
        cands.push(format!("{}{}{}{}。", b, lb, r0, rb));
    }
    for b in boundary_chars(&y.reading) {
        cands.push(format!("{}{}{}{}。", k0, lb, b, rb));
        if y.maxlen >= 3 {
            cands.push(format!("{}{}{}{}{}{}。", k0, lb, r0, b, r0, rb));
        }
    }
    for chunk in cands.chunks(group) {
        yomi_case(sink, d, y, &chunk.concat(), false);
        sink.tag("yomi_class_boundary_probe");
    }
}

fn yomi_stream(sink: &mut Sink, env: &mut Env, rng: &mut Rng, ncfg: usize, per: usize) {
    let mut cfgs: Vec<YomiCfg> = vec![gen_yomi(rng, true)];
    for f in ["sudachi/tests/resources/char.def", "resources/char.def"] {
        if let Some(y) = shipped_yomi(f) {
            cfgs.push(y);
        }
    }
    let fixed = cfgs.len();
    for _ in fixed..ncfg {
        cfgs.push(gen_yomi(rng, false));
    }
    for (i, y) in cfgs.iter().enumerate() {
        let d = match yomi_dict(env, y) {
            Ok(d) => d,
            Err(e) => {
                let id = sink.case_rust_only(json!({"kind": "yomi-load", "chardef": y.chardef, "chardef_file": y.chardef_file}), false);
                sink.fail(id, &format!("yomigana settings rejected: {}", e), "");
                continue;
            }
        };
        if i < fixed {
            for s in ["徳島（とくしま）に行く", "徳島（とくしま）に行（い）く", "徳島(とくしま)に行（い）く", "徳島に（よく）行く", "徳島（ながいよみ）に行く", "徳島（とくしま）",
                "〆（しめ）切は明日", "々（どう）", "〇（ゼロ）", "漢（゠）", "漢（かﾠな）", "島(ｼﾏ)"] {
                yomi_case(sink, &d, y, s, false);
            }
        }
        // one probe per text for the natural and the shipped definition files, four per text for the generated ones
        yomi_boundary_sweep(sink, &d, y, if i < fixed { 1 } else { 4 });
        // random texts: kanji / reading positions are filled from both sides of every range end as often as from the middle
        let mut kpool: Vec<char> = boundary_chars(&y.kanji);
        let mut rpool: Vec<char> = boundary_chars(&y.reading);
        kpool.extend_from_slice(Y_KANJI);
        rpool.extend_from_slice(Y_READ);
        for _ in 0..per {
            let n = rng.below(12) as usize;
            let mut s = String::new();
            for _ in 0..n {
                match rng.below(8) {
                    0 | 1 => s.push(*rng.pick(&kpool)),
                    2 | 3 => s.push(*rng.pick(&rpool)),
                    4 => s.push(*rng.pick(&y.lbs)),
                    5 => s.push(*rng.pick(&y.rbs)),
                    6 => {
                        // a complete candidate: kanji, bracket, readings, bracket
                        s.push(*rng.pick(&kpool));
                        s.push(*rng.pick(&y.lbs));
                        for _ in 0..rng.below(y.maxlen as u64 + 2) {
                            s.push(*rng.pick(&rpool));
                        }
                        s.push(*rng.pick(&y.rbs));
                    }
                    _ => {
                        let al = if rng.chance(1, 2) { Y_OTHER } else { Y_BR };
                        s.push(*rng.pick(al))
                    }
                }
            }
            yomi_case(sink, &d, y, &s, false);
        }
    }
}

fn yomi_oracle(y: &YomiCfg, text: &str) -> String {
    // U+10FFFF is never in a class: CharCategoryIter reports the last range as ..char::MAX exclusive (modelled in check_yomi too)
    let inr = |rs: &[(u32, u32)], c: char| in_class(rs, c) && (c as u32) < 0x10FFFF;
    let ch: Vec<char> = text.chars().collect();
    let mut out = String::new();
    let mut i = 0;
    while i < ch.len() {
        let mut matched = None;
        if i + 1 < ch.len() && inr(&y.kanji, ch[i]) && y.lbs.contains(&ch[i + 1]) {
            // largest k in 1..=maxlen with readings then a right bracket
            let mut k = 0;
            while k < y.maxlen && i + 2 + k < ch.len() && inr(&y.reading, ch[i + 2 + k]) {
                k += 1;
            }
            while k >= 1 {
                if i + 2 + k < ch.len() && y.rbs.contains(&ch[i + 2 + k]) {
                    matched = Some(k);
                    break;
                }
                k -= 1;
            }
        }
        out.push(ch[i]);
        match matched {
            Some(k) => i += k + 3,
            None => i += 1,
        }
    }
    out
}

fn yomi_case(sink: &mut Sink, d: &JapaneseDictionary, y: &YomiCfg, text: &str, verbose: bool) {
    let r = run_plugin(d, text);
    let (o, offs) = cout(&r);
    let rl = |rs: &[(u32, u32)]| clist(rs.iter().map(|(a, b)| format!("({}, {})", cn(*a), cn(*b))));
    let term = format!(
        "check_yomi {} {} {} {} {} {} {} {}",
        rl(&y.kanji),
        rl(&y.reading),
        clist(y.lbs.iter().map(|c| cn(*c as u32))),
        clist(y.rbs.iter().map(|c| cn(*c as u32))),
        y.maxlen,
        ctext(text),
        o,
        offs
    );
    let want = yomi_oracle(y, text);
    let nontrivial = want != text;
    sink.tag(if nontrivial { "yomi_removed" } else { "yomi_unchanged" });
    let desc = json!({"kind": "yomi", "text": text, "chardef": y.chardef, "chardef_file": y.chardef_file, "maxlen": y.maxlen,
        "lbs": y.lbs.iter().map(|c| c.to_string()).collect::<Vec<_>>(), "rbs": y.rbs.iter().map(|c| c.to_string()).collect::<Vec<_>>()});
    let id = sink.case(term, desc, nontrivial);
    if verbose {
        println!("implementation: {:?}\nspecification : {:?}", r, want);
    }
    match &r {
        Ok((cur, _)) if *cur == want => {}
        other => sink.fail(id, &format!("yomigana text {:?} (max {} brackets {:?}/{:?}): implementation {:?}, specified {:?}", text, y.maxlen, y.lbs, y.rbs, other, want), ""),
    }
}

// ------------------------------------------------------------------ the three plugins in a row
/// Default -> ProlongedSoundMark -> IgnoreYomigana on one buffer (the order of the shipped configuration): the text is the
/// composition of the three specified functions and nothing else changes.  Implementation-only check.
fn chain_dict(env: &mut Env, t: &Table, rng: &mut Rng) -> Option<(JapaneseDictionary, YomiCfg)> {
    let path = env.file("rewrite", &render_table(t, rng));
    let y = gen_yomi(rng, true);
    let cd = env.file("char", &y.chardef);
    let cfg = json!({
        "path": env.dir.to_string_lossy(), "characterDefinitionFile": cd,
        "inputTextPlugin": [
            {"class": "com.worksap.nlp.sudachi.DefaultInputTextPlugin", "rewriteDef": path},
            {"class": "com.worksap.nlp.sudachi.ProlongedSoundMarkPlugin", "prolongedSoundMarks": ["ー", "〜", "〰"], "replacementSymbol": "ー"},
            {"class": "com.worksap.nlp.sudachi.IgnoreYomiganaPlugin", "leftBrackets": ["(", "（"], "rightBrackets": [")", "）"], "maxYomiganaLength": 4}],
        "oovProviderPlugin": [{"class": "com.worksap.nlp.sudachi.SimpleOovPlugin",
            "oovPOS": ["名詞", "普通名詞", "一般", "*", "*", "*"], "leftId": 8, "rightId": 8, "cost": 6000}],
    });
    let cfg = ConfigBuilder::from_bytes(cfg.to_string().as_bytes()).unwrap().build();
    JapaneseDictionary::from_cfg_storage(&cfg, SudachiDicData::new(Storage::Owned(env.sys.clone()))).ok().map(|d| (d, y))
}

fn chain_case(sink: &mut Sink, d: &JapaneseDictionary, y: &YomiCfg, t: &Table, text: &str, verbose: bool) {
    let marks = vec!['ー', '〜', '〰'];
    let got = catch(|| {
        let mut buf = InputBuffer::from(text);
        for p in d.input_text_plugins() {
            p.rewrite(&mut buf).map_err(|e| format!("{:?}", e))?;
        }
        let cur = buf.current().to_string();
        // the offset map stays monotone and anchored through the three batches
        let offs: Vec<usize> = cur.char_indices().map(|(b, _)| buf.get_original_index(b)).chain(std::iter::once(buf.get_original_index(cur.len()))).collect();
        Ok::<_, String>((cur, offs))
    });
    let want = yomi_oracle(y, &psm_oracle(&marks, "ー", &spec_normalize(&t.pairs, &t.ign, text)));
    if verbose {
        println!("implementation: {:?}\nspecification : {:?}", got, want);
    }
    let id = sink.case_rust_only(json!({"kind": "chain", "text": text, "table": t.pairs, "exempt": t.ign.iter().map(|c| c.to_string()).collect::<Vec<_>>()}), want != text);
    sink.tag("chain_of_three_plugins");
    match got {
        Ok(Ok((cur, offs))) => {
            if cur != want {
                sink.fail(id, &format!("three plugins in a row on {:?} (table {:?}): implementation {:?}, composition of the specifications {:?}", text, t.pairs, cur, want), "");
            } else if offs.windows(2).any(|w| w[0] > w[1]) || offs.first() != Some(&0) || offs.last() != Some(&text.len()) {
                sink.fail(id, &format!("three plugins in a row on {:?}: offset map {:?} is not monotone from 0 to {}", text, offs, text.len()), "");
            }
        }
        other => sink.fail(id, &format!("three plugins in a row on {:?}: {:?}", text, other), ""),
    }
}

fn chain_stream(sink: &mut Sink, env: &mut Env, rng: &mut Rng, ncfg: usize, per: usize) {
    for _ in 0..ncfg {
        let t = gen_table(rng);
        let Some((d, y)) = chain_dict(env, &t, rng) else { continue };
        for _ in 0..per {
            let mut text = gen_text(rng, &t, false);
            for _ in 0..rng.below(4) {
                match rng.below(3) {
                    0 => text.push_str("徳（とク）"),
                    1 => text.push_str("ーー〜"),
                    _ => text.push_str("島(ｶﾞ)"),
                }
                text.push(*rng.pick(ALPHA));
            }
            chain_case(sink, &d, &y, &t, &text, false);
        }
    }
}

// ------------------------------------------------------------------ stacks with the same plugin class several times
/// A configuration may list one plugin class more than once (two ProlongedSoundMarkPlugin instances with different mark
/// sets, two DefaultInputTextPlugin instances with different tables, two IgnoreYomiganaPlugin instances with different
/// brackets): every listed instance is created, in order, and the text used for lookup is the composition of the
/// per-instance specifications in configured order (C07_plugin_stack_reaches speaks about ANY list of plugins).
/// Loaded through the configuration route (Config JSON -> from_cfg_storage), read behind the tokenizer.
enum PSpec {
    Def(Table),
    Psm(Vec<char>, String),
    Yomi(Vec<char>, Vec<char>, usize),
}

fn pspec_json(p: &PSpec) -> Value {
    match p {
        PSpec::Def(t) => json!({"plugin": "default", "table": t.pairs, "exempt": t.ign.iter().map(|c| c.to_string()).collect::<Vec<_>>()}),
        PSpec::Psm(m, s) => json!({"plugin": "psm", "marks": m.iter().map(|c| c.to_string()).collect::<Vec<_>>(), "symbol": s}),
        PSpec::Yomi(l, r, n) => json!({"plugin": "yomi", "lbs": l.iter().map(|c| c.to_string()).collect::<Vec<_>>(), "rbs": r.iter().map(|c| c.to_string()).collect::<Vec<_>>(), "maxlen": n}),
    }
}
fn pspec_from(v: &Value) -> PSpec {
    match v["plugin"].as_str().unwrap_or("") {
        "default" => PSpec::Def(Table {
            pairs: v["table"].as_array().map(|a| a.iter().map(|p| (p[0].as_str().unwrap().to_string(), p[1].as_str().unwrap().to_string())).collect()).unwrap_or_default(),
            ign: strs(&v["exempt"]),
        }),
        "psm" => PSpec::Psm(strs(&v["marks"]), v["symbol"].as_str().unwrap_or("ー").to_string()),
        _ => PSpec::Yomi(strs(&v["lbs"]), strs(&v["rbs"]), v["maxlen"].as_u64().unwrap_or(4) as usize),
    }
}

fn stack_case(sink: &mut Sink, env: &mut Env, rng: &mut Rng, stack: &[PSpec], texts: &[String], verbose: bool) {
    use sudachi::analysis::stateful_tokenizer::StatefulTokenizer;
    use sudachi::prelude::Mode;
    let y0 = gen_yomi(&mut Rng::new(1), true); // the natural char.def: kanji / hiragana / katakana
    let cd = env.file("char", &y0.chardef);
    let mut plugins = vec![];
    for p in stack {
        plugins.push(match p {
            PSpec::Def(t) => {
                let path = env.file("rewrite", &render_table(t, rng));
                json!({"class": "com.worksap.nlp.sudachi.DefaultInputTextPlugin", "rewriteDef": path})
            }
            PSpec::Psm(m, s) => json!({"class": "com.worksap.nlp.sudachi.ProlongedSoundMarkPlugin",
                "prolongedSoundMarks": m.iter().map(|c| c.to_string()).collect::<Vec<_>>(), "replacementSymbol": s}),
            PSpec::Yomi(l, r, n) => json!({"class": "com.worksap.nlp.sudachi.IgnoreYomiganaPlugin",
                "leftBrackets": l.iter().map(|c| c.to_string()).collect::<Vec<_>>(), "rightBrackets": r.iter().map(|c| c.to_string()).collect::<Vec<_>>(), "maxYomiganaLength": n}),
        });
    }
    let cfg = json!({
        "path": env.dir.to_string_lossy(), "characterDefinitionFile": cd, "inputTextPlugin": plugins,
        "oovProviderPlugin": [{"class": "com.worksap.nlp.sudachi.SimpleOovPlugin",
            "oovPOS": ["名詞", "普通名詞", "一般", "*", "*", "*"], "leftId": 8, "rightId": 8, "cost": 6000}],
    });
    let sdesc: Vec<Value> = stack.iter().map(pspec_json).collect();
    let cfgb = ConfigBuilder::from_bytes(cfg.to_string().as_bytes()).unwrap().build();
    let d = match catch(|| JapaneseDictionary::from_cfg_storage(&cfgb, SudachiDicData::new(Storage::Owned(env.sys.clone())))) {
        Ok(Ok(d)) => d,
        other => {
            let id = sink.case_rust_only(json!({"kind": "stack", "stack": sdesc, "text": ""}), false);
            sink.fail(id, &format!("plugin stack {:?} did not load: {:?}", sdesc, other.map(|r| r.map(|_| ()).map_err(|e| format!("{:?}", e)))), "");
            return;
        }
    };
    let classes: Vec<&str> = stack.iter().map(|p| match p { PSpec::Def(_) => "default", PSpec::Psm(..) => "psm", PSpec::Yomi(..) => "yomi" }).collect();
    let repeated = classes.iter().enumerate().any(|(i, c)| classes[..i].contains(c));
    // every configured instance exists
    {
        let n = d.input_text_plugins().len();
        let id = sink.case_rust_only(json!({"kind": "stack", "stack": sdesc, "text": "", "instances": n}), repeated);
        sink.tag("stack_instances");
        if n != stack.len() {
            sink.fail(id, &format!("configuration lists {} input text plugins {:?}, the dictionary holds {}", stack.len(), classes, n), "");
        }
    }
    let spec = |text: &str| -> String {
        let mut cur = text.to_string();
        for p in stack {
            cur = match p {
                PSpec::Def(t) => spec_normalize(&t.pairs, &t.ign, &cur),
                PSpec::Psm(m, s) => psm_oracle(m, s, &cur),
                PSpec::Yomi(l, r, n) => {
                    let y = YomiCfg { kanji: y0.kanji.clone(), reading: y0.reading.clone(), lbs: l.clone(), rbs: r.clone(), maxlen: *n, chardef: String::new(), chardef_file: None };
                    yomi_oracle(&y, &cur)
                }
            };
        }
        cur
    };
    let mut tok = StatefulTokenizer::create(&d, false, Mode::C);
    for text in texts {
        let want = spec(text);
        let got = catch(|| {
            tok.reset().push_str(text);
            tok.do_tokenize().map_err(|e| format!("{:?}", e))?;
            Ok::<_, String>(tok.verif_input().current().to_string())
        });
        // an empty normalised text is not analysed further; the buffer still holds it
        let id = sink.case_rust_only(json!({"kind": "stack", "stack": sdesc, "text": text}), repeated && want != *text);
        sink.tag(if repeated { "stack_with_repeated_class" } else { "stack_distinct_classes" });
        if verbose {
            println!("stack {:?}\ntext {:?}\n  behind the tokenizer: {:?}\n  composition of the specifications: {:?}", sdesc, text, got, want);
        }
        match got {
            Ok(Ok(cur)) if cur == want => {}
            other => {
                sink.fail(id, &format!("plugin stack {:?} (classes {:?}) on {:?}: text used for lookup {:?}, composition of the per-instance specifications in configured order {:?}", sdesc, classes, text, other, want), "");
                if !matches!(other, Ok(Ok(_))) {
                    tok = StatefulTokenizer::create(&d, false, Mode::C);
                }
            }
        }
    }
}

fn gen_pspec(rng: &mut Rng, class: u64) -> PSpec {
    match class {
        0 => PSpec::Def(gen_table(rng)),
        1 => {
            let mut m: Vec<char> = vec![];
            for _ in 0..1 + rng.below(3) {
                let c = *rng.pick(&['ー', '〜', '〰', '!', '！', 'w', '-', '.']);
                if !m.contains(&c) {
                    m.push(c);
                }
            }
            let s = match rng.below(4) { 0 => "ー".to_string(), 1 => "!".to_string(), 2 => "==".to_string(), _ => m[0].to_string() };
            PSpec::Psm(m, s)
        }
        _ => {
            let (l, r) = *rng.pick(&[('(', ')'), ('（', '）'), ('[', ']'), ('《', '》')]);
            PSpec::Yomi(vec![l], vec![r], 1 + rng.below(4) as usize)
        }
    }
}

fn stack_stream(sink: &mut Sink, env: &mut Env, rng: &mut Rng, n: usize) {
    let tb = |pairs: &[(&str, &str)], ign: &[char]| Table { pairs: pairs.iter().map(|(k, v)| (k.to_string(), v.to_string())).collect(), ign: ign.to_vec() };
    let st = |v: &[&str]| v.iter().map(|x| x.to_string()).collect::<Vec<String>>();
    // directed first: the same class twice, so that detection does not depend on the seed
    let directed: Vec<(Vec<PSpec>, Vec<String>)> = vec![
        (vec![PSpec::Psm(vec!['ー', '〜'], "ー".into()), PSpec::Psm(vec!['!', '！'], "!".into())], st(&["うまい!!!", "すごーーい！！!", "ゴーール", "a!b"])),
        (vec![PSpec::Psm(vec!['!'], "!".into()), PSpec::Psm(vec!['ー'], "ー".into()), PSpec::Psm(vec!['w'], "w".into())], st(&["うまい!!!ーーwww", "www"])),
        (vec![PSpec::Def(tb(&[("a", "x")], &[])), PSpec::Def(tb(&[("x", "yy"), ("b", "c")], &[]))], st(&["ab", "Ａb", "xa", "ba"])),
        (vec![PSpec::Def(tb(&[], &['Ⅲ'])), PSpec::Def(tb(&[], &[]))], st(&["Ⅲ", "ⅢＡ"])),
        (vec![PSpec::Yomi(vec!['('], vec![')'], 4), PSpec::Yomi(vec!['（'], vec!['）'], 4)], st(&["徳島(とく)に行（い）く", "徳（と）島(しま)", "行（い）く"])),
        (vec![PSpec::Psm(vec!['ー'], "ー".into()), PSpec::Def(tb(&[("ー", "-")], &[])), PSpec::Psm(vec!['-'], "=".into())], st(&["ゴーール", "ー-", "ーー--"])),
    ];
    for (stack, texts) in &directed {
        stack_case(sink, env, rng, stack, texts, false);
    }
    for _ in 0..n {
        let len = 2 + rng.below(3) as usize;
        let mut stack: Vec<PSpec> = (0..len).map(|_| { let c = rng.below(3); gen_pspec(rng, c) }).collect();
        if rng.chance(2, 3) {
            // make sure one class occurs at least twice
            let c = rng.below(3);
            stack[0] = gen_pspec(rng, c);
            let last = stack.len() - 1;
            stack[last] = gen_pspec(rng, c);
        }
        let mut texts: Vec<String> = vec![];
        for _ in 0..5 {
            let mut t = String::new();
            for _ in 0..1 + rng.below(5) {
                match rng.below(7) {
                    0 => t.push_str("徳（とク）"),
                    1 => t.push_str("島(ｶﾞ)"),
                    2 => t.push_str("行[い]"),
                    3 => { for _ in 0..2 + rng.below(3) { t.push(*rng.pick(&['ー', '〜', '!', '！', 'w', '-', '.'])); } }
                    4 => { if let Some(PSpec::Def(tbl)) = stack.iter().find(|p| matches!(p, PSpec::Def(_))) { t.push_str(&gen_text(rng, tbl, false)); } }
                    _ => t.push(*rng.pick(ALPHA)),
                }
            }
            texts.push(t);
        }
        stack_case(sink, env, rng, &stack, &texts, false);
    }
}

// ------------------------------------------------------------------ sessions: reused buffers
/// "a pure function of the input and the rewrite table": the same objects are used for a sequence of inputs, the way
/// sudachi-cli / the Python binding / one StatefulTokenizer + one MorphemeList do it.  Every step is compared with the
/// specification, with the Coq model, and with what a fresh buffer gives for the same text.
///   mode "buffer":    one InputBuffer: reset -> start_build -> plugin rewrite -> build
///   mode "tokenizer": one StatefulTokenizer and one MorphemeList: reset -> do_tokenize -> collect_results
///                     (collect_results swaps the two input buffers, so call N works in the buffer of call N-2)
fn run_session(d: &JapaneseDictionary, mode: &str, seq: &[String]) -> Vec<Result<(String, Vec<usize>), String>> {
    use sudachi::analysis::stateful_tokenizer::StatefulTokenizer;
    use sudachi::prelude::{Mode, MorphemeList};
    let read = |buf: &InputBuffer| {
        let cur = buf.current().to_string();
        let mut offs: Vec<usize> = cur.char_indices().map(|(b, _)| buf.get_original_index(b)).collect();
        offs.push(buf.get_original_index(cur.len()));
        (cur, offs)
    };
    let mut out = vec![];
    if mode == "buffer" {
        let mut buf = InputBuffer::new();
        for text in seq {
            let r = catch(|| {
                buf.reset().push_str(text);
                buf.start_build().map_err(|e| format!("error: {:?}", e))?;
                for p in d.input_text_plugins() {
                    p.rewrite(&mut buf).map_err(|e| format!("error: {:?}", e))?;
                }
                buf.build(d.grammar()).map_err(|e| format!("error: {:?}", e))?;
                Ok(read(&buf))
            });
            match r {
                Ok(x) => out.push(x),
                Err(p) => {
                    out.push(Err(format!("panic: {}", p)));
                    buf = InputBuffer::new(); // the object may be left in any state by a panic
                }
            }
        }
    } else {
        let mut tok = StatefulTokenizer::create(d, false, Mode::C);
        let mut list = MorphemeList::empty(d);
        for text in seq {
            let r = catch(|| {
                tok.reset().push_str(text);
                tok.do_tokenize().map_err(|e| format!("error: {:?}", e))?;
                let x = read(tok.verif_input());
                list.collect_results(&mut tok).map_err(|e| format!("error: {:?}", e))?;
                Ok(x)
            });
            match r {
                Ok(x) => out.push(x),
                Err(p) => {
                    out.push(Err(format!("panic: {}", p)));
                    tok = StatefulTokenizer::create(d, false, Mode::C);
                    list = MorphemeList::empty(d);
                }
            }
        }
    }
    out
}

/// start_build rejects originals longer than MAX_LENGTH = u16::MAX / 4 * 3 bytes, commit rejects a rewritten text longer
/// than REALLY_MAX_LENGTH = u16::MAX bytes (buffer/mod.rs); such a step must answer InputTooLong and leave no trace
const MAX_LENGTH: usize = 49149;
const REALLY_MAX_LENGTH: usize = 65535;

/// run-length form of long texts (descriptions of sessions with 49 KB inputs stay small)
fn compact(text: &str) -> Value {
    if text.len() < 300 {
        return json!(text);
    }
    let mut runs: Vec<(char, u64)> = vec![];
    for c in text.chars() {
        match runs.last_mut() {
            Some((d, n)) if *d == c => *n += 1,
            _ => runs.push((c, 1)),
        }
    }
    json!({"rle": runs.iter().map(|(c, n)| json!([c.to_string(), n])).collect::<Vec<_>>()})
}
fn expand(v: &Value) -> String {
    match v.as_str() {
        Some(s) => s.to_string(),
        None => v["rle"].as_array().map(|a| a.iter().map(|p| p[0].as_str().unwrap_or("").repeat(p[1].as_u64().unwrap_or(0) as usize)).collect::<String>()).unwrap_or_default(),
    }
}
fn short(text: &str) -> String {
    if text.len() < 300 {
        format!("{:?}", text)
    } else {
        format!("<{} bytes: {}>", text.len(), compact(text))
    }
}

fn session_cases(sink: &mut Sink, d: &JapaneseDictionary, t: &Table, mode: &str, seq: &[String], verbose: bool) {
    let rs = run_session(d, mode, seq);
    let texts_desc: Vec<Value> = seq.iter().map(|x| compact(x)).collect();
    for (step, (text, r)) in seq.iter().zip(rs.iter()).enumerate() {
        let fresh = run_plugin(d, text);
        let want = spec_normalize(&t.pairs, &t.ign, text);
        let too_long = text.len() > MAX_LENGTH || want.len() > REALLY_MAX_LENGTH;
        let reused_after = if mode == "buffer" { 1 } else { 2 };
        let after_rejected = step >= reused_after && {
            let prev = &seq[step - reused_after];
            prev.len() > MAX_LENGTH || spec_normalize(&t.pairs, &t.ign, prev).len() > REALLY_MAX_LENGTH
        };
        let seen: Vec<String> = seq[..step].iter().map(|x| short(x)).collect();
        let desc = json!({"kind": "session", "mode": mode, "texts": texts_desc, "step": step, "text": compact(text), "table": t.pairs,
            "exempt": t.ign.iter().map(|c| c.to_string()).collect::<Vec<_>>()});
        sink.tag(&format!("session_{}_step", mode));
        if verbose {
            println!("step {} text {}\n  reused objects: {}\n  fresh buffer  : {}\n  specification : {}", step, short(text),
                short(&format!("{:?}", r)), short(&format!("{:?}", fresh)), short(&want));
        }
        if too_long {
            // no model term for a 49 KB text: the step must be answered InputTooLong (no panic), by the reused objects and by a fresh buffer
            sink.tag(if text.len() > MAX_LENGTH { "session_text_rejected_by_start_build" } else { "session_text_rejected_by_commit" });
            let id = sink.case_rust_only(desc, true);
            match r {
                Err(e) if e.contains("InputTooLong") && !e.starts_with("panic") && fresh.is_err() => {}
                other => sink.fail(id, &format!("{} session, input #{} {} ({} bytes, specified normalisation {} bytes) after {:?}: expected InputTooLong, reused objects give {}, a fresh buffer {}",
                    mode, step + 1, short(text), text.len(), want.len(), seen, short(&format!("{:?}", other)), short(&format!("{:?}", fresh))), ""),
            }
            continue;
        }
        let (o, offs) = cout(r);
        let term = format!(
            "check_default {} {} {} {} {} {} {}",
            oracle_term(text),
            table_term(t),
            clist(t.ign.iter().map(|c| cn(*c as u32))),
            ctext(text),
            cbool(qc_text(text)),
            o,
            offs
        );
        let dirty = !is_plain(text);
        // non-trivial: a text that needs the general path, worked on in a buffer that held an earlier text
        let nontrivial = (dirty || after_rejected) && step >= reused_after;
        if nontrivial {
            sink.tag("session_dirty_text_in_reused_buffer");
            if step >= reused_after && is_plain(&seq[step - reused_after]) && !seq[step - reused_after].is_empty() {
                sink.tag("session_dirty_text_after_clean_text_in_same_buffer");
            }
        }
        if after_rejected {
            sink.tag("session_text_in_buffer_of_a_rejected_text");
        }
        let id = sink.case(term, desc, nontrivial);
        match r {
            Ok((cur, _)) if *cur != want => sink.fail(id, &format!("{} session, input #{} {:?} after {:?} (table {:?} exempt {:?}): text used for lookup is {}, specified normalisation is {:?}; a fresh buffer gives {:?}",
                mode, step + 1, text, seen, t.pairs, t.ign, short(cur), want, fresh.as_ref().map(|x| &x.0)), ""),
            Ok(_) if *r != fresh => sink.fail(id, &format!("{} session, input #{} {:?} after {:?}: reused objects give {:?}, a fresh buffer gives {:?}", mode, step + 1, text, seen, r, fresh), ""),
            Err(e) => sink.fail(id, &format!("{} session, input #{} {:?} after {:?}: {}", mode, step + 1, text, seen, short(e)), ""),
            _ => {}
        }
    }
}

/// a text that start_build accepts but whose normalisation is too long for commit (many characters with a long NFKC /
/// table expansion), or one that start_build itself rejects
fn gen_long_text(rng: &mut Rng, t: &Table) -> Option<String> {
    if rng.chance(1, 4) {
        let n = MAX_LENGTH / 3 + 1 + rng.below(40) as usize;
        return Some("京".repeat(n));
    }
    let mut cands: Vec<(String, usize)> = vec![];
    for u in ['\u{FDFA}', '\u{3316}', '\u{337F}', '\u{FDFB}', '\u{33A2}', '㈱', '\u{2A74}'] {
        let s = u.to_string();
        let out = spec_normalize(&t.pairs, &t.ign, &s.repeat(3)).len() / 3;
        if out * (MAX_LENGTH / s.len()) > REALLY_MAX_LENGTH + 200 {
            cands.push((s, out));
        }
    }
    // keys with long values expand as well
    for (k, v) in &t.pairs {
        let out = spec_normalize(&t.pairs, &t.ign, &k.repeat(3)).len() / 3;
        if !k.is_empty() && out * (MAX_LENGTH / k.len()) > REALLY_MAX_LENGTH + 200 && k.chars().count() == 1 {
            cands.push((k.clone(), out));
        }
        let _ = v;
    }
    if cands.is_empty() {
        return None;
    }
    let (unit, out) = rng.pick(&cands).clone();
    let lo = REALLY_MAX_LENGTH / out + 2;
    let hi = (MAX_LENGTH - 64) / unit.len();
    if lo >= hi {
        return None;
    }
    let n = lo + rng.below((hi - lo) as u64) as usize;
    let mut s = String::new();
    if rng.chance(1, 2) {
        s.push_str(&"x".repeat(rng.below(20) as usize));
    }
    s.push_str(&unit.repeat(n));
    if rng.chance(1, 2) {
        s.push_str(&"京".repeat(rng.below(20) as usize));
    }
    let want = spec_normalize(&t.pairs, &t.ign, &s);
    if s.len() <= MAX_LENGTH && want.len() > REALLY_MAX_LENGTH {
        Some(s)
    } else {
        None
    }
}

fn gen_session(rng: &mut Rng, t: &Table, with_long: bool) -> Vec<String> {
    let n = 3 + rng.below(6) as usize;
    let mut v: Vec<String> = (0..n)
        .map(|_| {
            let plain = rng.chance(1, 2);
            gen_text(rng, t, plain)
        })
        .collect();
    if with_long {
        // somewhere in the sequence, followed by at least two ordinary texts (the tokenizer alternates two buffers)
        if let Some(long) = gen_long_text(rng, t) {
            let pos = rng.below((v.len() - 2) as u64 + 1) as usize;
            v.insert(pos, long);
            if rng.chance(1, 3) {
                if let Some(long2) = gen_long_text(rng, t) {
                    v.insert(pos + 1, long2);
                }
            }
        }
    }
    v
}

fn session_stream(sink: &mut Sink, env: &mut Env, rng: &mut Rng, ntables: usize) {
    for i in 0..ntables {
        // the first sessions use the shipped test table and inputs of the kind users type
        let (t, path) = if i == 0 {
            (Table { pairs: vec![("ｶﾞ".into(), "ガ".into()), ("か\u{3099}".into(), "が".into())], ign: vec!['Ⅲ'] }, None)
        } else {
            (gen_table(rng), None::<String>)
        };
        let path = path.unwrap_or_else(|| env.file("rewrite", &render_table(&t, rng)));
        let Ok(d) = env.dict(&env.chardef.clone(), json!({"class": "com.worksap.nlp.sudachi.DefaultInputTextPlugin", "rewriteDef": path})) else { continue };
        for mode in ["buffer", "tokenizer"] {
            let seq: Vec<String> = if i == 0 {
                ["東京都", "京都", "ｱｲｳ", "ＡＢＣ", "abc", "ｶﾞｷﾞ", "に行く", "Ⅲ"].iter().map(|x| x.to_string()).collect()
            } else {
                gen_session(rng, &t, i % 2 == 1)
            };
            session_cases(sink, &d, &t, mode, &seq, false);
        }
    }
}

// ------------------------------------------------------------------ rewrite.def as TEXT
/// Independent statement of the file format (doc comment of read_rewrite_lists): a line is trimmed; empty lines and
/// lines whose first character is '#' are skipped; the rest is split on white space: one column = one exempt
/// character, two columns = a rule (whatever the strings are), anything else is an error; a key defined twice is an
/// error.  Err = (kind, line): 1 "is not character", 2 "already defined", 3 wrong number of columns.
fn parse_rewrite_def(text: &str) -> Result<Table, (u32, usize)> {
    let mut t = Table { pairs: vec![], ign: vec![] };
    let mut lines: Vec<&str> = text.split('\n').collect();
    if lines.last() == Some(&"") {
        lines.pop();
    }
    for (i, line) in lines.iter().enumerate() {
        let line = line.trim();
        if line.is_empty() || line.starts_with('#') {
            continue;
        }
        let cols: Vec<&str> = line.split_whitespace().collect();
        match cols.len() {
            1 => {
                let mut it = cols[0].chars();
                match (it.next(), it.next()) {
                    (Some(c), None) => t.ign.push(c),
                    _ => return Err((1, i)),
                }
            }
            2 => {
                if t.pairs.iter().any(|(k, _)| k == cols[0]) {
                    return Err((2, i));
                }
                t.pairs.push((cols[0].to_string(), cols[1].to_string()));
            }
            _ => return Err((3, i)),
        }
    }
    Ok(t)
}

/// what the loader answered: Ok, or (kind, line) of InvalidDataFormat(line, message)
fn load_status(r: &Result<JapaneseDictionary, String>) -> Result<(), (u32, usize, String)> {
    match r {
        Ok(_) => Ok(()),
        Err(e) => {
            if let Some(p) = e.find("InvalidDataFormat(") {
                let rest = &e[p + "InvalidDataFormat(".len()..];
                let num: String = rest.chars().take_while(|c| c.is_ascii_digit()).collect();
                let kind = if rest.contains("is not character") { 1 } else if rest.contains("is already defined") { 2 } else { 3 };
                if let Ok(n) = num.parse::<usize>() {
                    return Err((kind, n, e.clone()));
                }
            }
            Err((0, 0, e.clone()))
        }
    }
}

const DEF_CHARS: &[char] = &['a', 'b', 'c', 'x', 'A', 'Ａ', 'ｶ', 'ﾞ', 'か', '♯', '№', '#', '#', '＃', 'Ⅲ', '徳', '\u{1F600}', '㈱', '\\', '"', ',', ';', '=', '-'];
const DEF_SEPS: &[&str] = &[" ", "\t", "  ", " \t ", "\u{3000}", "\u{A0}", "\u{2003}", "\t\t"];

fn def_token(rng: &mut Rng, max: usize) -> String {
    let n = 1 + rng.below(max as u64) as usize;
    (0..n).map(|_| *rng.pick(DEF_CHARS)).collect()
}

/// the text of a rewrite.def, line by line: comments (also indented, also "#" followed by columns), blank and
/// white-space-only lines, exempt characters, rules with every kind of separator, keys and values that contain or start
/// with '#', and - rarely, so that most files load - one-column lines of several characters, lines of three or four
/// columns (among them "rule # trailing words"), repeated keys; LF / CR LF, with or without a final line end
fn gen_def_text(rng: &mut Rng) -> String {
    let nlines = rng.below(9) as usize;
    let crlf = rng.chance(1, 4);
    let mut keys: Vec<String> = vec![];
    let mut out = String::new();
    for li in 0..nlines {
        let mut line = String::new();
        if rng.chance(1, 4) {
            line.push_str(*rng.pick(DEF_SEPS));
        }
        match rng.below(20) {
            0 | 1 => line.push_str(&format!("#{}", if rng.chance(1, 2) { format!(" {} {}", def_token(rng, 3), def_token(rng, 3)) } else { def_token(rng, 3) })),
            2 => {}
            3 | 4 | 5 => line.push(*rng.pick(DEF_CHARS)),
            6 => line.push_str(&def_token(rng, 3)), // usually several characters in one column
            7 => {
                // three or four columns; often the last ones look like a trailing comment
                line.push_str(&format!("{}{}{}{}", def_token(rng, 2), rng.pick(DEF_SEPS), def_token(rng, 2), rng.pick(DEF_SEPS)));
                if rng.chance(1, 2) {
                    line.push_str(&format!("# {}", def_token(rng, 2)));
                } else {
                    line.push_str(&def_token(rng, 2));
                }
            }
            8 if !keys.is_empty() => {
                let k = rng.pick(&keys).clone();
                line.push_str(&format!("{}{}{}", k, rng.pick(DEF_SEPS), def_token(rng, 2)));
            }
            _ => {
                let k = def_token(rng, 3);
                // values that start with '#', are "#", contain '#'
                let v = match rng.below(10) {
                    0 => "#".to_string(),
                    1 => format!("#{}", def_token(rng, 2)),
                    2 => format!("{}#", def_token(rng, 2)),
                    // identity rule, value containing the key, value that is the key of an earlier rule
                    3 | 4 => k.clone(),
                    5 => format!("{}{}", k, def_token(rng, 2)),
                    6 if !keys.is_empty() => rng.pick(&keys).clone(),
                    _ => def_token(rng, 3),
                };
                // rules whose key extends the key of an earlier rule / is extended by it
                let k = if !keys.is_empty() && rng.chance(1, 4) { format!("{}{}", rng.pick(&keys), k) } else { k };
                let v = if v.is_empty() { k.clone() } else { v };
                line.push_str(&format!("{}{}{}", k, rng.pick(DEF_SEPS), v));
                keys.push(k);
            }
        }
        if rng.chance(1, 5) {
            line.push_str(*rng.pick(DEF_SEPS));
        }
        out.push_str(&line);
        if li + 1 < nlines || rng.chance(3, 4) {
            out.push_str(if crlf { "\r\n" } else { "\n" });
        }
    }
    out
}

fn deftext_case(sink: &mut Sink, env: &mut Env, rng: &mut Rng, def: &str, texts: Option<Vec<String>>, verbose: bool) {
    let path = env.file("rewrite", def);
    let loaded = env.dict(&env.chardef.clone(), json!({"class": "com.worksap.nlp.sudachi.DefaultInputTextPlugin", "rewriteDef": path}));
    let got = load_status(&loaded);
    let want = parse_rewrite_def(def);
    let (st, ln) = match &got {
        Ok(()) => (0u32, 0usize),
        Err((k, n, _)) => (*k, *n),
    };
    let term = format!("check_rewrite_load {} {} {}", ctext(def), cn(st), cnu(ln));
    let has_hash_col = def.lines().any(|l| {
        let l = l.trim();
        !l.starts_with('#') && l.split_whitespace().skip(1).any(|c| c.starts_with('#'))
    });
    sink.tag(match &want {
        Ok(_) => "rewrite_def_text_accepted",
        Err((1, _)) => "rewrite_def_text_rejected_not_character",
        Err((2, _)) => "rewrite_def_text_rejected_duplicate_key",
        Err(_) => "rewrite_def_text_rejected_columns",
    });
    if has_hash_col {
        sink.tag("rewrite_def_text_with_column_starting_with_hash");
    }
    let id = sink.case(term, json!({"kind": "deftext", "rewrite_def": def}), true);
    if verbose {
        println!("rewrite.def text:\n{}\n---\nloader: {:?}\nformat: {:?}", def, got, want.as_ref().map(|t| (&t.pairs, &t.ign)));
    }
    let same = match (&got, &want) {
        (Ok(()), Ok(_)) => true,
        (Err((k, n, _)), Err((k2, n2))) => k == k2 && n == n2,
        _ => false,
    };
    if !same {
        sink.fail(id, &format!("rewrite.def text {:?}: loader answers {:?}, the file format says {:?}", def, got,
            want.as_ref().map(|t| format!("table {:?} exempt {:?}", t.pairs, t.ign)).map_err(|e| format!("error kind {} in line {}", e.0, e.1))), "");
    }
    let (Ok(d), Ok(t)) = (&loaded, &want) else { return };
    let texts = texts.unwrap_or_else(|| {
        let mut v: Vec<String> = (0..4).map(|k| gen_text(rng, t, k == 0)).collect();
        // every key and every exempt character once on its own and once between neighbours
        for (k, _) in &t.pairs {
            v.push(k.clone());
            v.push(format!("Ａ{}b", k));
        }
        for c in &t.ign {
            v.push(format!("a{}", c));
        }
        v
    });
    for text in texts {
        let r = run_plugin(d, &text);
        let spec = spec_normalize(&t.pairs, &t.ign, &text);
        let (o, offs) = cout(&r);
        let term = format!("check_default_text {} {} {} {} {} {}", oracle_term(&text), ctext(def), ctext(&text), cbool(qc_text(&text)), o, offs);
        sink.tag("rewrite_def_text_normalisation");
        let id = sink.case(term, json!({"kind": "deftext", "rewrite_def": def, "text": text}), t.pairs.iter().any(|(k, _)| text.contains(k.as_str())));
        if verbose {
            println!("text {:?}: implementation {:?}, specification {:?}", text, r, spec);
        }
        match &r {
            Ok((cur, _)) if *cur == spec => {}
            other => sink.fail(id, &format!("rewrite.def text {:?} (table {:?} exempt {:?}), text {:?}: implementation {:?}, specified normalisation {:?}", def, t.pairs, t.ign, text, other.as_ref().map(|x| &x.0), spec), ""),
        }
    }
}

fn deftext_stream(sink: &mut Sink, env: &mut Env, rng: &mut Rng, n: usize) {
    // char::is_whitespace of std = the White_Space set the reader model uses
    let ws: Vec<u32> = (0..=0x10FFFFu32).filter(|c| char::from_u32(*c).map_or(false, |ch| ch.is_whitespace())).collect();
    sink.case(format!("check_white_space {}", clist(ws.iter().map(|c| cn(*c)))), json!({"kind": "white-space-set"}), true);
    for d in ["# c\r\n\r\n Ⅲ \r\n♯\t#\r\na#b   x\r\n", "♯ #\n№ #no.\n＃\t#\n", "a x # comment\n", "ab # x\n", " #a b\n\t# c\nx\u{3000}y", "a x\n\na y\n",
        "ＮＨＫ ＮＨＫ\n", "ｱ ア\nｱｲ\tｱｲ\n", "ab x\nabc abc\n", "a b\nb c\n", "a aa\naa a\n"] {
        deftext_case(sink, env, rng, d, None, false);
    }
    for _ in 0..n {
        let def = gen_def_text(rng);
        deftext_case(sink, env, rng, &def, None, false);
    }
}

// ------------------------------------------------------------------ malformed stream
/// table_wf (distinct, non-empty keys) is what read_rewrite_lists guarantees: tables violating it must be rejected
fn malformed(sink: &mut Sink, env: &mut Env) {
    let bads = ["a x\na y\n", "ab x\nc d\nab x\n", "a b c\n", "ab\n", "a\tx\ty\n", "Ⅲ\nａｂ\n"];
    let mut rejected = 0u64;
    for b in bads {
        let path = env.file("rewrite", b);
        match env.dict(&env.chardef.clone(), json!({"class": "com.worksap.nlp.sudachi.DefaultInputTextPlugin", "rewriteDef": path})) {
            Err(e) if !e.starts_with("panic") => rejected += 1,
            other => {
                let id = sink.case_rust_only(json!({"kind": "default-malformed", "rewrite_def": b}), false);
                sink.fail(id, &format!("malformed rewrite.def {:?} was not rejected: {:?}", b, other.err()), "");
            }
        }
    }
    sink.tag_n("malformed_table_rejected", rejected);
}

// ------------------------------------------------------------------ entry
fn strs(v: &Value) -> Vec<char> {
    v.as_array().map(|a| a.iter().filter_map(|x| x.as_str().and_then(|s| s.chars().next())).collect()).unwrap_or_default()
}

fn replay(sink: &mut Sink, env: &mut Env, case: &Value) {
    let text = expand(&case["text"]);
    match case["kind"].as_str().unwrap_or("") {
        "default" => {
            let t = Table {
                pairs: case["table"].as_array().map(|a| a.iter().map(|p| (p[0].as_str().unwrap().to_string(), p[1].as_str().unwrap().to_string())).collect()).unwrap_or_default(),
                ign: strs(&case["exempt"]),
            };
            let mut rng = Rng::new(1);
            let body = render_table(&t, &mut rng);
            println!("rewrite.def:\n{}text: {:?}", body, text);
            let path = env.file("rewrite", &body);
            let d = env.dict(&env.chardef.clone(), json!({"class": "com.worksap.nlp.sudachi.DefaultInputTextPlugin", "rewriteDef": path})).unwrap();
            if case["context"].as_bool().unwrap_or(false) {
                for s in [text.clone(), format!("{}\u{A0}Ａ", text), format!("Ａ\u{A0}{}", text)] {
                    println!("{:?} -> {:?}", s, run_plugin(&d, &s).map(|x| x.0));
                }
                context_case(sink, &d, &t, &text);
            } else {
                default_case(sink, env, &d, &t, &text, true, "");
            }
        }
        "psm" => {
            let marks = strs(&case["marks"]);
            let sym = case["symbol"].as_str().unwrap_or("ー").to_string();
            let d = env.dict(&env.chardef.clone(), json!({"class": "com.worksap.nlp.sudachi.ProlongedSoundMarkPlugin",
                "prolongedSoundMarks": marks.iter().map(|c| c.to_string()).collect::<Vec<_>>(), "replacementSymbol": sym})).unwrap();
            println!("marks {:?} symbol {:?} text {:?}", marks, sym, text);
            psm_case(sink, &d, &marks, &sym, &text, true);
        }
        "yomi" => {
            let file = case["chardef_file"].as_str().map(|x| x.to_string());
            let chardef = case["chardef"].as_str().unwrap_or("").to_string();
            let body = match &file {
                Some(f) => std::fs::read_to_string(format!("{}/{}", repo(), f)).unwrap(),
                None => chardef.clone(),
            };
            let (kanji, reading) = chardef_classes(&body);
            let y = YomiCfg { kanji, reading, lbs: strs(&case["lbs"]), rbs: strs(&case["rbs"]),
                maxlen: case["maxlen"].as_u64().unwrap_or(4) as usize, chardef, chardef_file: file };
            let d = yomi_dict(env, &y).unwrap();
            println!("char.def: {}\nbrackets {:?}/{:?} max {} text {:?}", y.chardef_file.clone().unwrap_or(y.chardef.clone()), y.lbs, y.rbs, y.maxlen, text);
            yomi_case(sink, &d, &y, &text, true);
        }
        "session" => {
            let t = Table {
                pairs: case["table"].as_array().map(|a| a.iter().map(|p| (p[0].as_str().unwrap().to_string(), p[1].as_str().unwrap().to_string())).collect()).unwrap_or_default(),
                ign: strs(&case["exempt"]),
            };
            let seq: Vec<String> = case["texts"].as_array().map(|a| a.iter().map(expand).collect()).unwrap_or_default();
            let mode = case["mode"].as_str().unwrap_or("tokenizer").to_string();
            let mut rng = Rng::new(1);
            let body = render_table(&t, &mut rng);
            println!("rewrite.def:\n{}session mode {:?}, inputs {:?}", body, mode, seq.iter().map(|x| short(x)).collect::<Vec<_>>());
            let path = env.file("rewrite", &body);
            let d = env.dict(&env.chardef.clone(), json!({"class": "com.worksap.nlp.sudachi.DefaultInputTextPlugin", "rewriteDef": path})).unwrap();
            session_cases(sink, &d, &t, &mode, &seq, true);
        }
        "deftext" => {
            let def = case["rewrite_def"].as_str().unwrap_or("").to_string();
            let texts = case["text"].as_str().map(|x| vec![x.to_string()]);
            let mut rng = Rng::new(1);
            deftext_case(sink, env, &mut rng, &def, texts, true);
        }
        "stack" => {
            let stack: Vec<PSpec> = case["stack"].as_array().map(|a| a.iter().map(pspec_from).collect()).unwrap_or_default();
            let mut rng = Rng::new(1);
            stack_case(sink, env, &mut rng, &stack, &[text.clone()], true);
        }
        "chain" => {
            let t = Table {
                pairs: case["table"].as_array().map(|a| a.iter().map(|p| (p[0].as_str().unwrap().to_string(), p[1].as_str().unwrap().to_string())).collect()).unwrap_or_default(),
                ign: strs(&case["exempt"]),
            };
            let mut rng = Rng::new(1);
            let (d, y) = chain_dict(env, &t, &mut rng).unwrap();
            println!("table {:?} exempt {:?} text {:?}", t.pairs, t.ign, text);
            chain_case(sink, &d, &y, &t, &text, true);
        }
        "sweep" => sweep_shipped(sink, env, 1),
        "law-sweep" => law_sweep(sink),
        k => println!("cannot replay case kind {:?}", k),
    }
}

fn directed(sink: &mut Sink, env: &mut Env, rng: &mut Rng) {
    // corpus first: the reproduced defect (key that is a prefix of another key, general path) and friends
    let tables: Vec<(Vec<(&str, &str)>, Vec<char>, Vec<&str>)> = vec![
        (vec![("a", "x"), ("ab", "y")], vec![], vec!["abc", "abcＡ", "abＡ", "Ａab", "aab", "ba", "ab"]),
        (vec![("ab", "y"), ("a", "x"), ("abc", "zz")], vec![], vec!["abcabＡa", "abcab", "abx\u{3099}"]),
        (vec![("か\u{3099}", "が"), ("ｶﾞ", "ガ")], vec!['Ⅲ', '゛'], vec!["か\u{3099}ｶﾞⅢ", "ｶﾞ", "ｶ゛", "Ⅲⅲ"]),
        (vec![("A", "b"), ("b", "A")], vec!['Ａ'], vec!["AbＡ", "ab", "Ab"]),
        // identity rules: the key's span is kept as written (no lower-casing, no NFKC), also when shorter keys / the
        // optimised path are involved; values containing their key; chains (rules are applied once)
        (vec![("ＮＨＫ", "ＮＨＫ")], vec![], vec!["ＮＨＫ", "ＮＨＫ語", "xＮＨＫ", "ＮＨ"]),
        (vec![("ｱ", "ア"), ("ｱｲ", "ｱｲ")], vec![], vec!["ｱｲｱ", "ｱｲ", "ｱ", "ｲｱｲ"]),
        (vec![("ab", "x"), ("abc", "abc")], vec![], vec!["ababcab", "abc", "abcab", "abcＡ"]),
        (vec![("a", "b"), ("b", "c")], vec![], vec!["ab", "ba", "aab", "aＡ"]),
        (vec![("a", "aa"), ("aa", "a"), ("b", "ab")], vec![], vec!["aaa", "a", "aaaa", "ba", "Ａb"]),
        (vec![("A", "A"), ("ab", "ab")], vec![], vec!["Aab", "abA", "AB", "aba"]),
        (vec![], vec![], vec!["ǅ", "\u{1F88}", "İ", "ẞ", "Σ", "\u{FDFA}", "e\u{301}", "\u{212B}", "\u{3385}", ""]),
        (vec![], vec!['ǅ', 'İ', '㈱', 'Ａ'], vec!["ǅ", "İ", "㈱", "Ａ", "aǅ"]),
    ];
    for (pairs, ign, texts) in tables {
        let t = Table { pairs: pairs.iter().map(|(k, v)| (k.to_string(), v.to_string())).collect(), ign };
        let path = env.file("rewrite", &render_table(&t, rng));
        let d = env.dict(&env.chardef.clone(), json!({"class": "com.worksap.nlp.sudachi.DefaultInputTextPlugin", "rewriteDef": path})).unwrap();
        for s in texts {
            default_case(sink, env, &d, &t, s, false, "directed");
        }
        context_case(sink, &d, &t, "abc");
    }
}

pub fn run(args: &Args) {
    let mut sink = Sink::new("C07", &args.out, &["Model.Normalize", "Model.RewriteDefText"], args.seed, &args.tier);
    sink.shard_size = 120;
    sink.rule("(a) DefaultInputTextPlugin: random rewrite.def tables (0..6 keys of 1..3 code points over {a,b,c} or a 53-character alphabet of upper-case / full-width / compatibility / combining / title-case / astral characters; chains of keys that are prefixes of other keys; multi-character values; identity rules (value = key), values that contain their key, values that are another rule's key; 0..3 exempt characters) x texts built from keys, truncated keys, exempt characters and the alphabet; one third of the texts are fast-path texts, half of those are re-run next to an unrelated full-width letter (context pair); (b) ProlongedSoundMarkPlugin: random mark sets incl. regex-special characters x symbols (default, multi-character, empty) x texts dense in marks; (c) IgnoreYomiganaPlugin: the natural, the two shipped and random char.def files (short runs, single points, touching runs, ALL blocks, classes overlapping each other and the brackets) / bracket sets / max length; the kanji and reading classes of the oracle and of the Coq model are derived from the TEXT of the char.def (union of definition lines), never from the implementation; for every definition range the code points begin-1, begin, end, end+1 are probed in the kanji position and in the reading position of an otherwise perfect candidate, and random texts dense in kanji-bracket-reading-bracket candidates draw those positions from both sides of every range end; (e) sessions: one InputBuffer (reset / start_build / plugin rewrite / build) and one StatefulTokenizer + one MorphemeList (reset / do_tokenize / collect_results, which swaps the two input buffers) reused over sequences of 3..8 texts mixing already-normalised and to-be-normalised ones; every step is compared with the specification, the Coq model and a fresh buffer (non-trivial = a text needing the general path in a buffer that held an earlier text); (f) rewrite.def as TEXT: files generated line by line (comments, indented comments, blank / white-space-only lines, exempt characters, rules separated by space / tab / ideographic space / NBSP / several of them, keys and values that contain or start with '#', one-column lines of several characters, lines of three or four columns incl. 'rule # words', repeated keys, LF / CR LF, with or without final line end); accept / reject (+ error kind and line number) compared with the Coq model of the reader and an independent Rust statement of the format, and texts normalised with the loaded plugin compared with normalize_spec of the table the MODEL reads from the same text; sessions additionally contain texts accepted by start_build but rejected at commit (normalisation > 65535 bytes) and texts rejected by start_build, followed by ordinary texts; (g) plugin stacks of 2..4 instances with the same class listed twice or three times (two / three ProlongedSoundMarkPlugin instances with different marks and symbols, DefaultInputTextPlugin instances with different tables, IgnoreYomiganaPlugin instances with different brackets, mixed) through Config JSON -> from_cfg_storage -> StatefulTokenizer: every configured instance exists and the text behind the tokenizer is the composition of the per-instance specifications in configured order; (d) every Unicode scalar value alone and between neighbours for the shipped tables (stride in the quick tier), and the oracle laws over all scalar values. non-trivial = a key occurs or some character changes (a), a run of >= 2 marks occurs (b), something is removed (c); distinct by generated Coq term");
    let mut env = Env::new(args);
    if let Some(p) = &args.replay {
        let v: Value = serde_json::from_str(&std::fs::read_to_string(p).unwrap()).unwrap();
        replay(&mut sink, &mut env, &v["case"]);
        sink.finish();
        return;
    }
    let mut rng = Rng::new(args.seed);
    directed(&mut sink, &mut env, &mut rng);
    law_sweep(&mut sink);
    sweep_shipped(&mut sink, &mut env, if args.thorough() { 1 } else { 37 });
    default_stream(&mut sink, &mut env, &mut rng, args.n(320, 4000), 8);
    psm_stream(&mut sink, &mut env, &mut rng, args.n(70, 800), 8);
    yomi_stream(&mut sink, &mut env, &mut rng, args.n(70, 800), 10);
    chain_stream(&mut sink, &mut env, &mut rng, args.n(40, 600), 8);
    stack_stream(&mut sink, &mut env, &mut rng, args.n(60, 800));
    session_stream(&mut sink, &mut env, &mut rng, args.n(60, 800));
    deftext_stream(&mut sink, &mut env, &mut rng, args.n(150, 3000));
    malformed(&mut sink, &mut env);
    let _ = std::fs::remove_dir_all(&env.dir);
    sink.finish();
}
