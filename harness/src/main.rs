mod common;
mod c17;

use common::*;
use std::path::PathBuf;

fn main() {
    let a: Vec<String> = std::env::args().collect();
    if a.len() < 2 {
        eprintln!("usage: vharness <prop> --seed N --tier quick|thorough --out DIR [--replay FILE]");
        std::process::exit(2);
    }
    let mut args = Args {
        prop: a[1].to_uppercase(),
        seed: 1,
        tier: "quick".into(),
        out: PathBuf::from("."),
        replay: None,
        work: PathBuf::from("."),
    };
    let mut i = 2;
    while i < a.len() {
        match a[i].as_str() {
            "--seed" => {
                args.seed = a[i + 1].parse().unwrap();
                i += 1
            }
            "--tier" => {
                args.tier = a[i + 1].clone();
                i += 1
            }
            "--out" => {
                args.out = PathBuf::from(&a[i + 1]);
                i += 1
            }
            "--work" => {
                args.work = PathBuf::from(&a[i + 1]);
                i += 1
            }
            "--replay" => {
                args.replay = Some(PathBuf::from(&a[i + 1]));
                i += 1
            }
            x => {
                eprintln!("unknown argument {}", x);
                std::process::exit(2);
            }
        }
        i += 1;
    }
    quiet_panics();
    match args.prop.as_str() {
        "C17" => c17::run(&args),
        p => {
            eprintln!("no harness for {}", p);
            std::process::exit(2);
        }
    }
}
