mod common;
mod dictutil;
mod c01;
mod c01py;
mod c02;
mod c03;
mod c04;
mod c05;
mod c06;
mod c07;
mod c08;
mod c09;
mod c10;
mod c11;
mod c12;
mod c13;
mod c14;
mod c15;
mod c16;
mod c17;
mod c18;
mod c19;
mod c20;

use common::*;
use std::path::PathBuf;

fn main() {
    let a: Vec<String> = std::env::args().collect();
    if a.len() < 2 {
        eprintln!("usage: vharness <prop> --seed N --tier quick|thorough --out DIR [--replay FILE]");
        std::process::exit(2);
    }
    let mut args = Args {
        prop: a[1].to_uppercase(),
        seed: 1,
        tier: "quick".into(),
        out: PathBuf::from("."),
        replay: None,
        work: PathBuf::from("."),
    };
    let mut i = 2;
    while i < a.len() {
        match a[i].as_str() {
            "--seed" => {
                args.seed = a[i + 1].parse().unwrap();
                i += 1
            }
            "--tier" => {
                args.tier = a[i + 1].clone();
                i += 1
            }
            "--out" => {
                args.out = PathBuf::from(&a[i + 1]);
                i += 1
            }
            "--work" => {
                args.work = PathBuf::from(&a[i + 1]);
                i += 1
            }
            "--replay" => {
                args.replay = Some(PathBuf::from(&a[i + 1]));
                i += 1
            }
            x => {
                eprintln!("unknown argument {}", x);
                std::process::exit(2);
            }
        }
        i += 1;
    }
    quiet_panics();
    match args.prop.as_str() {
        "C01" => c01::run(&args),
        "C02" => c02::run(&args),
        "C03" => c03::run(&args),
        "C03DBG" => c03::run_debug_child(&args),
        "C04" => c04::run(&args),
        "C05" => c05::run(&args),
        "C06" => c06::run(&args),
        "C07" => c07::run(&args),
        "C08" => c08::run(&args),
        "C09" => c09::run(&args),
        "C10" => c10::run(&args),
        "C11" => c11::run(&args),
        "C12" => c12::run(&args),
        "C13" => c13::run(&args),
        "C14" => c14::run(&args),
        "C15" => c15::run(&args),
        "C16" => c16::run(&args),
        "C17" => c17::run(&args),
        "C18" => c18::run(&args),
        "C19" => c19::run(&args),
        "C20" => c20::run(&args),
        p => {
            eprintln!("no harness for {}", p);
            std::process::exit(2);
        }
    }
}
