//! C01 — morphemes partition the original text byte-for-byte (lossless surfaces).
//! Pipeline-level run of the real tokenizer (plugin stacks x dictionaries x modes); the partition predicate of
//! Model/Buffer.v is evaluated on the implementation's output and the reported offsets / surfaces are compared with the
//! model's to_orig* applied to the implementation's own offset map.
use crate::common::*;
use serde_json::{json, Value};
use std::collections::HashMap;
use sudachi::analysis::node::LatticeNode;
use sudachi::analysis::mlist::MorphemeList;
use sudachi::analysis::stateful_tokenizer::StatefulTokenizer;
use sudachi::analysis::stateless_tokenizer::DictionaryAccess;
use sudachi::analysis::Mode;
use sudachi::config::ConfigBuilder;
use sudachi::dic::build::DictBuilder;
use sudachi::dic::dictionary::JapaneseDictionary;
use sudachi::dic::storage::{Storage, SudachiDicData};
use sudachi::dic::subset::InfoSubset;
use sudachi::dic::DictionaryLoader;
use sudachi::input_text::InputTextIndex;

/// which property the pipeline cases are checked for: C01 (partition, lossless surfaces) or C08 (code-point offsets of
/// every reported morpheme).  Generators and the implementation runs are the same; Coq term and Rust oracle differ.
#[derive(Clone, Copy, PartialEq, Debug)]
pub enum Prop {
    C01,
    C08,
}
thread_local! {
    static PROP: std::cell::Cell<Prop> = std::cell::Cell::new(Prop::C01);
}
fn prop() -> Prop {
    PROP.with(|p| p.get())
}

fn res(f: &str) -> String {
    format!("{}/sudachi/tests/resources/{}", repo(), f)
}

// ---------------------------------------------------------------- dictionaries
/// base words (already in normalised form, so that they are reachable after input-text rewriting)
const POOL: [&str; 24] = [
    "キロ", "メートル", "アパート", "株式", "会社", "ab", "c", "abc", "東京", "大学", "かんじ", "漢字", "カ", "ガ", "スー", "パー", "fi", "iii", "さ", "ー", "1", "百",
    "é", "𠮷野",
];

#[derive(Clone, Debug)]
struct DictSpec {
    kind: u8, // 0 shipped system + shipped user, 1 generated system, 2 generated system + generated user
    seed: u64,
}

struct BuiltDict {
    system: Vec<u8>,
    user: Option<Vec<u8>>,
    words: Vec<String>,
    flavours: Vec<&'static str>,
}

fn shipped_words() -> Vec<String> {
    let lex = std::fs::read_to_string(res("lex.csv")).unwrap();
    lex.lines().filter_map(|l| l.split(',').next()).filter(|w| !w.is_empty() && w.len() < 40).map(|s| s.to_string()).collect()
}

/// one lexicon row: `key` is the index form (column 0, what the trie matches and what head_word_length measures),
/// `headword` the display form (column 4) which may differ from it in text and in number of code points
fn row(key: &str, headword: &str, cost: i32, mode: &str, a: &str, b: &str) -> String {
    format!("{k},7,7,{c},{h},名詞,普通名詞,一般,*,*,*,ヨミ,{h},*,{m},{a},{b},*,*", k = key, h = headword, c = cost, m = mode, a = a, b = b)
}

/// display forms for entries whose headword differs from their key
const DISPLAY: [&str; 8] = ["東", "とうきょうと", "KM", "㍿", "ｶ", "x", "漢字漢字", "é́"];

/// A compound over the base words and the unit ids it declares.  Three flavours:
/// exact   - the units spell the word;
/// short   - the units spell a proper prefix of the word, the word goes on after the last unit;
/// variant - additionally a non-final unit is declared as another base word (of a different length) whose end still
///           falls on a character boundary inside the word.
/// NodeSplitIterator only looks at the byte lengths of the units' keys and gives the rest of the word to the last unit, so
/// every flavour must be partitioned; nothing here leaves the character boundaries of the word.
fn gen_compound(rng: &mut Rng, base: &[(usize, String)]) -> (String, Vec<usize>, &'static str) {
    let k = 2 + rng.below(2) as usize;
    let mut units: Vec<(usize, String)> = (0..k).map(|_| rng.pick(base).clone()).collect();
    let mut surface: String = units.iter().map(|u| u.1.as_str()).collect();
    let mut flavour = "exact";
    if rng.chance(1, 2) {
        surface.push_str(&rng.pick(base).1);
        flavour = "short";
        if rng.chance(1, 2) {
            // re-declare one non-final unit; keep it only if every cut stays on a character boundary inside the word
            let i = rng.below(k as u64 - 1) as usize;
            let cand = rng.pick(base).clone();
            let mut trial = units.clone();
            trial[i] = cand;
            let mut pos = 0;
            let mut ok = true;
            for u in &trial[..k - 1] {
                pos += u.1.len();
                ok &= pos < surface.len() && surface.is_char_boundary(pos);
            }
            if ok {
                units = trial;
                flavour = "variant";
            }
        }
    }
    (surface, units.iter().map(|u| u.0).collect(), flavour)
}

fn build_dict(spec: &DictSpec) -> Result<BuiltDict, String> {
    if spec.kind == 0 {
        let mut words = shipped_words();
        words.extend(["ぴらる", "府", "東京府", "すだち", "ぴさる", "かぼす"].iter().map(|s| s.to_string()));
        return Ok(BuiltDict {
            system: std::fs::read(res("system.dic.test")).map_err(|e| e.to_string())?,
            user: Some(std::fs::read(res("user.dic.test")).map_err(|e| e.to_string())?),
            words,
            flavours: vec![],
        });
    }
    let mut rng = Rng::new(spec.seed);
    let lex = std::fs::read_to_string(res("lex.csv")).map_err(|e| e.to_string())?;
    let mut nrows = lex.lines().count();
    let mut words = shipped_words();
    let mut flavours: Vec<&'static str> = vec![];
    let mut extra = String::new();
    // base words; about a third with a display form that differs from the key
    let nbase = 4 + rng.below(8) as usize;
    let mut base: Vec<(usize, String)> = vec![];
    for _ in 0..nbase {
        let w = *rng.pick(&POOL);
        if base.iter().any(|(_, x)| x == w) {
            continue;
        }
        let headword = if rng.chance(1, 3) {
            flavours.push("headword_differs_from_key");
            *rng.pick(&DISPLAY)
        } else {
            w
        };
        extra.push('\n');
        extra.push_str(&row(w, headword, 2000 + rng.below(3000) as i32, "A", "*", "*"));
        base.push((nrows, w.to_string()));
        words.push(w.to_string());
        nrows += 1;
    }
    // compounds with A / B splits
    let ncomp = 2 + rng.below(4) as usize;
    for _ in 0..ncomp {
        let (surface, units, flavour) = gen_compound(&mut rng, &base);
        if words.iter().any(|w| *w == surface) {
            continue;
        }
        let a = units.iter().map(|u| u.to_string()).collect::<Vec<_>>().join("/");
        let b = match rng.below(3) {
            0 => a.clone(),
            1 => "*".to_string(),
            _ => units[..units.len() - 1].iter().map(|u| u.to_string()).collect::<Vec<_>>().join("/"), // coarser B split (may be a single unit)
        };
        extra.push('\n');
        extra.push_str(&row(&surface, &surface, 500 + rng.below(1500) as i32, "C", &a, &b));
        flavours.push(flavour);
        words.push(surface);
        nrows += 1;
    }
    let mut b = DictBuilder::new_system();
    b.read_conn(std::fs::read(res("matrix_10x10.def")).map_err(|e| e.to_string())?.as_slice()).map_err(|e| format!("{:?}", e))?;
    let text = format!("{}{}", lex, extra);
    b.read_lexicon(text.as_bytes()).map_err(|e| format!("{:?}", e))?;
    b.resolve().map_err(|e| format!("{:?}", e))?;
    let mut system = vec![];
    b.compile(&mut system).map_err(|e| format!("{:?}", e))?;
    let mut user = None;
    if spec.kind == 2 {
        let loaded = DictionaryLoader::read_system_dictionary(&system).map_err(|e| format!("{:?}", e))?.to_loaded().ok_or("no grammar")?;
        let mut ub = DictBuilder::new_user(&loaded);
        let mut rows = vec![];
        // a plain user word, and a user compound split into a system word and a user word
        let u0 = format!("{}{}", rng.pick(&POOL), rng.pick(&POOL));
        let u0_head = if rng.chance(1, 3) { rng.pick(&DISPLAY).to_string() } else { u0.clone() };
        rows.push(row(&u0, &u0_head, 100, "A", "*", "*"));
        words.push(u0.clone());
        let sysw = rng.pick(&base).clone();
        // exact, or with a tail that belongs to no declared unit
        let tail = if rng.chance(1, 2) { rng.pick(&base).1.clone() } else { String::new() };
        flavours.push(if tail.is_empty() { "exact" } else { "short" });
        let comp = format!("{}{}{}", sysw.1, u0, tail);
        rows.push(row(&comp, &comp, -500, "C", &format!("{}/U0", sysw.0), &format!("{}/U0", sysw.0)));
        words.push(comp);
        ub.read_lexicon(rows.join("\n").as_bytes()).map_err(|e| format!("{:?}", e))?;
        ub.resolve().map_err(|e| format!("{:?}", e))?;
        let mut ubytes = vec![];
        ub.compile(&mut ubytes).map_err(|e| format!("{:?}", e))?;
        user = Some(ubytes);
    }
    Ok(BuiltDict { system, user, words, flavours })
}

// ---------------------------------------------------------------- plugin stacks
#[derive(Clone, Debug)]
struct Stack {
    input: Vec<u8>, // 0 default (NFKC / lower-casing / rewrite table), 1 prolonged sound marks, 2 ignore yomigana; in this order
    oov: u8,        // 0 simple, 1 mecab + simple, 2 mecab + regex + simple
    rewrite: u8,    // 0 none, 1 numeric(normalize), 2 katakana(min 3), 3 numeric(no normalize) + katakana(min 1), 4 numeric + katakana(3)
}

fn stack_json(s: &Stack) -> Value {
    let input: Vec<Value> = s
        .input
        .iter()
        .map(|k| match k {
            0 => json!({"class": "com.worksap.nlp.sudachi.DefaultInputTextPlugin"}),
            1 => json!({"class": "com.worksap.nlp.sudachi.ProlongedSoundMarkPlugin",
                        "prolongedSoundMarks": ["ー", "-", "⁓", "〜", "〰"], "replacementSymbol": "ー"}),
            _ => json!({"class": "com.worksap.nlp.sudachi.IgnoreYomiganaPlugin",
                        "leftBrackets": ["(", "（"], "rightBrackets": [")", "）"], "maxYomiganaLength": 4}),
        })
        .collect();
    let pos = json!(["名詞", "普通名詞", "一般", "*", "*", "*"]);
    let simple = json!({"class": "com.worksap.nlp.sudachi.SimpleOovPlugin", "oovPOS": pos, "leftId": 8, "rightId": 8, "cost": 6000});
    let mecab = json!({"class": "com.worksap.nlp.sudachi.MeCabOovPlugin", "charDef": "char.def", "unkDef": "unk2.def", "userPOS": "allow"});
    let regex = json!({"class": "com.worksap.nlp.sudachi.RegexOovProvider", "oovPOS": pos, "leftId": 5, "rightId": 5, "cost": -3000,
                       "regex": "[-a-zA-Z0-9]+", "maxLength": 64, "userPOS": "allow"});
    let oov = match s.oov {
        0 => vec![simple],
        1 => vec![mecab, simple],
        _ => vec![mecab, regex, simple],
    };
    let num = |n: bool| json!({"class": "com.worksap.nlp.sudachi.JoinNumericPlugin", "enableNormalize": n});
    let kat = |m: u32| json!({"class": "com.worksap.nlp.sudachi.JoinKatakanaOovPlugin", "oovPOS": pos, "minLength": m});
    let rewrite = match s.rewrite {
        0 => vec![],
        1 => vec![num(true)],
        2 => vec![kat(3)],
        3 => vec![num(false), kat(1)],
        _ => vec![num(true), kat(3)],
    };
    json!({"path": res(""), "characterDefinitionFile": "char.def", "inputTextPlugin": input, "oovProviderPlugin": oov, "pathRewritePlugin": rewrite})
}

fn load(d: &BuiltDict, s: &Stack) -> Result<JapaneseDictionary, String> {
    let cfg = ConfigBuilder::from_bytes(stack_json(s).to_string().as_bytes()).map_err(|e| format!("{:?}", e))?.build();
    let mut data = SudachiDicData::new(Storage::Owned(d.system.clone()));
    if let Some(u) = &d.user {
        data.add_user(Storage::Owned(u.clone()));
    }
    JapaneseDictionary::from_cfg_storage(&cfg, data).map_err(|e| format!("{:?}", e))
}

// ---------------------------------------------------------------- inputs
const SPECIAL: [&str; 56] = [
    "㍿", "㌔", "ｱﾞ", "ﾊﾟ", "ｶﾞ", "ﬁ", "Ⅲ", "ⅲ", "１２３", "ＡＢＣ", "ABC", "Abc", "か\u{3099}", "é", "e\u{301}", "㈱", "½", "ǆ", "ﾟ", "\u{FDFA}", "\u{337F}", "ｷﾛ", "ｱﾊﾟｰﾄ",
    "漢字(かんじ)", "東京（とうきょう）", "都(と)", "京都(きょうとふ)", "字(じ", "(かんじ)", "大学（だいがく）に", // yomigana
    "ー", "ーー", "〜〜〜", "あーーー", "-", "--", "⁓〰", "スーーパー", // prolonged sound marks
    "1", "123", "1,000", "3.14", "二十", "五百", "〇", "１，０００", "六三四", "1.", ",5", // numerals
    "アイウ", "アイアイウ", "カタカナ", "ケ", "ヴ", // katakana
    " ", "。",
];
const MISC: [&str; 14] = ["　", "、", "\n", "\t", "😀", "\u{10FFFF}", "a", "Z", "特a", "な。な", "\u{200D}", "👍\u{1F3FD}", "\u{0}", "𠮷"];

fn gen_text(rng: &mut Rng, words: &[String]) -> String {
    let s = gen_text_body(rng, words);
    crate::c08::special_first(rng, s)
}

fn gen_text_body(rng: &mut Rng, words: &[String]) -> String {
    match rng.below(20) {
        0 => return String::new(),
        1 => return crate::c08::rand_string(rng, 10),
        2..=7 => return gen_dense(rng, words),
        _ => {}
    }
    let n = 1 + rng.below(7);
    let mut s = String::new();
    for _ in 0..n {
        match rng.below(10) {
            0..=3 => s.push_str(rng.pick(words).as_str()),
            4..=7 => s.push_str(*rng.pick(&SPECIAL)),
            8 => s.push_str(*rng.pick(&MISC)),
            _ => s.push(*rng.pick(&crate::c08::ALPHABET)),
        }
    }
    s
}

// ---------------------------------------------------------------- one analysis
#[derive(Clone)]
struct MorphOut {
    b: usize,
    e: usize,
    bc: usize,
    ec: usize,
    surface: String,
}
struct Analysis {
    cur: String,
    m2o: Vec<usize>,
    /// path in the coordinates of the rewritten text; None when observed through a reused MorphemeList
    nodes: Option<Vec<(usize, usize, usize, usize)>>,
    morphs: Vec<MorphOut>,
    /// an accessor of a reported morpheme (begin/end/begin_c/end_c/surface) panicked: its range does not fit the input
    accessor_panic: Option<String>,
}

/// a text, possibly very long: concatenation of (piece, repetitions); descriptions keep the recipe, not the expansion
#[derive(Clone, Debug)]
struct Text(Vec<(String, usize)>);
impl Text {
    fn plain(s: &str) -> Text {
        Text(vec![(s.to_string(), 1)])
    }
    fn expand(&self) -> String {
        self.0.iter().map(|(s, n)| s.repeat(*n)).collect()
    }
    fn json(&self) -> Value {
        if self.0.len() == 1 && self.0[0].1 == 1 {
            json!(self.0[0].0)
        } else {
            json!(self.0.iter().map(|(s, n)| json!([s, n])).collect::<Vec<_>>())
        }
    }
    fn from_json(v: &Value) -> Text {
        match v.as_str() {
            Some(s) => Text::plain(s),
            None => Text(v.as_array().unwrap().iter().map(|x| (x[0].as_str().unwrap().to_string(), x[1].as_u64().unwrap() as usize)).collect()),
        }
    }
}

/// everything the API reports for every morpheme of the list; a panic of an accessor is an observation, not an accident:
/// tokenization succeeded, so a morpheme whose offsets / surface cannot be obtained is a lost piece of the input
fn read_morphs<T: DictionaryAccess>(ml: &MorphemeList<T>) -> (Vec<MorphOut>, Option<String>) {
    let mut out = vec![];
    for i in 0..ml.len() {
        let r = catch(|| {
            let m = ml.get(i);
            let surface = m.surface().to_string();
            MorphOut { b: m.begin(), e: m.end(), bc: m.begin_c(), ec: m.end_c(), surface }
        });
        match r {
            Ok(m) => out.push(m),
            Err(p) => {
                let before: Vec<(usize, usize)> = out.iter().rev().take(3).rev().map(|m| (m.b, m.e)).collect();
                let p: String = p.chars().take(160).collect();
                let msg = format!("morpheme {} of {}: begin/end/begin_c/end_c/surface panicked ({}); byte ranges of the morphemes before it: ..{:?}", i, ml.len(), p, before);
                return (out, Some(msg));
            }
        }
    }
    (out, None)
}

fn mode_of(m: u8) -> Mode {
    match m {
        0 => Mode::A,
        1 => Mode::B,
        _ => Mode::C,
    }
}
const MODE_NAMES: [&str; 3] = ["A", "B", "C"];
fn mode_from(v: &Value) -> u8 {
    match v.as_str().unwrap_or("C") {
        "A" => 0,
        "B" => 1,
        _ => 2,
    }
}

/// field subsets a caller may request (Dictionary.create(fields=..), pre-tokenizers, projections): None = all fields
fn gen_subset(rng: &mut Rng) -> Option<u32> {
    match rng.below(6) {
        0..=2 => None,
        3 => Some(InfoSubset::POS_ID.bits()),
        4 => Some(0),
        _ => Some((rng.next() as u32) & InfoSubset::all().bits()),
    }
}
fn subset_json(s: Option<u32>) -> Value {
    match s {
        None => Value::Null,
        Some(b) => json!(b),
    }
}
fn subset_from(v: &Value) -> Option<u32> {
    v.as_u64().map(|b| b as u32)
}
fn apply_subset<D: DictionaryAccess>(tok: &mut StatefulTokenizer<D>, s: Option<u32>) {
    if let Some(b) = s {
        tok.set_subset(InfoSubset::from_bits_truncate(b));
    }
}

fn dump_input<D: DictionaryAccess>(tok: &StatefulTokenizer<D>) -> (String, Vec<usize>) {
    let inp = tok.verif_input();
    let cur = inp.current().to_string();
    // to_orig indexes the offset map directly: a map that is shorter than the text it belongs to is reported, not hidden
    let m2o: Vec<usize> = (0..=cur.len()).map(|i| catch(|| inp.to_orig(i..i).start).unwrap_or(usize::MAX)).collect();
    (cur, m2o)
}

/// Ok(None) = tokenization rejected the input (Err); Err = tokenization panicked (C03's subject)
fn analyse(dict: &JapaneseDictionary, text: &str, mode: u8, subset: Option<u32>) -> Result<Option<Analysis>, String> {
    let first = catch(|| {
        // first run: the input buffer and the path in the coordinates of the rewritten text
        let mut tok = StatefulTokenizer::new(dict, mode_of(mode));
        apply_subset(&mut tok, subset);
        tok.reset().push_str(text);
        if tok.do_tokenize().is_err() {
            return None;
        }
        let (cur, m2o) = dump_input(&tok);
        let mut input = Default::default();
        let mut path = vec![];
        let mut sub = Default::default();
        tok.swap_result(&mut input, &mut path, &mut sub);
        let nodes: Vec<(usize, usize, usize, usize)> = path.iter().map(|n| (n.begin(), n.end(), n.begin_bytes(), n.end_bytes())).collect();
        // second run: what the API reports
        let mut tok2 = StatefulTokenizer::new(dict, mode_of(mode));
        apply_subset(&mut tok2, subset);
        tok2.reset().push_str(text);
        if tok2.do_tokenize().is_err() {
            return None;
        }
        match tok2.into_morpheme_list() {
            Ok(ml) => Some((cur, m2o, nodes, ml)),
            Err(_) => None,
        }
    })?;
    Ok(first.map(|(cur, m2o, nodes, ml)| {
        let (morphs, accessor_panic) = read_morphs(&ml);
        Analysis { cur, m2o, nodes: Some(nodes), morphs, accessor_panic }
    }))
}

/// what C08 says about one reported morpheme (and C01 as well): a character-aligned range of the input, the surface is
/// the input text of that range, the code-point offsets count the code points before the byte offsets, slicing by
/// code points gives the same text
fn oracle_morph(text: &str, i: usize, m: &MorphOut) -> Option<String> {
    if m.e < m.b || m.e > text.len() || !text.is_char_boundary(m.b) || !text.is_char_boundary(m.e) {
        return Some(format!("morpheme {} has range {}..{} which is not a character-aligned range of the input", i, m.b, m.e));
    }
    if m.surface != text[m.b..m.e] {
        return Some(format!("morpheme {} surface {:?} is not the input text {:?} of its range {}..{}", i, m.surface, &text[m.b..m.e], m.b, m.e));
    }
    let (wb, we) = (text[..m.b].chars().count(), text[..m.e].chars().count());
    if m.bc != wb || m.ec != we {
        return Some(format!("morpheme {} {:?}: code-point offsets {}..{} reported, but {} and {} code points precede its byte offsets {}..{}", i, m.surface, m.bc, m.ec, wb, we, m.b, m.e));
    }
    None
}

fn oracle(text: &str, a: &Analysis) -> Option<String> {
    if prop() == Prop::C08 {
        return a.morphs.iter().enumerate().find_map(|(i, m)| oracle_morph(text, i, m));
    }
    if a.cur.is_empty() {
        return if a.morphs.is_empty() { None } else { Some("morphemes reported although the normalised text is empty".into()) };
    }
    if a.morphs.is_empty() {
        return Some(format!("no morphemes although the normalised text is {:?}", a.cur));
    }
    let mut pos = 0;
    let mut cat = String::new();
    for (i, m) in a.morphs.iter().enumerate() {
        if m.b != pos {
            return Some(format!("morpheme {} begins at byte {} but the previous one ended at {}", i, m.b, pos));
        }
        if let Some(w) = oracle_morph(text, i, m) {
            return Some(w);
        }
        cat.push_str(&m.surface);
        pos = m.e;
    }
    if pos != text.len() {
        return Some(format!("last morpheme ends at byte {} of {}", pos, text.len()));
    }
    if cat != text {
        return Some("concatenated surfaces differ from the input".into());
    }
    None
}

fn morph_terms(ms: &[MorphOut]) -> String {
    clist(ms.iter().map(|m| format!("mkM {} {} {} {} {}", cnu(m.b), cnu(m.e), cnu(m.bc), cnu(m.ec), cbytes(m.surface.as_bytes()))))
}

fn term(text: &str, a: &Analysis) -> String {
    let morphs = morph_terms(&a.morphs);
    let m2o = clist(a.m2o.iter().map(|x| cnu(*x)));
    if prop() == Prop::C08 {
        return format!("check_c08_morphs {} {} {} {}", cbytes(text.as_bytes()), cbytes(a.cur.as_bytes()), m2o, morphs);
    }
    match &a.nodes {
        Some(nodes) => format!(
            "check_c01 {} {} {} {} {}",
            cbytes(text.as_bytes()),
            cbytes(a.cur.as_bytes()),
            m2o,
            clist(nodes.iter().map(|n| format!("({}, {}, {}, {})", cnu(n.0), cnu(n.1), cnu(n.2), cnu(n.3)))),
            morphs
        ),
        None => format!("check_c01_report {} {} {} {}", cbytes(text.as_bytes()), cbytes(a.cur.as_bytes()), m2o, morphs),
    }
}

fn conf_json(st: &Stack, ds: &DictSpec) -> (Value, Value) {
    (json!({"input": st.input, "oov": st.oov, "rewrite": st.rewrite}), json!({"kind": ds.kind, "seed": ds.seed.to_string()}))
}

fn run_one(sink: &mut Sink, dict: &JapaneseDictionary, t: &Text, mode: u8, subset: Option<u32>, st: &Stack, ds: &DictSpec, verbose: bool) -> usize {
    let (sj, dj) = conf_json(st, ds);
    let d = json!({"kind": "c01", "text": t.json(), "mode": MODE_NAMES[mode as usize], "subset": subset_json(subset), "stack": sj, "dict": dj});
    let text = t.expand();
    sink.tag(&format!("mode={}", MODE_NAMES[mode as usize]));
    if subset.is_some() {
        sink.tag("field_subset_requested");
    }
    match analyse(dict, &text, mode, subset) {
        Err(p) => {
            // a panic of analysis is C03's subject; here it is only counted (well-formed generated dictionaries do not get here)
            if verbose {
                println!("analysis panicked: {}", p);
            }
            sink.tag("analysis_panicked(not C01/C08)");
            sink.case_rust_only(d, false);
            0
        }
        Ok(None) => {
            if verbose {
                println!("tokenization rejected the input ({} bytes)", text.len());
            }
            sink.tag("rejected_by_tokenizer");
            sink.case_rust_only(d, false);
            0
        }
        Ok(Some(a)) => record(sink, &text, &a, d, verbose),
    }
}

/// one successful analysis: tags, Coq term, Rust-side statement of the property
fn record(sink: &mut Sink, text: &str, a: &Analysis, d: Value, verbose: bool) -> usize {
    let rewritten = a.cur != text;
    let identity = a.m2o.iter().enumerate().all(|(i, x)| i == *x);
    sink.tag(if rewritten { "text_rewritten" } else { "text_unchanged" });
    if a.cur.len() > text.len() {
        sink.tag("rewritten_longer");
    }
    if a.cur.len() < text.len() {
        sink.tag("rewritten_shorter");
    }
    if a.morphs.iter().any(|m| m.b == m.e) {
        sink.tag("has_empty_range_morpheme");
    }
    if a.cur.is_empty() {
        sink.tag("normalised_empty");
    }
    // a cut of the rewritten text whose image differs from its own offset, behind which the map is not a plain shift:
    // the situation in which offsets of the rewritten and of the original text can be mixed up
    if a.m2o.windows(2).enumerate().any(|(i, w)| w[0] != i && w[1] != w[0] + 1 && w[1] != w[0]) {
        sink.tag("edit_behind_a_length_changing_edit");
    }
    // a morpheme whose original span and normalised span have different numbers of code points
    if let Some(nodes) = &a.nodes {
        if nodes.len() == a.morphs.len() && nodes.iter().zip(a.morphs.iter()).any(|(n, m)| m.ec >= m.bc && n.1 - n.0 != m.ec - m.bc) {
            sink.tag("morpheme_changes_its_number_of_code_points");
        }
    }
    sink.tag(&format!("morphemes={}", usize::min(a.morphs.len(), 10)));
    let long = text.len() > 3000;
    if verbose {
        println!("input      : {} bytes {:?}", text.len(), text.chars().take(60).collect::<String>());
        println!("normalised : {} bytes {:?}", a.cur.len(), a.cur.chars().take(60).collect::<String>());
        if !long {
            println!("m2o        : {:?}", a.m2o);
            println!("nodes      : {:?}", a.nodes);
        }
        for m in a.morphs.iter().rev().take(40).rev() {
            println!("  {}..{} (cp {}..{}) {:?}", m.b, m.e, m.bc, m.ec, m.surface);
        }
    }
    if let Some(p) = &a.accessor_panic {
        // no complete report exists: nothing to hand to the model, the failure is the observation itself
        if verbose {
            println!("accessors  : {}", p);
        }
        let id = sink.case_rust_only(d, false);
        let covered = a.morphs.last().map(|m| m.e).unwrap_or(0);
        let what = if a.cur.is_empty() {
            format!("morphemes reported although the normalised text is empty, and they cannot be read back: {}", p)
        } else {
            format!("tokenization succeeded but the morphemes cannot be read back (those that can cover bytes 0..{} of {}): {}", covered, text.len(), p)
        };
        sink.fail(id, &what, "");
        return a.morphs.len();
    }
    // very long inputs are checked by the Rust-side statement of the property only (no Coq term of that size)
    let id = if long {
        sink.tag("long_input_rust_oracle_only");
        sink.case_rust_only(d, false)
    } else {
        sink.case(term(text, a), d, (!identity || rewritten) && a.morphs.len() > 1)
    };
    let o = oracle(text, a);
    if verbose {
        println!("oracle     : {:?}", o);
    }
    if let Some(w) = o {
        sink.fail(id, &w, "");
    }
    a.morphs.len()
}

// ---------------------------------------------------------------- on-demand splitting of the morphemes of a mode-C analysis
/// Morpheme::split_into (what Python's Morpheme.split calls) for every morpheme of a mode-C result and both split modes,
/// with the field subset the caller requested: the sub-morphemes must tile the parent (C01) and carry code-point offsets
/// that agree with their byte offsets (C08)
fn run_split(sink: &mut Sink, dict: &JapaneseDictionary, t: &Text, subset: Option<u32>, st: &Stack, ds: &DictSpec, verbose: bool) {
    let (sj, dj) = conf_json(st, ds);
    let d = json!({"kind": "c01-split", "text": t.json(), "subset": subset_json(subset), "stack": sj, "dict": dj});
    let text = t.expand();
    sink.tag("on_demand_split_case");
    let ml = catch(|| {
        let mut tok = StatefulTokenizer::new(dict, Mode::C);
        apply_subset(&mut tok, subset);
        tok.reset().push_str(&text);
        if tok.do_tokenize().is_err() {
            return None;
        }
        tok.into_morpheme_list().ok()
    });
    let ml = match ml {
        Ok(Some(ml)) => ml,
        _ => {
            sink.tag("rejected_by_tokenizer");
            sink.case_rust_only(d, false);
            return;
        }
    };
    let (parents, ppanic) = read_morphs(&ml);
    if ppanic.is_some() {
        // reported by the plain mode-C case of the same text
        sink.case_rust_only(d, false);
        return;
    }
    let mut groups: Vec<(usize, usize, Vec<MorphOut>)> = vec![];
    let mut failure: Option<String> = None;
    for (i, p) in parents.iter().enumerate() {
        for mode in 0..2u8 {
            let mut out = ml.empty_clone();
            let r = catch(|| ml.split_into(mode_of(mode), i, &mut out));
            match r {
                Err(_) | Ok(Err(_)) => {
                    sink.tag("split_into_panicked_or_failed(not C01/C08)");
                    continue;
                }
                Ok(Ok(false)) => continue,
                Ok(Ok(true)) => {}
            }
            let (subs, spanic) = read_morphs(&out);
            sink.tag(&format!("split_into_{}_units={}", MODE_NAMES[mode as usize], usize::min(out.len(), 4)));
            if verbose {
                println!("split_into({}) of morpheme {} {}..{} {:?}:", MODE_NAMES[mode as usize], i, p.b, p.e, p.surface);
                for m in &subs {
                    println!("    {}..{} (cp {}..{}) {:?}", m.b, m.e, m.bc, m.ec, m.surface);
                }
            }
            if let Some(sp) = spanic {
                failure.get_or_insert(format!("split_into({}) of morpheme {} ({}..{}): the sub-morphemes cannot be read back: {}", MODE_NAMES[mode as usize], i, p.b, p.e, sp));
                continue;
            }
            let mut bad = subs.iter().enumerate().find_map(|(k, m)| oracle_morph(&text, k, m));
            if bad.is_none() && prop() == Prop::C01 {
                let mut pos = p.b;
                for (k, m) in subs.iter().enumerate() {
                    if m.b != pos {
                        bad = Some(format!("sub-morpheme {} begins at byte {} but the previous one ended at {}", k, m.b, pos));
                        break;
                    }
                    pos = m.e;
                }
                if bad.is_none() && pos != p.e {
                    bad = Some(format!("the last sub-morpheme ends at byte {}, the split morpheme at {}", pos, p.e));
                }
            }
            if let Some(b) = bad {
                failure.get_or_insert(format!("split_into({}) of morpheme {} ({}..{} {:?}): {}", MODE_NAMES[mode as usize], i, p.b, p.e, p.surface, b));
            }
            groups.push((p.b, p.e, subs));
        }
    }
    let f = if prop() == Prop::C08 { "check_c08_subs" } else { "check_c01_subs" };
    let term = format!("{} {} {}", f, cbytes(text.as_bytes()), clist(groups.iter().map(|(b, e, s)| format!("({}, {}, {})", cnu(*b), cnu(*e), morph_terms(s)))));
    let id = if text.len() > 3000 { sink.case_rust_only(d, false) } else { sink.case(term, d, groups.iter().any(|g| g.2.len() > 1)) };
    if verbose {
        println!("oracle     : {:?}", failure);
    }
    if let Some(w) = failure {
        sink.fail(id, &w, "");
    }
}

// ---------------------------------------------------------------- the other public ways of filling a MorphemeList
/// morphemes `from..` of a list
fn read_morphs_from<T: DictionaryAccess>(ml: &MorphemeList<T>, from: usize) -> (Vec<MorphOut>, Option<String>) {
    let mut out = vec![];
    for i in from..ml.len() {
        let r = catch(|| {
            let m = ml.get(i);
            let surface = m.surface().to_string();
            MorphOut { b: m.begin(), e: m.end(), bc: m.begin_c(), ec: m.end_c(), surface }
        });
        match r {
            Ok(m) => out.push(m),
            Err(p) => {
                let p: String = p.chars().take(160).collect();
                return (out, Some(format!("morpheme {} of {}: begin/end/begin_c/end_c/surface panicked ({})", i, ml.len(), p)));
            }
        }
    }
    (out, None)
}

const TARGET_NAMES: [&str; 3] = ["fresh list", "empty_clone of the source", "list bound to another text"];

fn tokenize_c<'a>(dict: &'a JapaneseDictionary, text: &str) -> Option<MorphemeList<&'a JapaneseDictionary>> {
    catch(|| {
        let mut tok = StatefulTokenizer::new(dict, Mode::C);
        tok.reset().push_str(text);
        if tok.do_tokenize().is_err() {
            return None;
        }
        tok.into_morpheme_list().ok()
    })
    .ok()
    .flatten()
}

/// a target list of the given kind; Some(n) = it holds n morphemes of the other text that were not cleared
fn fill_target<'a>(dict: &'a JapaneseDictionary, src: &MorphemeList<&'a JapaneseDictionary>, kind: u8, other: &str, cleared: bool) -> Option<(MorphemeList<&'a JapaneseDictionary>, usize)> {
    match kind {
        0 => Some((MorphemeList::empty(dict), 0)),
        1 => Some((src.empty_clone(), 0)),
        _ => {
            let mut l = tokenize_c(dict, other)?;
            if cleared {
                l.clear();
            }
            let n = l.len();
            Some((l, n))
        }
    }
}

/// MorphemeList::{copy_slice, split_into, split, from_components, surface} with a target list that is fresh, an
/// empty_clone of the source, or a list that held (holds) the analysis of ANOTHER text: whatever lands in the target
/// belongs to the analysis of `text`: it must report exactly what the source list reports for it (copies), tile its parent
/// (splits), satisfy the C08 offset predicate and the C01 surface predicate against `text`, and the list must name `text`
/// as its text.
fn run_fill(sink: &mut Sink, dict: &JapaneseDictionary, t: &Text, other: &str, kind: u8, cleared: bool, st: &Stack, ds: &DictSpec, verbose: bool) {
    let (sj, dj) = conf_json(st, ds);
    let d = json!({"kind": "c01-fill", "text": t.json(), "other": other, "target": kind, "cleared": cleared, "stack": sj, "dict": dj});
    let text = t.expand();
    sink.tag("list_filling_case");
    sink.tag(&format!("fill_target={}", TARGET_NAMES[kind as usize]));
    let src = match tokenize_c(dict, &text) {
        Some(l) => l,
        None => {
            sink.tag("rejected_by_tokenizer");
            sink.case_rust_only(d, false);
            return;
        }
    };
    let (parents, ppanic) = read_morphs(&src);
    if ppanic.is_some() {
        // reported by the plain mode-C case of the same text
        sink.case_rust_only(d, false);
        return;
    }
    let n = parents.len();
    let mut groups: Vec<(usize, usize, Vec<MorphOut>)> = vec![];
    let failure: std::cell::RefCell<Option<String>> = std::cell::RefCell::new(None);
    let target_name = if kind == 2 { format!("{} ({:?}, {})", TARGET_NAMES[2], other, if cleared { "cleared" } else { "not cleared" }) } else { TARGET_NAMES[kind as usize].to_string() };
    // what came into the target must be the morphemes `want` of the source
    let check = |what: String, target: &MorphemeList<&JapaneseDictionary>, from: usize, want: Option<&[MorphOut]>, range: (usize, usize), groups: &mut Vec<(usize, usize, Vec<MorphOut>)>| {
        let (got, gpanic) = read_morphs_from(target, from);
        if verbose {
            println!("{} into a {}:", what, target_name);
            for m in &got {
                println!("    {}..{} (cp {}..{}) {:?}", m.b, m.e, m.bc, m.ec, m.surface);
            }
        }
        if let Some(gp) = gpanic {
            failure.borrow_mut().get_or_insert(format!("{} into a {}: the morphemes cannot be read back: {}", what, target_name, gp));
            return;
        }
        let mut bad = got.iter().enumerate().find_map(|(k, m)| oracle_morph(&text, k, m));
        if bad.is_none() {
            if let Some(w) = want {
                if w.len() != got.len() {
                    bad = Some(format!("{} morphemes arrived, {} were copied", got.len(), w.len()));
                } else {
                    bad = w.iter().zip(got.iter()).enumerate().find_map(|(k, (a, b))| {
                        if (a.b, a.e, a.bc, a.ec, &a.surface) != (b.b, b.e, b.bc, b.ec, &b.surface) {
                            Some(format!("morpheme {} is {}..{} (cp {}..{}) {:?} in the source list and {}..{} (cp {}..{}) {:?} in the target", k, a.b, a.e, a.bc, a.ec, a.surface, b.b, b.e, b.bc, b.ec, b.surface))
                        } else {
                            None
                        }
                    });
                }
            }
        }
        if bad.is_none() {
            let mut pos = range.0;
            for (k, m) in got.iter().enumerate() {
                if m.b != pos {
                    bad = Some(format!("morpheme {} begins at byte {} but the previous one ended at {}", k, m.b, pos));
                    break;
                }
                pos = m.e;
            }
            if bad.is_none() && pos != range.1 {
                bad = Some(format!("the last morpheme ends at byte {}, the covered range at {}", pos, range.1));
            }
        }
        if let Some(b) = bad {
            failure.borrow_mut().get_or_insert(format!("{} into a {}: {}", what, target_name, b));
        }
        let list_text = catch(|| target.surface().to_string());
        if list_text.as_deref() != Ok(text.as_str()) {
            failure.borrow_mut().get_or_insert(format!("{} into a {}: the list names {:?} as its text, the morphemes belong to {:?}", what, target_name, list_text.unwrap_or_default().chars().take(40).collect::<String>(), text.chars().take(40).collect::<String>()));
        }
        if !got.is_empty() {
            groups.push((range.0, range.1, got));
        }
    };
    // ---- copy_slice: the whole list, its first / last morpheme, its middle, an empty slice; then two pieces in a row
    let mut ranges = vec![(0, n)];
    if n > 1 {
        ranges.push((0, 1));
        ranges.push((n - 1, n));
    }
    if n > 2 {
        ranges.push((1, n - 1));
    }
    ranges.push((n / 2, n / 2));
    for (a, b) in ranges {
        let (mut target, keep) = match fill_target(dict, &src, kind, other, cleared) {
            Some(x) => x,
            None => continue,
        };
        if catch(|| src.copy_slice(a, b, &mut target)).is_err() {
            failure.borrow_mut().get_or_insert(format!("copy_slice({}, {}) of a list of {} morphemes panicked", a, b, n));
            continue;
        }
        if a < b {
            check(format!("copy_slice({}, {})", a, b), &target, keep, Some(&parents[a..b]), (parents[a].b, parents[b - 1].e), &mut groups);
            sink.tag("copy_slice_checked");
        }
    }
    if n > 1 {
        if let Some((mut target, keep)) = fill_target(dict, &src, kind, other, cleared) {
            if catch(|| {
                src.copy_slice(0, 1, &mut target);
                src.copy_slice(1, n, &mut target);
            })
            .is_ok()
            {
                check("copy_slice(0, 1) and copy_slice(1, n)".to_string(), &target, keep, Some(&parents[..]), (parents[0].b, parents[n - 1].e), &mut groups);
            }
        }
    }
    // ---- split_into / split: the sub-morphemes (or the unsplit morpheme itself) tile their parent
    for (i, p) in parents.iter().enumerate().take(6) {
        for mode in 0..2u8 {
            if let Some((mut target, keep)) = fill_target(dict, &src, kind, other, cleared) {
                match catch(|| src.split_into(mode_of(mode), i, &mut target)) {
                    Ok(Ok(true)) => {
                        check(format!("split_into({}, {})", MODE_NAMES[mode as usize], i), &target, keep, None, (p.b, p.e), &mut groups);
                        sink.tag("split_into_other_target_checked");
                    }
                    Ok(Ok(false)) => {
                        // what Python's Morpheme.split(add_single=True) does next
                        if catch(|| src.copy_slice(i, i + 1, &mut target)).is_ok() {
                            check(format!("split_into({}, {}) = false, then copy_slice({}, {})", MODE_NAMES[mode as usize], i, i, i + 1), &target, keep, Some(&parents[i..i + 1]), (p.b, p.e), &mut groups);
                        }
                    }
                    _ => sink.tag("split_into_panicked_or_failed(not C01/C08)"),
                }
            }
            if kind == 1 {
                #[allow(deprecated)]
                let r = catch(|| src.split(mode_of(mode), i));
                if let Ok(Ok(l)) = r {
                    check(format!("split({}, {})", MODE_NAMES[mode as usize], i), &l, 0, None, (p.b, p.e), &mut groups);
                    sink.tag("deprecated_split_checked");
                }
            }
        }
    }
    // ---- from_components: the parts swap_result hands out, put together again
    if kind == 0 {
        let l = catch(|| {
            let mut tok = StatefulTokenizer::new(dict, Mode::C);
            tok.reset().push_str(&text);
            if tok.do_tokenize().is_err() {
                return None;
            }
            let mut input = Default::default();
            let mut path = vec![];
            let mut sub = Default::default();
            tok.swap_result(&mut input, &mut path, &mut sub);
            Some(MorphemeList::from_components(dict, input, path, sub))
        });
        if let Ok(Some(l)) = l {
            if n > 0 {
                check("from_components(swap_result)".to_string(), &l, 0, Some(&parents[..]), (parents[0].b, parents[n - 1].e), &mut groups);
            }
        }
    }
    let failure = failure.borrow().clone();
    let f = if prop() == Prop::C08 { "check_c08_subs" } else { "check_c01_subs" };
    let term = format!("{} {} {}", f, cbytes(text.as_bytes()), clist(groups.iter().map(|(b, e, s)| format!("({}, {}, {})", cnu(*b), cnu(*e), morph_terms(s)))));
    let id = if text.len() > 3000 { sink.case_rust_only(d, false) } else { sink.case(term, d, kind == 2 && n > 1) };
    if verbose {
        println!("oracle     : {:?}", failure);
    }
    if let Some(w) = failure {
        sink.fail(id, &w, "");
    }
}

/// MorphemeList::lookup(query) on a fresh list, on an empty_clone of a list that holds another analysis, on that list
/// itself (cleared or not): every entry found is the whole query: 0..|query| in bytes and in code points, surface = query
fn run_lookup(sink: &mut Sink, dict: &JapaneseDictionary, query: &str, other: &str, kind: u8, cleared: bool, st: &Stack, ds: &DictSpec, verbose: bool) {
    let (sj, dj) = conf_json(st, ds);
    let d = json!({"kind": "c01-lookup", "text": query, "other": other, "target": kind, "cleared": cleared, "stack": sj, "dict": dj});
    sink.tag("list_lookup_case");
    sink.tag(&format!("lookup_target={}", TARGET_NAMES[kind as usize]));
    let holder = match tokenize_c(dict, other) {
        Some(l) => l,
        None => {
            sink.case_rust_only(d, false);
            return;
        }
    };
    let (mut target, keep) = match fill_target(dict, &holder, kind, other, cleared) {
        Some(x) => x,
        None => {
            sink.case_rust_only(d, false);
            return;
        }
    };
    let found = match catch(|| target.lookup(query, InfoSubset::all())) {
        Ok(Ok(k)) => k,
        _ => {
            sink.tag("lookup_failed_or_panicked(not C01/C08)");
            sink.case_rust_only(d, false);
            return;
        }
    };
    let (got, gpanic) = read_morphs_from(&target, keep);
    if verbose {
        println!("lookup({:?}) on a {} (other text {:?}, cleared {}): {} entries", query, TARGET_NAMES[kind as usize], other, cleared, found);
        for m in &got {
            println!("    {}..{} (cp {}..{}) {:?}", m.b, m.e, m.bc, m.ec, m.surface);
        }
    }
    let mut failure = gpanic.map(|p| format!("lookup({:?}): the entries cannot be read back: {}", query, p));
    if failure.is_none() && got.len() != found {
        failure = Some(format!("lookup({:?}) answered {} but {} morphemes were added", query, found, got.len()));
    }
    if failure.is_none() {
        failure = got.iter().enumerate().find_map(|(k, m)| {
            oracle_morph(query, k, m).or_else(|| if (m.b, m.e) != (0, query.len()) { Some(format!("entry {} spans {}..{}, the query is 0..{}", k, m.b, m.e, query.len())) } else { None })
        });
    }
    let f = if prop() == Prop::C08 { "check_c08_subs" } else { "check_c01_subs" };
    let term = format!("{} {} {}", f, cbytes(query.as_bytes()), clist(got.iter().map(|m| format!("({}, {}, {})", cnu(0), cnu(query.len()), morph_terms(std::slice::from_ref(m))))));
    let id = sink.case(term, d, !got.is_empty() && kind == 2);
    if !got.is_empty() {
        sink.tag("lookup_found_entries");
    }
    if verbose {
        println!("oracle     : {:?}", failure);
    }
    if let Some(w) = failure {
        sink.fail(id, &w, "");
    }
}

// ---------------------------------------------------------------- reuse of one tokenizer and one result list
/// what is done to the tokenizer before one input of a session
#[derive(Clone, Debug)]
struct Step {
    text: Text,
    mode: u8,
    /// Some(s): set_subset(s) is called as well, before (true) or after (false) set_mode
    subset: Option<(Option<u32>, bool)>,
    /// what happens to the result: 0 collect_results into the session's list; 1 nothing (analysed, never collected);
    /// 2 swap_result into fresh parts, put together with from_components; 3 into_morpheme_list (a new tokenizer follows)
    how: u8,
}
const HOW_NAMES: [&str; 4] = ["collect_results", "not collected", "swap_result + from_components", "into_morpheme_list"];
fn step_json(s: &Step) -> Value {
    json!({"text": s.text.json(), "mode": MODE_NAMES[s.mode as usize], "how": s.how,
           "subset": match &s.subset { None => Value::Null, Some((b, first)) => json!({"bits": subset_json(*b), "before_set_mode": first}) }})
}
fn step_from(v: &Value) -> Step {
    Step {
        text: Text::from_json(&v["text"]),
        mode: mode_from(&v["mode"]),
        subset: if v["subset"].is_null() { None } else { Some((subset_from(&v["subset"]["bits"]), v["subset"]["before_set_mode"].as_bool().unwrap_or(true))) },
        how: v["how"].as_u64().unwrap_or(0) as u8,
    }
}

/// One StatefulTokenizer and one MorphemeList are reused for a whole sequence of inputs
/// (set_mode / set_subset / reset / do_tokenize / collect_results, as the CLI and the Python binding with `out=` do);
/// inputs whose normalised form is empty and inputs beyond the length limits may come at any position; mode and field
/// subset may be switched between inputs, in either order.
/// Every step is a case of its own; its description holds the whole prefix of the session.
fn run_session(sink: &mut Sink, dict: &JapaneseDictionary, init_mode: u8, steps: &[Step], st: &Stack, ds: &DictSpec, verbose_last: bool) {
    let mut tok = StatefulTokenizer::new(dict, mode_of(init_mode));
    let mut list = MorphemeList::empty(dict);
    let mut other: Option<MorphemeList<&JapaneseDictionary>> = None;
    let mut collected_nonempty = 0usize;
    let (sj, dj) = conf_json(st, ds);
    // the session as the hand-over model sees it (Model/TokResult.v): per round what a FRESH tokenizer reports for the text,
    // (outcome, how the result was taken), what the session delivered
    let mut hand_refs: Vec<String> = vec![];
    let mut hand_rounds: Vec<String> = vec![];
    let mut hand_obs: Vec<String> = vec![];
    let mut hand_ok = true;
    let spans = |ms: &[MorphOut]| clist(ms.iter().map(|m| format!("({}, {})", cnu(m.b), cnu(m.e))));
    for k in 0..steps.len() {
        let step = &steps[k];
        let text = step.text.expand();
        let verbose = verbose_last && k + 1 == steps.len();
        let d = json!({"kind": "c01-session", "init_mode": MODE_NAMES[init_mode as usize],
                       "steps": steps[..=k].iter().map(step_json).collect::<Vec<_>>(), "stack": sj, "dict": dj});
        sink.tag("session_step");
        if step.subset.is_some() {
            sink.tag("session_step_switches_field_subset");
        }
        sink.tag(&format!("session_step_result={}", HOW_NAMES[step.how as usize % 4]));
        if k > 0 && steps[k - 1].how == 1 && step.how != 1 {
            sink.tag("session_step_after_an_uncollected_analysis");
        }
        other = None;
        let r = catch(|| {
            match &step.subset {
                None => {
                    tok.set_mode(mode_of(step.mode));
                }
                Some((b, true)) => {
                    tok.set_subset(b.map(InfoSubset::from_bits_truncate).unwrap_or_else(InfoSubset::all));
                    tok.set_mode(mode_of(step.mode));
                }
                Some((b, false)) => {
                    tok.set_mode(mode_of(step.mode));
                    tok.set_subset(b.map(InfoSubset::from_bits_truncate).unwrap_or_else(InfoSubset::all));
                }
            }
            tok.reset().push_str(&text);
            if tok.do_tokenize().is_err() {
                return None;
            }
            let (cur, m2o) = dump_input(&tok);
            match step.how {
                0 => {
                    if list.collect_results(&mut tok).is_err() {
                        return None;
                    }
                }
                1 => {}
                2 => {
                    let mut input = Default::default();
                    let mut path = vec![];
                    let mut sub = Default::default();
                    tok.swap_result(&mut input, &mut path, &mut sub);
                    other = Some(MorphemeList::from_components(dict, input, path, sub));
                }
                _ => {
                    let done = std::mem::replace(&mut tok, StatefulTokenizer::new(dict, mode_of(step.mode)));
                    match done.into_morpheme_list() {
                        Ok(l) => other = Some(l),
                        Err(_) => return None,
                    }
                }
            }
            Some((cur, m2o))
        });
        match r {
            Err(p) => {
                if verbose {
                    println!("analysis panicked: {}", p);
                }
                // a panic of analysis as such is C03's subject -- unless a FRESH tokenizer analyses the same text: then the
                // reused one lost this text because of what was done with it before
                let fresh = catch(|| {
                    let mut t2 = StatefulTokenizer::new(dict, mode_of(step.mode));
                    t2.reset().push_str(&text);
                    t2.do_tokenize().is_ok()
                });
                let id = sink.case_rust_only(d, false);
                if fresh == Ok(true) && k > 0 {
                    let p: String = p.chars().take(160).collect();
                    sink.fail(id, &format!("a fresh tokenizer analyses this text, the reused one panicked ({}): no morphemes for it", p), "");
                } else {
                    sink.tag("analysis_panicked(not C01/C08)");
                }
                return; // the state of tokenizer and list after a panic is nobody's contract
            }
            Ok(None) => {
                if verbose {
                    println!("tokenization rejected the input ({} bytes)", text.len());
                }
                sink.tag("rejected_by_tokenizer");
                sink.case_rust_only(d, false);
                hand_refs.push(format!("({}, [])", cnu(k)));
                hand_rounds.push("(2%N, 1%N)".to_string());
                hand_obs.push("None".to_string());
            }
            Ok(Some((cur, _))) if step.how == 1 => {
                // analysed and left alone: nothing is reported, nothing to check (the next collected step is the test)
                sink.case_rust_only(d, false);
                hand_refs.push(format!("({}, [])", cnu(k)));
                hand_rounds.push(format!("({}, 1%N)", cn(if cur.is_empty() { 1u32 } else { 0 })));
                hand_obs.push("None".to_string());
            }
            Ok(Some((cur, m2o))) => {
                let (morphs, accessor_panic) = read_morphs(other.as_ref().unwrap_or(&list));
                // what a fresh tokenizer in the same mode reports for this text
                if text.len() > 3000 || accessor_panic.is_some() {
                    hand_ok = false;
                } else {
                    let fresh = catch(|| {
                        // same configuration history (set_mode / set_subset calls since the tokenizer was created), no analyses
                        let from = (0..k).rev().find(|j| steps[*j].how == 3);
                        let mut t2 = StatefulTokenizer::new(dict, mode_of(from.map_or(init_mode, |j| steps[j].mode)));
                        for sj in &steps[from.map_or(0, |j| j + 1)..=k] {
                            match &sj.subset {
                                None => {
                                    t2.set_mode(mode_of(sj.mode));
                                }
                                Some((b, true)) => {
                                    t2.set_subset(b.map(InfoSubset::from_bits_truncate).unwrap_or_else(InfoSubset::all));
                                    t2.set_mode(mode_of(sj.mode));
                                }
                                Some((b, false)) => {
                                    t2.set_mode(mode_of(sj.mode));
                                    t2.set_subset(b.map(InfoSubset::from_bits_truncate).unwrap_or_else(InfoSubset::all));
                                }
                            }
                        }
                        t2.reset().push_str(&text);
                        t2.do_tokenize().ok()?;
                        let l = t2.into_morpheme_list().ok()?;
                        let (ms, p) = read_morphs(&l);
                        if p.is_some() { None } else { Some(ms) }
                    });
                    match fresh {
                        Ok(Some(ms)) => {
                            hand_refs.push(format!("({}, {})", cnu(k), spans(&ms)));
                            hand_rounds.push(format!("({}, {})", cn(if cur.is_empty() { 1u32 } else { 0 }), cn(step.how as u32)));
                            hand_obs.push(format!("(Some {})", spans(&morphs)));
                        }
                        _ => hand_ok = false,
                    }
                }
                if cur.is_empty() {
                    sink.tag(&format!("session_empty_after_{}_nonempty", usize::min(collected_nonempty, 3)));
                } else {
                    collected_nonempty += 1;
                }
                let a = Analysis { cur, m2o, nodes: None, morphs, accessor_panic };
                record(sink, &text, &a, d, verbose);
            }
        }
    }
    if hand_ok && !steps.is_empty() {
        let d = json!({"kind": "c01-session", "init_mode": MODE_NAMES[init_mode as usize],
                       "steps": steps.iter().map(step_json).collect::<Vec<_>>(), "stack": sj, "dict": dj});
        let term = format!("check_result_session {} {} {}", clist(hand_refs), clist(hand_rounds), clist(hand_obs));
        sink.tag("result_hand_over_model_case");
        sink.case(term, d, steps.iter().any(|s| s.how != 0) && steps.len() > 1);
    }
}

/// texts in which (almost) every segment is rewritten by some input-text plugin, with separators that make morphemes
/// begin exactly at rewritten segments: with two or more plugins configured, later edits land behind length-changing
/// earlier ones whatever the order of the plugins is
const BY_DEFAULT: [&str; 14] = ["ＡＢＣ", "㈱", "㌔", "ｶﾞ", "１２３", "\u{FDFA}", "ＡＢ", "Ⅲ", "ABC", "㍿", "ｱﾊﾟｰﾄ", "½", "ﬁ", "か\u{3099}"];
const BY_PSM: [&str; 9] = ["ーー", "ーーー", "〜〜", "--", "ー〜〰", "あーー", "すごーーい", "スーーパー", "-ー"];
const BY_YOMI: [&str; 5] = ["漢字(かんじ)", "東京（とうきょう）", "都(と)", "大学（だいがく）", "京都(きょう)"];
const SEPARATORS: [&str; 9] = ["、", "。", " ", "に", "東京", "は", "X", "", ""];

fn gen_dense(rng: &mut Rng, words: &[String]) -> String {
    let n = 2 + rng.below(5);
    let mut s = String::new();
    for i in 0..n {
        if i > 0 {
            s.push_str(*rng.pick(&SEPARATORS));
        }
        match rng.below(7) {
            0 | 1 => s.push_str(*rng.pick(&BY_DEFAULT)),
            2 | 3 => s.push_str(*rng.pick(&BY_PSM)),
            4 | 5 => s.push_str(*rng.pick(&BY_YOMI)),
            _ => s.push_str(rng.pick(words).as_str()),
        }
    }
    s
}

fn gen_stack(rng: &mut Rng) -> Stack {
    let mut input = vec![];
    for k in 0..3u8 {
        if rng.chance(2, 3) {
            input.push(k);
        }
    }
    if rng.chance(1, 5) {
        input.reverse();
    }
    Stack { input, oov: rng.below(3) as u8, rewrite: rng.below(5) as u8 }
}

/// inputs around the two length limits (49 149 bytes of input, 65 535 bytes of rewritten text): a run of a character
/// that an input-text plugin expands, of a length drawn around / far beyond what still fits, optionally preceded and
/// followed by ordinary text, so that the limit is crossed by the last edit, in the middle of the edits, or not at all.
/// Every such input must be rejected, or accepted and partitioned.
fn gen_limit_text(rng: &mut Rng) -> Text {
    if rng.chance(1, 2) {
        return gen_plain_limit_text(rng);
    }
    if rng.chance(1, 3) {
        return gen_char_limit_text(rng);
    }
    // (character, bytes before, bytes after NFKC)
    let (c, before, after) = *rng.pick(&[("㍿", 3usize, 12usize), ("㌀", 3, 12), ("\u{FDFA}", 3, 33), ("㈱", 3, 5)]);
    let fits_out = 65535 / after;
    let fits_in = 49149 / before;
    let k = match rng.below(6) {
        0 => fits_out,
        1 => fits_out + 1,
        2 => fits_out.saturating_sub(rng.below(40) as usize),
        3 => fits_out + 1 + rng.below(300) as usize,
        4 => fits_in,
        _ => fits_out + rng.below((fits_in.saturating_sub(fits_out) + 1) as u64) as usize,
    };
    let k = usize::min(k, fits_in + 1);
    let mut parts = vec![];
    if rng.chance(1, 3) {
        parts.push(((*rng.pick(&["東京都に行った", "ＡＢＣ", "京都"])).to_string(), 1));
    }
    parts.push((c.to_string(), k));
    if rng.chance(1, 2) {
        parts.push(((*rng.pick(&["京都に行く", "ーー", "１２", "。"])).to_string(), 1 + rng.below(3) as usize));
    }
    Text(parts)
}

/// texts within the input limit whose NORMALISED form comes close to / crosses 65535 bytes through a mixture of
/// one character -> one (multi-byte) character rewrites (half-width katakana, upper-case Greek / Cyrillic / Latin-1,
/// full-width letters: InputEditor::replace_char*) and expanding ones (㍿, ㌀, ㈱), interleaved in groups, optionally with
/// an untouched character in every group: the size of the rewritten text must be accounted in bytes whatever kind of
/// replacement produced them
fn gen_char_limit_text(rng: &mut Rng) -> Text {
    // (text, bytes before, bytes after)
    let (c, cb, ca) = *rng.pick(&[("ｱ", 3usize, 3usize), ("Ω", 2, 2), ("Я", 2, 2), ("É", 2, 2), ("Ａ", 3, 1), ("ｶ", 3, 3), ("Ⱥ", 2, 3)]);
    let (e, eb, ea) = *rng.pick(&[("㍿", 3usize, 12usize), ("㌀", 3, 12), ("㈱", 3, 5), ("\u{FDFA}", 3, 33)]);
    let (p, pb) = *rng.pick(&[("", 0usize), ("漢", 3), ("に", 3), ("x", 1)]);
    let a = 1 + rng.below(3) as usize;
    let group = format!("{}{}{}", c.repeat(a), e, p);
    let (gin, gout) = (a * cb + eb + pb, a * ca + ea + pb);
    let fits_in = 49149 / gin;
    let above = 65535 / gout + 1;
    let k = match rng.below(5) {
        0 => above - 1,
        1 => above,
        2 => above + rng.below(60) as usize,
        3 => fits_in,
        _ => above + rng.below((fits_in.saturating_sub(above) + 1) as u64) as usize,
    };
    let k = usize::min(k, fits_in);
    let mut parts = vec![];
    if rng.chance(1, 3) {
        parts.push(((*rng.pick(&["東京都に行った", "京都"])).to_string(), 1));
    }
    parts.push((group, k));
    if rng.chance(1, 2) {
        parts.push(((*rng.pick(&["京都に行く", "東京都", "。"])).to_string(), 1));
    }
    Text(parts)
}

/// texts that NO input-text plugin edits (runs of one plain 1/2/3/4-byte character, optionally with ordinary words around),
/// with byte lengths just below / at / just above the input limit (49149), around 65535 (where u16 byte offsets end) and
/// far above, while the number of CHARACTERS may still be small: limits counted in the wrong unit show up here
fn gen_plain_limit_text(rng: &mut Rng) -> Text {
    let (c, w) = *rng.pick(&[("あ", 3usize), ("漢", 3), ("ア", 3), ("😀", 4), ("𠮷", 4), ("é", 2), ("a", 1)]);
    let bytes = match rng.below(8) {
        0 => 49149 - rng.below(8) as usize,
        1 => 49150 + rng.below(3) as usize,
        2 => 49152 + rng.below(400) as usize,
        3 => 65535 - rng.below(8) as usize,
        4 => 65536 + rng.below(8) as usize,
        5 => 65536 + rng.below(3000) as usize,
        6 => 65536 + rng.below(81000) as usize, // up to 49149 three-byte characters
        _ => 49149 * w - rng.below(5) as usize * w, // about 49149 CHARACTERS
    };
    let k = (bytes + w - 1) / w;
    let mut parts = vec![];
    if rng.chance(1, 3) {
        parts.push(((*rng.pick(&["東京都に行った", "京都"])).to_string(), 1));
    }
    parts.push((c.to_string(), k));
    if rng.chance(1, 2) {
        parts.push(((*rng.pick(&["京都に行く", "東京都", "に"])).to_string(), 1 + rng.below(3) as usize));
    }
    Text(parts)
}

fn sink_rule() -> &'static str {
    "real tokenizer (StatefulTokenizer) x plugin stacks {any sub-sequence / some reorderings of NFKC+lower-casing+rewrite table, prolonged-sound-mark collapsing, yomigana deletion} x OOV {simple; mecab+simple; mecab+regex+simple} x path rewriting {none, numeric, katakana, both} x dictionaries {shipped system+user; generated system; generated system + generated user dictionary referring to it; generated entries may have a display form that differs from their key, and A/B split declarations that spell the word exactly, spell only a prefix of it, or name a unit of another length (all cuts on character boundaries)} x modes A/B/C x requested field subsets {all, POS only, none, random} x inputs mixing dictionary words, NFKC-expanding characters (U+FDFA, ㍿, ㌔, half-width kana + marks), yomigana brackets, prolonged marks, numerals, katakana, combining marks, 4-byte characters, empty input. Every case: the path in rewritten-text coordinates, the offset map and everything Morpheme reports. Further classes: texts in which almost every segment is rewritten by some input-text plugin (later plugins edit behind length-changing earlier ones); on-demand Morpheme::split_into of every morpheme of a mode-C result; sessions of 3..8 inputs (1/4 empty, optional switches of mode and field subset in either order, occasionally an input beyond the limits) on ONE tokenizer and ONE MorphemeList through collect_results; inputs around the 49149 / 65535 byte limits (rejected, or accepted and checked). A panic of begin/end/begin_c/end_c/surface after a successful tokenization counts as a failure. END-TO-END stream (C01): the composed Gallina tokenizer (Model/Tokenizer.v tokenize_model: plugins -> lattice from dictionary lookup + OOV providers -> Viterbi -> path rewriting -> split -> Morpheme accessors) is run on the same dictionary bytes / word tables / character classes / matrix / settings for small generated dictionaries (system, sometimes + user), texts <= 12 characters, plugins {none, PSM}, OOV {simple, mecab+simple}, all rewrite configurations, modes A/B/C, and must report the same byte ranges and word ids. non-trivial = offset map is not the identity and more than one morpheme, distinct Coq term"
}

fn replay(sink: &mut Sink, p: &std::path::Path) {
    let v: Value = serde_json::from_str(&std::fs::read_to_string(p).unwrap()).unwrap();
    let c = &v["case"];
    if c["kind"] == "c01-e2e" {
        let st = Stack {
            input: c["stack"]["input"].as_array().unwrap().iter().map(|x| x.as_u64().unwrap() as u8).collect(),
            oov: c["stack"]["oov"].as_u64().unwrap() as u8,
            rewrite: c["stack"]["rewrite"].as_u64().unwrap() as u8,
        };
        let csv = c["csv"].as_str().unwrap();
        let ucsv = c["user_csv"].as_str();
        println!("system dictionary rows:\n{}", csv);
        if let Some(u) = ucsv {
            println!("user dictionary rows:\n{}", u);
        }
        println!("configuration: {}", stack_json(&st));
        let (dict, lex_hex, nwords) = e2e_dict(csv, ucsv, &st).expect("dictionary");
        let text = c["text"].as_str().unwrap();
        let mode = mode_from(&c["mode"]);
        e2e_case(sink, &dict, &lex_hex, &nwords, &st, text, mode, e2e_desc(csv, ucsv, &st, text, mode), true);
        return;
    }
    let st = Stack {
        input: c["stack"]["input"].as_array().unwrap().iter().map(|x| x.as_u64().unwrap() as u8).collect(),
        oov: c["stack"]["oov"].as_u64().unwrap() as u8,
        rewrite: c["stack"]["rewrite"].as_u64().unwrap() as u8,
    };
    let ds = DictSpec { kind: c["dict"]["kind"].as_u64().unwrap() as u8, seed: c["dict"]["seed"].as_str().unwrap().parse().unwrap() };
    let bd = build_dict(&ds).expect("dictionary");
    let dict = load(&bd, &st).expect("load");
    println!("configuration: {}", stack_json(&st));
    println!("dictionary   : {:?} (split-declaration flavours {:?})", ds, bd.flavours);
    match c["kind"].as_str().unwrap_or("c01") {
        "c01-session" => {
            let steps: Vec<Step> = c["steps"].as_array().unwrap().iter().map(step_from).collect();
            println!("session on one tokenizer (created in mode {}) and one result list:", c["init_mode"]);
            for s in &steps {
                println!("  {}", step_json(s));
            }
            println!("the last step:");
            run_session(sink, &dict, mode_from(&c["init_mode"]), &steps, &st, &ds, true);
        }
        "c01-split" => run_split(sink, &dict, &Text::from_json(&c["text"]), subset_from(&c["subset"]), &st, &ds, true),
        "c01-fill" => run_fill(sink, &dict, &Text::from_json(&c["text"]), c["other"].as_str().unwrap_or(""), c["target"].as_u64().unwrap_or(0) as u8, c["cleared"].as_bool().unwrap_or(true), &st, &ds, true),
        "c01-lookup" => run_lookup(sink, &dict, c["text"].as_str().unwrap_or(""), c["other"].as_str().unwrap_or(""), c["target"].as_u64().unwrap_or(0) as u8, c["cleared"].as_bool().unwrap_or(true), &st, &ds, true),
        _ => {
            println!("mode {} field subset {}", c["mode"], c["subset"]);
            run_one(sink, &dict, &Text::from_json(&c["text"]), mode_from(&c["mode"]), subset_from(&c["subset"]), &st, &ds, true);
        }
    }
}

fn is_py_case(p: &std::path::Path) -> bool {
    std::fs::read_to_string(p).ok().and_then(|s| serde_json::from_str::<Value>(&s).ok()).map(|v| v["case"]["kind"] == "py-partition").unwrap_or(false)
}

pub fn is_pipeline_case(p: &std::path::Path) -> bool {
    std::fs::read_to_string(p).ok().and_then(|s| serde_json::from_str::<Value>(&s).ok()).map_or(false, |v| v["case"]["kind"].as_str().map_or(false, |k| k.starts_with("c01")))
}

/// replay of a pipeline case on behalf of `which`
pub fn replay_for(which: Prop, sink: &mut Sink, p: &std::path::Path) {
    PROP.with(|x| x.set(which));
    replay(sink, p);
}

/// the pipeline stream: directed cases, limits, random configurations x texts x modes x subsets, on-demand splits, sessions
pub fn pipeline(which: Prop, sink: &mut Sink, args: &Args, rng: &mut Rng) {
    PROP.with(|x| x.set(which));
    let mut built: HashMap<(u8, u64), BuiltDict> = HashMap::new();
    // directed cases on the shipped configuration first
    let full = Stack { input: vec![0, 1, 2], oov: 1, rewrite: 4 };
    let ds0 = DictSpec { kind: 0, seed: 0 };
    built.insert((0, 0), build_dict(&ds0).expect("shipped dictionaries"));
    {
        let dict = load(&built[&(0, 0)], &full).expect("shipped configuration loads");
        let directed = [
            "", "東京都", "京都東京都京都", "東京都に行った", "ｱｲｱｲｳ", "東京（とうきょう）都", "漢字(かんじ)に", "あーーーーに", "㍿東京", "\u{FDFA}京都", "１，０００に", "六三四",
            "特A", "な。な", "アイアイウ", "東京府", "ぴらる", "ＡＢ", "か\u{3099}", "東京(と)(と)都", "(と)", "ーー", "東京ーーー都〜〜", "1.5.2", "二〇二四", " ", "　 　",
            "ｶﾞｷﾞｸﾞ東京都", "東京都(とうきょうと)に行く",
        ];
        for t in directed {
            for mode in 0..3 {
                run_one(sink, &dict, &Text::plain(t), mode, None, &full, &ds0, false);
                sink.tag("directed");
            }
            run_split(sink, &dict, &Text::plain(t), None, &full, &ds0, false);
        }
        for t in ["東京都", "京都東京都京都", "東京府に"] {
            for subset in [Some(InfoSubset::POS_ID.bits()), Some(0)] {
                for mode in 0..3 {
                    run_one(sink, &dict, &Text::plain(t), mode, subset, &full, &ds0, false);
                }
                run_split(sink, &dict, &Text::plain(t), subset, &full, &ds0, false);
                sink.tag("directed");
            }
        }
        // reuse sessions: empty inputs first, in the middle, repeated, last
        for (texts, mode) in [
            (vec!["", "京都", ""], 2u8),
            (vec!["京都", "東京都に行った", "", "", "京都"], 2),
            (vec!["東京都に行った", "京都にいく", "", "東京に行く", " ", "", "京都"], 0),
            (vec!["ＡＢ東京都（と）にすごーーい", "", "東京都", ""], 1),
        ] {
            let steps: Vec<Step> = texts.iter().map(|s| Step { text: Text::plain(s), mode, subset: None, how: 0 }).collect();
            run_session(sink, &dict, mode, &steps, &full, &ds0, false);
            sink.tag("directed");
        }
        // analyses that are never collected (one, two in a row, of a longer / shorter / rewritten / empty text), followed by
        // an analysis whose result is taken with collect_results, swap_result + from_components or into_morpheme_list
        for how_last in [0u8, 2, 3] {
            for (texts, hows) in [
                (vec!["東京都に行く", "東京"], vec![1u8, how_last]),
                (vec!["東京", "東京都に行く"], vec![1, how_last]),
                (vec!["京都", "ＡＢ東京都（と）にすごーーい", "", "東京都"], vec![0, 1, 1, how_last]),
                (vec!["東京都に行った", "京都", "東京都", "abc"], vec![1, how_last, 1, how_last]),
                (vec!["abc", "", "東京都"], vec![how_last, 1, how_last]),
                (vec!["abc", "東京都に行く"], vec![1, how_last]),
                (vec!["ab", "ＡＢ東京都（と）にすごーーい"], vec![1, how_last]),
                (vec!["x京", "", "東京都に行く"], vec![1, 1, how_last]),
            ] {
                for mode in [2u8, 0] {
                    let steps: Vec<Step> = texts.iter().zip(hows.iter()).map(|(s, h)| Step { text: Text::plain(s), mode, subset: None, how: *h }).collect();
                    run_session(sink, &dict, mode, &steps, &full, &ds0, false);
                    sink.tag("directed");
                }
            }
        }
        // special first characters (byte order mark, zero-width / no-break / ideographic space, combining mark, NUL, 4-byte
        // character): alone, in front of ordinary text, in front of text the plugins rewrite -- with the full plugin stack,
        // with no input-text plugin at all, and on a reused tokenizer
        let bare = Stack { input: vec![], oov: 0, rewrite: 0 };
        let dict_bare = load(&built[&(0, 0)], &bare).expect("bare configuration loads");
        for f in crate::c08::FIRST_CHARS {
            let texts = [f.to_string(), format!("{}東京都に行く", f), format!("{}東京Ｔ", f), format!("{}{}京都", f, f), format!("{}ＡＢ東京都（と）にすごーーい", f)];
            for t in &texts {
                for mode in 0..3 {
                    run_one(sink, &dict, &Text::plain(t), mode, None, &full, &ds0, false);
                    sink.tag("directed");
                    sink.tag("special_first_character");
                    run_one(sink, &dict_bare, &Text::plain(t), mode, None, &bare, &ds0, false);
                    sink.tag("directed");
                    sink.tag("special_first_character");
                }
            }
            run_split(sink, &dict, &Text::plain(&texts[1]), None, &full, &ds0, false);
            let steps: Vec<Step> = ["京都", texts[1].as_str(), "", texts[2].as_str(), texts[0].as_str(), "東京都"]
                .iter()
                .map(|s| Step { text: Text::plain(s), mode: 2, subset: None, how: 0 })
                .collect();
            run_session(sink, &dict, 2, &steps, &full, &ds0, false);
            sink.tag("directed");
            sink.tag("special_first_character");
            run_session(sink, &dict_bare, 2, &steps, &bare, &ds0, false);
            sink.tag("directed");
            sink.tag("special_first_character");
        }
        // the other public ways of filling a MorphemeList (copy_slice, split_into / split with any target, from_components,
        // lookup): targets that are fresh, an empty_clone of the source, or a list that held the analysis of another text
        // with a different byte / character layout (plain ASCII, full-width text the plugins rewrite, empty), cleared or not
        for (t, other) in [
            ("東京都に行く", "abcdefghijklmnopqrstuvwxyz"),
            ("a東京都に", "ＡＢＣＤ東京都"),
            ("京都東京都京都", "ＡＢ東京都（と）にすごーーい"),
            ("ｶﾞｷﾞ東京都ーーに行く", "x京都"),
            ("abc", "東京都に行く"),
            ("東京都", ""),
        ] {
            for (d, s) in [(&dict, &full), (&dict_bare, &bare)] {
                for kind in 0..3u8 {
                    for cleared in [true, false] {
                        if kind != 2 && !cleared {
                            continue;
                        }
                        run_fill(sink, d, &Text::plain(t), other, kind, cleared, s, &ds0, false);
                        sink.tag("directed");
                    }
                }
            }
        }
        for (q, other) in [("東京都", "abcdefghijklmnopqrstuvwxyz"), ("京都", "ＡＢＣＤ東京都"), ("東京", ""), ("ない語", "東京都に行く"), ("", "京都")] {
            for kind in 0..3u8 {
                for cleared in [true, false] {
                    if kind != 2 && !cleared {
                        continue;
                    }
                    run_lookup(sink, &dict, q, other, kind, cleared, &full, &ds0, false);
                    sink.tag("directed");
                }
            }
        }
        // every run, both properties: inputs within the input limit whose normalised form is just below / just above / far
        // above 65535 bytes, the growth coming from expanding rewrites interleaved with one character -> one multi-byte
        // character rewrites (must be rejected, or accepted and reported with offsets that describe the text)
        for (g, k) in [("ｱ㍿漢", 3640usize), ("ｱ㍿漢", 3641), ("ｱ㍿漢", 3900), ("Ω㍿", 4800), ("Я㍿京", 3900), ("ｱｱｱ㍿", 3500), ("É㌀に", 4000), ("ｶﾞ㍿", 3700)] {
            let t = Text(vec![(g.to_string(), k), ("京都".to_string(), 1)]);
            run_one(sink, &dict, &t, 2, None, &full, &ds0, false);
            sink.tag("directed");
            sink.tag("around_the_length_limits");
            sink.tag("normalised_size_through_char_replacements");
        }
        {
            let steps: Vec<Step> = vec![Text::plain("東京都"), Text(vec![("ｱ㍿漢".to_string(), 3900)]), Text::plain("京都に行った")]
                .into_iter()
                .map(|text| Step { text, mode: 0, subset: None, how: 0 })
                .collect();
            run_session(sink, &dict, 0, &steps, &full, &ds0, false);
            sink.tag("around_the_length_limits");
        }
        // the two length limits
        if which == Prop::C01 {
            // with the full plugin stack and with no input-text plugin at all
            for k in 0..args.n(20, 80) {
                let t = gen_limit_text(rng);
                let mode = rng.below(3) as u8;
                if k % 2 == 0 {
                    run_one(sink, &dict, &t, mode, None, &full, &ds0, false);
                } else {
                    run_one(sink, &dict_bare, &t, mode, None, &bare, &ds0, false);
                }
                sink.tag("around_the_length_limits");
            }
            // every run: un-edited runs of a 2/3/4-byte character just above 65535 bytes, in the middle between that and
            // 49149 characters, and of exactly 49149 characters -- with and without input-text plugins
            for (c, w) in [("あ", 3usize), ("😀", 4), ("é", 2), ("漢", 3)] {
                for k in [65536 / w + 1, (65536 / w + 49149) / 2, 49149] {
                    let t = Text(vec![(c.to_string(), k), ("京都".to_string(), 1)]);
                    run_one(sink, &dict_bare, &t, 2, None, &bare, &ds0, false);
                    sink.tag("around_the_length_limits");
                }
                let t = Text(vec![("東京都".to_string(), 1), (c.to_string(), 65536 / w + 7)]);
                run_one(sink, &dict, &t, 0, None, &full, &ds0, false);
                sink.tag("around_the_length_limits");
            }
            // ... and inside a session: the tokenizer must stay usable and must not hand out a truncated analysis
            for _ in 0..args.n(2, 8) {
                let mode = rng.below(3) as u8;
                let steps: Vec<Step> = vec![Text::plain("東京都"), gen_limit_text(rng), Text::plain("京都に行った"), gen_limit_text(rng), Text::plain("ＡＢＣ")]
                    .into_iter()
                    .map(|text| Step { text, mode, subset: None, how: 0 })
                    .collect();
                run_session(sink, &dict, mode, &steps, &full, &ds0, false);
                sink.tag("around_the_length_limits");
            }
        }
    }
    let nconf = if which == Prop::C01 { args.n(60, 600) } else { args.n(40, 400) };
    let per = if which == Prop::C01 { args.n(10, 30) } else { args.n(8, 30) };
    for _ in 0..nconf {
        let st = gen_stack(rng);
        let ds = DictSpec { kind: rng.below(3) as u8, seed: if rng.chance(1, 2) { 1 + rng.below(4) } else { rng.next() >> 8 } };
        let ds = if ds.kind == 0 { ds0.clone() } else { ds };
        let key = (ds.kind, ds.seed);
        if !built.contains_key(&key) {
            match build_dict(&ds) {
                Ok(b) => {
                    built.insert(key, b);
                }
                Err(e) => {
                    // a generated dictionary that does not compile is outside C01 (C06); counted only
                    sink.tag("generated_dictionary_rejected");
                    eprintln!("dictionary {:?} not built: {}", ds, e);
                    continue;
                }
            }
        }
        let bd = &built[&key];
        let dict = match load(bd, &st) {
            Ok(d) => d,
            Err(e) => {
                sink.tag("configuration_rejected");
                eprintln!("configuration {:?} not loaded: {}", st, e);
                continue;
            }
        };
        sink.tag(&format!("dict_kind={}", ds.kind));
        for f in &bd.flavours {
            sink.tag(&format!("dict_has_{}", f));
        }
        sink.tag(&format!("input_plugins={:?}", st.input));
        sink.tag(&format!("oov={} rewrite={}", st.oov, st.rewrite));
        for _ in 0..per {
            let text = Text::plain(&gen_text(rng, &bd.words));
            let subset = gen_subset(rng);
            let counts: Vec<usize> = (0..3).map(|mode| run_one(sink, &dict, &text, mode, subset, &st, &ds, false)).collect();
            if counts[0] > counts[2] {
                sink.tag("mode_A_splits_further_than_C");
            }
            if counts[1] > counts[2] {
                sink.tag("mode_B_splits_further_than_C");
            }
            run_split(sink, &dict, &text, subset, &st, &ds, false);
            if rng.chance(1, 3) {
                let other = gen_text(rng, &bd.words);
                let kind = rng.below(3) as u8;
                let cleared = rng.chance(1, 2) || kind != 2;
                run_fill(sink, &dict, &text, &other, kind, cleared, &st, &ds, false);
                if rng.chance(1, 2) {
                    run_lookup(sink, &dict, rng.pick(&bd.words).as_str(), &other, kind, cleared, &st, &ds, false);
                }
            }
        }
        // sessions on one tokenizer + one result list
        for _ in 0..args.n(2, 6) {
            let n = 3 + rng.below(6) as usize;
            let m0 = rng.below(3) as u8;
            let switch = rng.chance(1, 4);
            let subsets = rng.chance(1, 3);
            let steps: Vec<Step> = (0..n)
                .map(|_| Step {
                    text: match rng.below(8) {
                        0 | 1 => Text::plain(""),
                        2 => Text::plain(&gen_dense(rng, &bd.words)),
                        _ => Text::plain(&gen_text(rng, &bd.words)),
                    },
                    mode: if switch { rng.below(3) as u8 } else { m0 },
                    subset: if subsets && rng.chance(1, 2) { Some((gen_subset(rng), rng.chance(1, 2))) } else { None },
                    how: match rng.below(10) {
                        0..=5 => 0,
                        6 | 7 => 1,
                        8 => 2,
                        _ => 3,
                    },
                })
                .collect();
            let init = if rng.chance(1, 3) { rng.below(3) as u8 } else { steps[0].mode };
            run_session(sink, &dict, init, &steps, &st, &ds, false);
        }
    }
}

pub fn run(args: &Args) {
    let mut sink = Sink::new("C01", &args.out, &["Model.Buffer", "Model.Tokenizer", "Model.TokResult"], args.seed, &args.tier);
    sink.rule(sink_rule());
    if let Some(p) = &args.replay {
        if is_py_case(p) {
            let mut rng = Rng::new(args.seed);
            crate::c01py::run(&mut sink, args, &mut rng);
        } else {
            replay_for(Prop::C01, &mut sink, p);
        }
        sink.finish();
        return;
    }
    let mut rng = Rng::new(args.seed);
    pipeline(Prop::C01, &mut sink, args, &mut rng);
    e2e_stream(&mut sink, args, &mut rng);
    crate::c01py::run(&mut sink, args, &mut rng);
    sink.finish();
}

// ================================================================== end-to-end correspondence (Model/Tokenizer.v)
// The composed Gallina model `tokenize_model` is run on the same dictionary bytes (trie + word-id table sections),
// word parameters / word infos, character classes, connection matrix and plugin settings as the real tokenizer and must
// answer with the same morphemes.  Scope: small generated dictionaries (system, optionally + user), texts of at most 12
// characters, input-text plugins {none, prolonged-sound-mark collapsing, DefaultInputTextPlugin, both}, OOV {simple;
// mecab + simple}, every path-rewrite configuration, modes A/B/C.  For DefaultInputTextPlugin the Unicode oracle values
// (std case mapping, unicode-normalization) of the characters of the case's text are shipped with the case, as C07's own
// cases do, together with the lines of the test resources' rewrite.def that can apply to the text.
use sudachi::dic::word_id::WordId;
use unicode_normalization::{is_nfkc_quick, IsNormalized, UnicodeNormalization};

/// rewrite.def of the test resources (the file the plugin loads by default): a line is trimmed; empty lines and lines
/// starting with '#' are skipped; one column = a character exempt from normalisation, two columns = a replacement rule
fn e2e_rewrite_def() -> (Vec<(String, String)>, Vec<char>) {
    let text = std::fs::read_to_string(res("rewrite.def")).expect("rewrite.def of the test resources");
    let mut pairs: Vec<(String, String)> = vec![];
    let mut ign = vec![];
    for line in text.lines() {
        let line = line.trim();
        if line.is_empty() || line.starts_with('#') {
            continue;
        }
        let cols: Vec<&str> = line.split_whitespace().collect();
        match cols.len() {
            1 => ign.extend(cols[0].chars().take(1)),
            2 => pairs.push((cols[0].to_string(), cols[1].to_string())),
            _ => panic!("rewrite.def: unexpected line {:?}", line),
        }
    }
    (pairs, ign)
}

/// `PD_default (Nz.mkO lowers nfkcs qcno uppers) table exempt qc_text` for a plugin that sees `text`:
/// oracle values of the characters of the text; rules whose key begins with a character of the text; exempt characters
/// that occur in the text (no other rule can match, no other character is asked about)
fn e2e_default_term(text: &str) -> String {
    let set: std::collections::BTreeSet<char> = text.chars().collect();
    let lower = |c: char| -> Vec<char> { c.to_lowercase().collect() };
    let nfkc_of = |v: &[char]| -> Vec<char> { v.iter().cloned().nfkc().collect() };
    let cl = |v: &[char]| clist(v.iter().map(|c| cn(*c as u32)));
    let mut lowers = vec![];
    let mut nf: std::collections::BTreeMap<Vec<char>, Vec<char>> = Default::default();
    let mut qcno = vec![];
    let mut uppers = vec![];
    for &c in &set {
        let l = lower(c);
        if l != vec![c] {
            lowers.push(format!("({}, {})", cn(c as u32), cl(&l)));
        }
        for src in [vec![c], l.clone()] {
            let n = nfkc_of(&src);
            if n != src {
                nf.insert(src, n);
            }
        }
        if !matches!(is_nfkc_quick(std::iter::once(c)), IsNormalized::Yes) {
            qcno.push(cn(c as u32));
        }
        if c.is_uppercase() {
            uppers.push(cn(c as u32));
        }
    }
    let (pairs, ign) = e2e_rewrite_def();
    let table = clist(
        pairs
            .iter()
            .filter(|(k, _)| k.chars().next().map_or(false, |c| set.contains(&c)))
            .map(|(k, v)| format!("({}, {})", cps_term(k), cps_term(v))),
    );
    let mut exempt: Vec<char> = ign.into_iter().filter(|c| set.contains(c)).collect();
    exempt.sort();
    exempt.dedup();
    format!(
        "PD_default (Nz.mkO {} {} {} {}) {} {} {}",
        clist(lowers),
        clist(nf.iter().map(|(k, v)| format!("({}, {})", cl(k), cl(v)))),
        clist(qcno),
        clist(uppers),
        table,
        clist(exempt.iter().map(|c| cn(*c as u32))),
        cbool(matches!(is_nfkc_quick(text.chars()), IsNormalized::Yes))
    )
}

fn cps_term(s: &str) -> String {
    clist(s.chars().map(|c| cn(c as u32)))
}

/// a small system dictionary: base words (some katakana, digits with the numeral part of speech) and compounds with A/B splits
fn e2e_csv(rng: &mut Rng) -> (String, Vec<String>) {
    let pool = ["東京", "都", "に", "行", "く", "キロ", "アイ", "ab", "c", "大学", "ー", "さ", "府", "é"];
    let digits = ["1", "2", "0", "〇", "一", "二"];
    let mut rows: Vec<String> = vec![];
    let mut base: Vec<(usize, String)> = vec![];
    let mut words = vec![];
    let noun = "名詞,普通名詞,一般,*,*,*";
    let num = "名詞,数詞,*,*,*,*";
    let push = |rows: &mut Vec<String>, key: &str, pos: &str, cost: i64, l: u64, r: u64, mode: &str, a: &str, b: &str, norm: &str| {
        rows.push(format!("{k},{l},{r},{c},{k},{p},ヨミ,{n},*,{m},{a},{b},*,*", k = key, l = l, r = r, c = cost, p = pos, n = norm, m = mode, a = a, b = b));
    };
    // numerals first (the numeral part of speech must exist for JoinNumeric)
    for d in digits.iter().take(2 + rng.below(4) as usize) {
        push(&mut rows, d, num, 2000 + rng.below(1000) as i64, 9, 9, "A", "*", "*", d);
        words.push(d.to_string());
    }
    for _ in 0..3 + rng.below(5) {
        let w = *rng.pick(&pool);
        if base.iter().any(|(_, x)| x == w) {
            continue;
        }
        base.push((rows.len(), w.to_string()));
        let (cost, l, r) = (1000 + rng.below(5000) as i64, rng.below(9), rng.below(9));
        push(&mut rows, w, noun, cost, l, r, "A", "*", "*", w);
        // homographs with identical parameters: equal path costs, the first inserted node must win
        if rng.chance(1, 3) {
            push(&mut rows, w, noun, cost, l, r, "A", "*", "*", w);
        }
        words.push(w.to_string());
    }
    for _ in 0..1 + rng.below(3) {
        let (surface, units, _) = gen_compound(rng, &base);
        if words.iter().any(|w| *w == surface) {
            continue;
        }
        let a = units.iter().map(|u| u.to_string()).collect::<Vec<_>>().join("/");
        let b = if rng.chance(1, 2) { a.clone() } else { "*".to_string() };
        push(&mut rows, &surface, noun, rng.below(3000) as i64, rng.below(9), rng.below(9), "C", &a, &b, &surface);
        words.push(surface);
    }
    (rows.join("\n"), words)
}

fn e2e_text(rng: &mut Rng, words: &[String], normalised: bool) -> String {
    let extra = ["ーー", "アイウ", "カ", "12", "1,2", "x", "に", " ", "ーーー", "キロメ", "\u{301}", "\u{3099}", "\u{301}"];
    // what DefaultInputTextPlugin rewrites: case, compatibility forms (1 -> 1, 1 -> n, n -> 1 through rewrite.def), an
    // exempt character, a rule whose key begins with an exempt character
    let by_default = ["ABc", "ＡＢ", "ｶﾞ", "㍿", "Ⅲ", "１２", "½", "か゛", "ｷﾛ", "É", "ﬁ", "C", "ｰｰ", "東京ﾄ", "ﾞ"];
    loop {
        let mut s = String::new();
        for _ in 0..1 + rng.below(4) {
            if normalised && rng.chance(2, 5) {
                s.push_str(*rng.pick(&by_default));
            } else if rng.chance(2, 3) {
                s.push_str(rng.pick(words).as_str());
            } else {
                s.push_str(*rng.pick(&extra));
            }
        }
        if s.chars().count() <= 12 {
            return s;
        }
    }
}

fn e2e_case(sink: &mut Sink, dict: &JapaneseDictionary, lex_hex: &[(String, String)], nwords: &[u32], st: &Stack, text: &str, mode: u8, d: Value, verbose: bool) {
    let g = dict.grammar();
    let lex = dict.lexicon();
    // the real tokenizer
    let implr = catch(|| {
        let mut tok = StatefulTokenizer::new(dict, mode_of(mode));
        tok.reset().push_str(text);
        if tok.do_tokenize().is_err() {
            return None;
        }
        let cur = tok.verif_input().current().to_string();
        let ml = tok.into_morpheme_list().ok()?;
        Some((cur, ml.iter().map(|m| (m.begin(), m.end(), m.word_id().as_raw())).collect::<Vec<_>>()))
    });
    let implr = match implr {
        Ok(x) => x,
        Err(p) => {
            if verbose {
                println!("analysis panicked: {}", p);
            }
            sink.tag("analysis_panicked(not C01/C08)");
            sink.case_rust_only(d, false);
            return;
        }
    };
    // tables of the model tokenizer
    let mut ids: Vec<u32> = vec![];
    for (dic, n) in nwords.iter().enumerate() {
        for i in 0..*n {
            ids.push(((dic as u32) << 28) | i);
        }
    }
    let pos_noun = g.get_part_of_speech_id(&["名詞", "普通名詞", "一般", "*", "*", "*"]).unwrap_or(0);
    let pos_num = g.get_part_of_speech_id(&["名詞", "数詞", "*", "*", "*", "*"]).unwrap_or(0);
    let mut params = vec![];
    let mut winfos = vec![];
    let mut hw = vec![];
    let mut ua = vec![];
    let mut ub = vec![];
    for raw in &ids {
        let wid = WordId::from_raw(*raw);
        let (l, r, c) = lex.get_word_param(wid);
        params.push(format!("({}, ({}, {}, {}))", cn(*raw), cn(l as u16), cn(r as u16), cz(c as i64)));
        let wi = lex.get_word_info(wid).expect("word info");
        winfos.push(format!("({}, mkWI {} {} [] [] {})", cn(*raw), cps_term(wi.surface()), cps_term(wi.normalized_form()), cn(wi.pos_id())));
        hw.push(format!("({}, {})", cn(*raw), cnu(wi.head_word_length())));
        ua.push(format!("({}, {})", cn(*raw), clist(wi.a_unit_split().iter().map(|w| cn(w.as_raw())))));
        ub.push(format!("({}, {})", cn(*raw), clist(wi.b_unit_split().iter().map(|w| cn(w.as_raw())))));
    }
    let cur = implr.as_ref().map(|x| x.0.clone()).unwrap_or_default();
    let mut chars: Vec<char> = text.chars().chain(cur.chars()).chain("ー".chars()).collect();
    chars.sort();
    chars.dedup();
    let cats = clist(chars.iter().map(|c| format!("({}, {})", cn(*c as u32), cn(g.character_category.get_category_types(*c).bits()))));
    let pls = clist(st.input.iter().enumerate().map(|(i, k)| match *k {
        0 => {
            assert!(i == 0, "DefaultInputTextPlugin is modelled as the first plugin only");
            e2e_default_term(text)
        }
        1 => format!("PD_psm {} {}", cps_term("ー-⁓〜〰"), cps_term("ー")),
        _ => panic!("input-text plugin {} is not part of the end-to-end correspondence", k),
    }));
    let simple = format!("O.PSimple (O.mkOov 8 8 6000 {})", cn(pos_noun));
    let provs = if st.oov == 0 {
        format!("[{}]", simple)
    } else {
        // char.def of the test resources: DEFAULT 0 1 0, ALPHA 1 1 0; unk2.def: DEFAULT -> 補助記号,一般  ALPHA -> 名詞,普通名詞,一般
        let pos_sym = g.get_part_of_speech_id(&["補助記号", "一般", "*", "*", "*", "*"]).unwrap_or(0);
        format!(
            "[O.PMecab (O.mkMecab [O.mkCI 1 false true 0%N; O.mkCI 32 true true 0%N] [(1%N, [O.mkOov 7 7 3857 {}]); (32%N, [O.mkOov 7 7 11633 {}])]); {}]",
            cn(pos_sym),
            cn(pos_noun),
            simple
        )
    };
    let conn = clist((0..10u16).map(|l| clist((0..10u16).map(|r| cz(g.conn_matrix().cost(l, r) as i64)))));
    let num = |n: bool| format!("Rw.PNumeric {} {}", cbool(n), cn(pos_num));
    let kat = |m: usize| format!("Rw.PKatakana {}%nat {}", m, cn(pos_noun));
    let rw = match st.rewrite {
        0 => "[]".to_string(),
        1 => format!("[{}]", num(true)),
        2 => format!("[{}]", kat(3)),
        3 => format!("[{}; {}]", num(false), kat(1)),
        _ => format!("[{}; {}]", num(true), kat(3)),
    };
    let tk = format!(
        "(mk_tokenizer {} {} {} {} {} {} {} {} Sp.Mode{} {} {} {})",
        pls,
        cats,
        clist(lex_hex.iter().map(|(a, b)| format!("(\"{}\"%string, \"{}\"%string)", a, b))),
        clist(params),
        clist(winfos),
        provs,
        conn,
        rw,
        MODE_NAMES[mode as usize],
        clist(hw),
        clist(ua),
        clist(ub)
    );
    let impl_term = copt(implr.as_ref().map(|x| clist(x.1.iter().map(|(b, e, w)| format!("({}, {}, {})", cnu(*b), cnu(*e), cn(*w))))));
    let term = format!("check_end_to_end {} {} {}", tk, cps_term(text), impl_term);
    if verbose {
        println!("input {:?} mode {}: implementation reports {:?}", text, MODE_NAMES[mode as usize], implr.as_ref().map(|x| &x.1));
    }
    sink.tag("end_to_end_model_case");
    sink.tag(&format!("e2e_mode={}", MODE_NAMES[mode as usize]));
    sink.tag(&format!("e2e_input_plugins={:?}", st.input));
    if st.input.first() == Some(&0) && implr.as_ref().map_or(false, |x| x.0 != text) {
        sink.tag("e2e_text_rewritten_by_default_plugin_stack");
    }
    if implr.as_ref().map_or(false, |x| x.0 != text) {
        sink.tag("e2e_text_rewritten");
    }
    sink.case(term, d, implr.as_ref().map_or(false, |x| x.1.len() > 1));
}

/// dictionary of an end-to-end case, rebuilt from its description
fn e2e_dict(csv: &str, user_csv: Option<&str>, st: &Stack) -> Result<(JapaneseDictionary, Vec<(String, String)>, Vec<u32>), String> {
    let sys = crate::c04::build_system(csv)?;
    let (trie, tbl) = crate::c04::sections(&sys, true);
    let mut lex_hex = vec![(crate::c04::hexz(&trie), crate::c04::hex(&tbl))];
    let mut nwords = vec![csv.lines().count() as u32];
    let user = match user_csv {
        Some(u) => {
            let ub = crate::c04::build_user_bare(&sys, u)?;
            let (t2, w2) = crate::c04::sections(&ub, false);
            lex_hex.push((crate::c04::hexz(&t2), crate::c04::hex(&w2)));
            nwords.push(u.lines().count() as u32);
            Some(ub)
        }
        None => None,
    };
    let bd = BuiltDict { system: sys, user, words: vec![], flavours: vec![] };
    let dict = load(&bd, st)?;
    Ok((dict, lex_hex, nwords))
}

fn e2e_desc(csv: &str, user_csv: Option<&str>, st: &Stack, text: &str, mode: u8) -> Value {
    json!({"kind": "c01-e2e", "csv": csv, "user_csv": user_csv, "text": text, "mode": MODE_NAMES[mode as usize],
           "stack": {"input": st.input, "oov": st.oov, "rewrite": st.rewrite}})
}

fn e2e_stream(sink: &mut Sink, args: &Args, rng: &mut Rng) {
    for _ in 0..args.n(14, 120) {
        let (csv, mut words) = e2e_csv(rng);
        // sometimes a user dictionary: a user word and a user compound referring to a system word (by row number) and to it
        let tokyo = csv.lines().position(|l| l.starts_with("東京,"));
        let user_csv = match tokyo {
            Some(k) if rng.chance(1, 2) => {
                let u0 = "ユーザ".to_string();
                let comp = format!("東京{}", u0);
                words.push(u0.clone());
                words.push(comp.clone());
                Some(format!(
                    "{u},3,3,500,{u},名詞,普通名詞,一般,*,*,*,ヨミ,{u},*,A,*,*,*,*\n{c},3,3,-200,{c},名詞,普通名詞,一般,*,*,*,ヨミ,{c},*,C,{k}/U0,{k}/U0,*,*",
                    u = u0,
                    c = comp,
                    k = k
                ))
            }
            _ => None,
        };
        let input: Vec<u8> = match rng.below(4) {
            0 => vec![],
            1 => vec![1],
            2 => vec![0],
            _ => vec![0, 1],
        };
        let st = Stack { input, oov: rng.below(2) as u8, rewrite: rng.below(5) as u8 };
        let (dict, lex_hex, nwords) = match e2e_dict(&csv, user_csv.as_deref(), &st) {
            Ok(x) => x,
            Err(e) => {
                sink.tag("e2e_dictionary_rejected");
                eprintln!("end-to-end dictionary not built: {}", e);
                continue;
            }
        };
        for _ in 0..args.n(3, 6) {
            let text = e2e_text(rng, &words, st.input.first() == Some(&0));
            for mode in 0..3u8 {
                e2e_case(sink, &dict, &lex_hex, &nwords, &st, &text, mode, e2e_desc(&csv, user_csv.as_deref(), &st, &text, mode), false);
            }
        }
    }
}
